"""helpers for C19 (static only; nothing of werkzeug is imported or executed).

* ``ev``            - total evaluator for an expression built from constants and ONE variable (guard atoms)
* ``Lin`` / ``prove_nonneg`` - linear forms over opaque atoms and a bounded inequality prover
* ``paths``         - edge-once path enumeration on a CFG (0 and 1 loop iterations)
* ``LoopSym``       - symbolic execution of one path through the de-chunker's copy loop
* ``wire_val``      - symbolic value of a bytes expression in the response writer as a token list
* ``typestate``     - product reachability (CFG node x small abstract state) with witness paths
"""

from __future__ import annotations

import ast
import re
import typing as t

from ..cfg import CFG, Node
from ..loader import AnalysisError, dotted, is_self_attr, norm


# ---------------------------------------------------------------------
# guard-atom evaluator


class Unknown(Exception):
    pass


Binder = t.Callable[[ast.AST], t.Tuple[bool, t.Any]]


def mentions(node: ast.AST, is_var: t.Callable[[ast.AST], bool]) -> bool:
    return any(is_var(n) for n in ast.walk(node))


def ev(node: ast.AST, bind: Binder) -> t.Any:
    """value of ``node`` where ``bind(n) -> (True, value)`` marks the variable; raises Unknown for anything else that is
    not a constant expression of the small total subset below."""
    hit, val = bind(node)
    if hit:
        return val
    if isinstance(node, ast.Constant):
        return node.value
    if isinstance(node, (ast.Tuple, ast.List)):
        return tuple(ev(e, bind) for e in node.elts)
    if isinstance(node, ast.Set):
        return frozenset(ev(e, bind) for e in node.elts)
    if isinstance(node, ast.UnaryOp):
        v = ev(node.operand, bind)
        if isinstance(node.op, ast.Not):
            return not v
        if isinstance(node.op, ast.USub) and isinstance(v, int):
            return -v
        raise Unknown(norm(node))
    if isinstance(node, ast.BoolOp):
        vals = [ev(v, bind) for v in node.values]
        return all(vals) if isinstance(node.op, ast.And) else any(vals)
    if isinstance(node, ast.BinOp):
        a, b = ev(node.left, bind), ev(node.right, bind)
        try:
            if isinstance(node.op, ast.FloorDiv):
                return a // b
            if isinstance(node.op, ast.Mod) and isinstance(a, int):
                return a % b
            if isinstance(node.op, ast.Add):
                return a + b
            if isinstance(node.op, ast.Sub):
                return a - b
            if isinstance(node.op, ast.Mult):
                return a * b
        except Exception:
            raise Unknown(norm(node))
        raise Unknown(norm(node))
    if isinstance(node, ast.Compare):
        left = ev(node.left, bind)
        for op, rhs in zip(node.ops, node.comparators):
            right = ev(rhs, bind)
            try:
                if isinstance(op, ast.Eq):
                    r = left == right
                elif isinstance(op, ast.NotEq):
                    r = left != right
                elif isinstance(op, ast.Lt):
                    r = left < right
                elif isinstance(op, ast.LtE):
                    r = left <= right
                elif isinstance(op, ast.Gt):
                    r = left > right
                elif isinstance(op, ast.GtE):
                    r = left >= right
                elif isinstance(op, ast.In):
                    r = left in right
                elif isinstance(op, ast.NotIn):
                    r = left not in right
                elif isinstance(op, ast.Is):
                    r = left is right
                elif isinstance(op, ast.IsNot):
                    r = left is not right
                else:
                    raise Unknown(norm(node))
            except TypeError:
                raise Unknown(norm(node))
            if not r:
                return False
            left = right
        return True
    if isinstance(node, ast.Call):
        d = dotted(node.func)
        if d == "range" and not node.keywords and 1 <= len(node.args) <= 3:
            args = [ev(a, bind) for a in node.args]
            if all(isinstance(a, int) for a in args):
                return range(*args)
        if d == "len" and len(node.args) == 1 and not node.keywords:
            v = ev(node.args[0], bind)
            if isinstance(v, (bytes, str, tuple, frozenset)):
                return len(v)
        if d in ("set", "frozenset", "tuple", "list") and len(node.args) == 1:
            return ev(node.args[0], bind)
        if isinstance(node.func, ast.Attribute) and not node.args and not node.keywords and node.func.attr in ("upper", "lower", "strip", "casefold"):
            v = ev(node.func.value, bind)
            if isinstance(v, (str, bytes)):
                return getattr(v, node.func.attr)()
    raise Unknown(norm(node))


def admitted(guards: list[tuple[Node, str]], is_var: t.Callable[[ast.AST], bool], domain: t.Iterable[t.Any]) -> tuple[list[t.Any], list[tuple[Node, str]]]:
    """values of the variable for which every dominating guard atom that mentions it evaluates to the edge taken.
    Returns (admitted values, the atoms used).  An atom that mentions the variable but cannot be evaluated makes the
    question undecidable -> AnalysisError."""
    atoms = [(n, l) for n, l in guards if n.kind == "test" and n.ast is not None and mentions(n.ast, is_var)]
    out = []
    for v in domain:
        ok = True
        for n, l in atoms:
            try:
                r = bool(ev(n.ast, lambda x, v=v: (True, v) if is_var(x) else (False, None)))
            except Unknown as e:
                raise AnalysisError(f"guard atom `{norm(n.ast)}` is outside the evaluable subset ({e})")
            if r != (l == "T"):
                ok = False
                break
        if ok:
            out.append(v)
    return out, atoms


# ---------------------------------------------------------------------
# linear forms


class Lin:
    """c + sum(coef * atom); atoms are strings."""

    __slots__ = ("c", "t")

    def __init__(self, c: int = 0, terms: dict[str, int] | None = None):
        self.c = c
        self.t = {k: v for k, v in (terms or {}).items() if v}

    @staticmethod
    def atom(name: str) -> "Lin":
        return Lin(0, {name: 1})

    def __add__(self, o: "Lin") -> "Lin":
        d = dict(self.t)
        for k, v in o.t.items():
            d[k] = d.get(k, 0) + v
        return Lin(self.c + o.c, d)

    def __sub__(self, o: "Lin") -> "Lin":
        return self + o.scale(-1)

    def scale(self, k: int) -> "Lin":
        return Lin(self.c * k, {a: v * k for a, v in self.t.items()})

    def key(self) -> tuple:
        return (self.c, tuple(sorted(self.t.items())))

    def __eq__(self, o: object) -> bool:
        return isinstance(o, Lin) and self.key() == o.key()

    def __hash__(self) -> int:
        return hash(self.key())

    def is_zero(self) -> bool:
        return not self.t and self.c == 0

    def __str__(self) -> str:
        parts = []
        for a, v in sorted(self.t.items()):
            if v == 1:
                parts.append(f"+ {a}")
            elif v == -1:
                parts.append(f"- {a}")
            else:
                parts.append(f"{'+' if v > 0 else '-'} {abs(v)}*{a}")
        if self.c or not parts:
            parts.append(f"{'+' if self.c >= 0 else '-'} {abs(self.c)}")
        s = " ".join(parts)
        return s[2:] if s.startswith("+ ") else s

    __repr__ = __str__


def prove_nonneg(goal: Lin, facts: t.Sequence[Lin], depth: int = 4) -> bool:
    """goal >= 0 follows from facts (each a form known to be >= 0 over the integers) by adding at most ``depth`` of
    them.  Sound (never proves a false inequality), incomplete."""
    if not goal.t:
        return goal.c >= 0
    if depth == 0:
        return False
    for f in facts:
        if any(goal.t.get(a, 0) * v > 0 for a, v in f.t.items()):
            if prove_nonneg(goal - f, facts, depth - 1):
                return True
    return False


# ---------------------------------------------------------------------
# paths

Path = t.List[t.Tuple[Node, t.Optional[str]]]


def paths(cfg: CFG, start: Node, stops: t.Iterable[Node], limit: int = 20000) -> list[Path]:
    """all paths from ``start`` that use every CFG edge at most once and end at the first stop node met after at least
    one step (a loop is therefore taken zero times and once).  AnalysisError when more than ``limit`` paths exist."""
    stop_ids = {n.id for n in stops}
    out: list[Path] = []
    stack: list[tuple[Node, Path, frozenset]] = [(start, [], frozenset())]
    while stack:
        n, p, used = stack.pop()
        if p and n.id in stop_ids:
            out.append(p + [(n, None)])
            if len(out) > limit:
                raise AnalysisError(f"more than {limit} paths")
            continue
        for i, (s, l) in enumerate(n.succs):
            e = (n.id, i)
            if e in used:
                continue
            stack.append((s, p + [(n, l)], used | {e}))
    return out


def fmt_path(p: Path, maxn: int = 14) -> str:
    items = [f"L{n.lineno}:{n.text()[:44]}" + (f"[{l}]" if l in ("T", "F", "exc") else "") for n, l in p if n.ast is not None]
    if len(items) > maxn:
        items = items[: maxn // 2] + ["..."] + items[-maxn // 2 :]
    return " -> ".join(items)


# ---------------------------------------------------------------------
# symbolic execution of the de-chunker's copy loop


class Opaque:
    """a non-arithmetic local value (bytes returned by the underlying stream)."""

    _n = 0

    def __init__(self, requested: Lin | None, what: str):
        Opaque._n += 1
        self.id = f"bytes#{Opaque._n}"
        self.requested = requested
        self.what = what


class NotArith(Exception):
    pass


class StoreRec(t.NamedTuple):
    stmt: ast.AST
    lo: Lin
    hi: Lin
    width: Lin
    requested: Lin | None  # size asked from the underlying stream for the stored bytes (None: source is not an underlying read)
    src_len: Lin | None  # symbolic length of the source when it is a local bytes value
    direct: bool  # the underlying read call is the right-hand side itself
    read_at: Lin  # value of the fill counter when the store executes
    res_at: Lin  # residual chunk length when the bytes were requested
    facts: tuple  # forms >= 0 known at that point


class PathResult:
    def __init__(self) -> None:
        self.stores: list[StoreRec] = []
        self.reads: list[tuple[Lin, ast.AST, Lin, tuple]] = []  # (requested, call, residual at that time, facts)
        self.res_start: Lin | None = None
        self.res_end: Lin | None = None
        self.res_base: Lin | None = None
        self.copied_since_base = Lin()
        self.requested_since_base = Lin()
        self.copied_total = Lin()
        self.read_delta = Lin()
        self.end = ""
        self.other_res_writes: list[ast.AST] = []


class LoopSym:
    def __init__(self, bufname: str, counter: str, residual: str, under: str, lenreader: str):
        self.buf, self.counter, self.residual, self.under, self.lenreader = bufname, counter, residual, under, lenreader
        self._uniq = 0

    # -- recognisers ---------------------------------------------------
    def is_res(self, n: ast.AST) -> bool:
        return is_self_attr(n, self.residual)

    def under_call(self, n: ast.AST, meth: str | None = None) -> bool:
        return (
            isinstance(n, ast.Call)
            and isinstance(n.func, ast.Attribute)
            and is_self_attr(n.func.value, self.under)
            and (meth is None or n.func.attr == meth)
        )

    def is_header_read(self, n: ast.AST) -> bool:
        return isinstance(n, ast.Call) and isinstance(n.func, ast.Attribute) and is_self_attr(n.func, self.lenreader) and not n.args

    def _fresh(self, what: str) -> Lin:
        self._uniq += 1
        return Lin.atom(f"{what}#{self._uniq}")

    # -- expression -> linear form ------------------------------------------
    def lin(self, e: ast.AST, st: dict[str, t.Any]) -> Lin:
        env, facts = st["env"], st["facts"]
        if isinstance(e, ast.Constant) and isinstance(e.value, int) and not isinstance(e.value, bool):
            return Lin(e.value)
        if isinstance(e, ast.Name):
            v = env.get(e.id)
            if isinstance(v, Opaque):
                raise NotArith(e.id)
            return v if v is not None else Lin.atom(e.id)
        if self.is_res(e):
            return st["res"]
        if isinstance(e, ast.UnaryOp) and isinstance(e.op, ast.USub):
            return self.lin(e.operand, st).scale(-1)
        if isinstance(e, ast.BinOp):
            if isinstance(e.op, ast.Add):
                return self.lin(e.left, st) + self.lin(e.right, st)
            if isinstance(e.op, ast.Sub):
                return self.lin(e.left, st) - self.lin(e.right, st)
            if isinstance(e.op, ast.Mult):
                a, b = self.lin(e.left, st), self.lin(e.right, st)
                if not a.t:
                    return b.scale(a.c)
                if not b.t:
                    return a.scale(b.c)
            return self._fresh("opaque")
        if isinstance(e, ast.Call):
            d = dotted(e.func)
            if d == "len" and len(e.args) == 1 and not e.keywords:
                a = e.args[0]
                if isinstance(a, ast.Name) and a.id == self.buf:
                    return Lin.atom(f"len({self.buf})")
                if isinstance(a, ast.Name) and isinstance(env.get(a.id), Opaque):
                    return Lin.atom(f"len({env[a.id].id})")
                return self._fresh("opaque")
            if d in ("min", "max") and e.args and not e.keywords and not any(isinstance(a, ast.Starred) for a in e.args):
                args = [self.lin(a, st) for a in e.args]
                m = Lin.atom(f"{d}(" + ", ".join(sorted(str(a) for a in args)) + ")")
                for a in args:
                    facts.append(a - m if d == "min" else m - a)
                return m
            if self.under_call(e) or self.is_header_read(e):
                raise NotArith(norm(e))
            return self._fresh("opaque")
        if isinstance(e, (ast.Subscript, ast.Attribute, ast.JoinedStr, ast.Dict, ast.List, ast.Tuple)) or (isinstance(e, ast.Constant) and not isinstance(e.value, int)):
            raise NotArith(norm(e))
        return self._fresh("opaque")

    def _cmp_facts(self, atom: ast.AST, label: str | None, st: dict[str, t.Any]) -> None:
        if not (isinstance(atom, ast.Compare) and len(atom.ops) == 1 and label in ("T", "F")):
            return
        try:
            a, b = self.lin(atom.left, st), self.lin(atom.comparators[0], st)
        except NotArith:
            return
        op = atom.ops[0]
        T = label == "T"
        one = Lin(1)
        f = st["facts"]
        if isinstance(op, ast.Lt):
            f.append(b - a - one if T else a - b)
        elif isinstance(op, ast.LtE):
            f.append(b - a if T else a - b - one)
        elif isinstance(op, ast.Gt):
            f.append(a - b - one if T else b - a)
        elif isinstance(op, ast.GtE):
            f.append(a - b if T else b - a - one)
        elif (isinstance(op, ast.Eq) and T) or (isinstance(op, ast.NotEq) and not T):
            f.append(a - b)
            f.append(b - a)

    # -- one path ----------------------------------------------------------
    def run(self, path: Path, cfg: CFG) -> PathResult:
        res0 = Lin.atom("residual@start")
        st: dict[str, t.Any] = {"env": {}, "facts": [res0], "res": res0}
        r = PathResult()
        r.res_start = res0
        r.res_base = res0
        counter0 = Lin.atom(self.counter)
        last = path[-1][0]
        r.end = "exit" if last is cfg.exit else "raise" if last is cfg.raise_exit else "head"
        for node, label in path[:-1]:
            a = node.ast
            if a is None or node.kind in ("join",):
                continue
            if node.kind == "test":
                self._note_reads(a, st, r, consumed=True)
                self._cmp_facts(a, label, st)
                continue
            if isinstance(a, (ast.Assign, ast.AnnAssign)):
                value = a.value
                targets = a.targets if isinstance(a, ast.Assign) else [a.target]
                if value is None:
                    continue
                for tg in targets:
                    if isinstance(tg, ast.Name):
                        if self.under_call(value, "read") and len(value.args) == 1:  # type: ignore[attr-defined]
                            k = self._lin_or_fresh(value.args[0], st)  # type: ignore[attr-defined]
                            o = Opaque(k, norm(value))
                            st["env"][tg.id] = o
                            st["facts"].append(Lin.atom(f"len({o.id})"))  # len >= 0
                            st["facts"].append(k - Lin.atom(f"len({o.id})"))  # contract of read(k): at most k bytes
                            self._read_event(k, value, st, r)
                        else:
                            self._note_reads(value, st, r, consumed=True)
                            try:
                                st["env"][tg.id] = self.lin(value, st)
                            except NotArith:
                                st["env"][tg.id] = Opaque(None, norm(value))
                    elif self.is_res(tg):
                        if self.is_header_read(value):
                            st["res"] = self._fresh("chunk-size")
                            st["facts"].append(st["res"])  # the header reader returns >= 0 (checked separately)
                        else:
                            r.other_res_writes.append(a)
                            st["res"] = self._lin_or_fresh(value, st)
                        r.res_base = st["res"]
                        r.copied_since_base = Lin()
                        r.requested_since_base = Lin()
                    elif isinstance(tg, ast.Subscript) and isinstance(tg.value, ast.Name) and tg.value.id == self.buf:
                        self._store(a, tg, value, st, r, counter0)
                    else:
                        self._note_reads(value, st, r, consumed=True)
            elif isinstance(a, ast.AugAssign):
                tg = a.target
                self._note_reads(a.value, st, r, consumed=True)
                d = self._lin_or_fresh(a.value, st)
                if isinstance(tg, ast.Name):
                    cur = st["env"].get(tg.id)
                    if isinstance(cur, Opaque):
                        continue
                    cur = cur if cur is not None else Lin.atom(tg.id)
                    if isinstance(a.op, ast.Add):
                        st["env"][tg.id] = cur + d
                    elif isinstance(a.op, ast.Sub):
                        st["env"][tg.id] = cur - d
                    else:
                        st["env"][tg.id] = self._fresh("opaque")
                elif self.is_res(tg):
                    if isinstance(a.op, ast.Sub):
                        st["res"] = st["res"] - d
                    elif isinstance(a.op, ast.Add):
                        st["res"] = st["res"] + d
                    else:
                        st["res"] = self._fresh("opaque")
            else:
                self._note_reads(a, st, r, consumed=True)
        r.res_end = st["res"]
        cur = st["env"].get(self.counter)
        r.read_delta = (cur if isinstance(cur, Lin) else (counter0 if cur is None else self._fresh("opaque"))) - counter0
        return r

    def _lin_or_fresh(self, e: ast.AST, st: dict[str, t.Any]) -> Lin:
        try:
            return self.lin(e, st)
        except NotArith:
            return self._fresh("opaque")

    def _read_event(self, k: Lin, call: ast.AST, st: dict[str, t.Any], r: PathResult) -> None:
        r.reads.append((k, call, st["res"], tuple(st["facts"])))
        r.requested_since_base = r.requested_since_base + k

    def _note_reads(self, e: ast.AST, st: dict[str, t.Any], r: PathResult, consumed: bool) -> None:
        """underlying read(k) calls that are evaluated without their result being stored into the buffer or a local."""
        for c in ast.walk(e):
            if self.under_call(c, "read"):
                k = self._lin_or_fresh(c.args[0], st) if len(c.args) == 1 else self._fresh("opaque")  # type: ignore[attr-defined]
                self._read_event(k, c, st, r)

    def _store(self, stmt: ast.AST, tg: ast.Subscript, value: ast.AST, st: dict[str, t.Any], r: PathResult, counter0: Lin) -> None:
        sl = tg.slice
        cur = st["env"].get(self.counter)
        read_at = cur if isinstance(cur, Lin) else counter0
        lb = Lin.atom(f"len({self.buf})")
        if not isinstance(sl, ast.Slice) or sl.step is not None:
            # single index store or strided store: not a bulk copy this analysis understands
            raise AnalysisError(f"readinto: buffer store `{norm(stmt)}` is not a plain slice store")
        lo = self._lin_or_fresh(sl.lower, st) if sl.lower is not None else Lin(0)
        hi = self._lin_or_fresh(sl.upper, st) if sl.upper is not None else lb
        requested = None
        src_len = None
        direct = False
        res_at = st["res"]
        if self.under_call(value, "read") and len(value.args) == 1:  # type: ignore[attr-defined]
            requested = self._lin_or_fresh(value.args[0], st)  # type: ignore[attr-defined]
            direct = True
            self._read_event(requested, value, st, r)
        elif isinstance(value, ast.Name) and isinstance(st["env"].get(value.id), Opaque):
            o = st["env"][value.id]
            requested = o.requested
            src_len = Lin.atom(f"len({o.id})")
        else:
            self._note_reads(value, st, r, consumed=True)
        w = hi - lo
        r.stores.append(StoreRec(stmt, lo, hi, w, requested, src_len, direct, read_at, res_at, tuple(st["facts"])))
        r.copied_since_base = r.copied_since_base + w
        r.copied_total = r.copied_total + w


# ---------------------------------------------------------------------
# wire tokens of the response writer

DATA = ("DATA",)
SIZE = ("SIZE",)  # lower/upper-case hex digits of len(DATA), no prefix
DEC = ("DEC",)  # decimal digits of len(DATA): never a valid chunk-size line
PFX = ("PFX",)  # "0x"-prefixed hex digits of len(DATA): never a valid chunk-size line

_PRINTF = re.compile(rb"%([-#0 +]*)(\d*)(?:\.(\d+))?([a-zA-Z%])")


def _is_len_of_data(e: ast.AST, env: dict[str, list]) -> bool:
    return isinstance(e, ast.Call) and dotted(e.func) == "len" and len(e.args) == 1 and not e.keywords and wire_val(e.args[0], env) == [DATA]


def _q(e: ast.AST) -> list:
    return [("?", norm(e))]


def wire_val(e: ast.AST, env: dict[str, list]) -> list:
    """symbolic value of a bytes/str expression: list of tokens DATA | SIZE | DEC | ("B", bytes) | ("?", text).
    str and bytes are not distinguished (``.encode()`` is the identity here: framing text is ASCII)."""
    if isinstance(e, ast.Constant):
        if isinstance(e.value, bytes):
            return [("B", e.value)] if e.value else []
        if isinstance(e.value, str):
            try:
                return [("B", e.value.encode("latin1"))] if e.value else []
            except UnicodeEncodeError:
                return _q(e)
        return _q(e)
    if isinstance(e, ast.Name):
        return list(env[e.id]) if e.id in env else _q(e)
    if isinstance(e, ast.BinOp) and isinstance(e.op, ast.Add):
        return merge(wire_val(e.left, env) + wire_val(e.right, env))
    if isinstance(e, ast.BinOp) and isinstance(e.op, ast.Mod) and isinstance(e.left, ast.Constant) and isinstance(e.left.value, (bytes, str)):
        fmt = e.left.value if isinstance(e.left.value, bytes) else e.left.value.encode("latin1", "replace")
        args = list(e.right.elts) if isinstance(e.right, ast.Tuple) else [e.right]
        out: list = []
        pos = 0
        ai = 0
        for m in _PRINTF.finditer(fmt):
            if m.start() > pos:
                out.append(("B", fmt[pos : m.start()]))
            pos = m.end()
            conv = m.group(4)
            if conv == b"%":
                out.append(("B", b"%"))
                continue
            if ai >= len(args) or m.group(1) or m.group(2) or m.group(3):
                return _q(e)
            a = args[ai]
            ai += 1
            if conv in (b"x", b"X"):
                out += [SIZE] if _is_len_of_data(a, env) else _q(a)
            elif conv in (b"d", b"i", b"u"):
                out += [DEC] if _is_len_of_data(a, env) else _q(a)
            elif conv in (b"b", b"s"):
                out += wire_val(a, env)
            else:
                return _q(e)
        if pos < len(fmt):
            out.append(("B", fmt[pos:]))
        if ai != len(args):
            return _q(e)
        return merge(out)
    if isinstance(e, ast.JoinedStr):
        out = []
        for v in e.values:
            if isinstance(v, ast.Constant):
                out += wire_val(v, env)
            elif isinstance(v, ast.FormattedValue):
                spec = None
                if v.format_spec is not None:
                    if isinstance(v.format_spec, ast.JoinedStr) and all(isinstance(x, ast.Constant) for x in v.format_spec.values):
                        spec = "".join(str(x.value) for x in v.format_spec.values)  # type: ignore[attr-defined]
                    else:
                        return _q(e)
                if v.conversion not in (-1, None):
                    return _q(e)
                if _is_len_of_data(v.value, env):
                    if spec in ("x", "X"):
                        out.append(SIZE)
                    elif spec in (None, "", "d"):
                        out.append(DEC)
                    else:
                        return _q(e)
                else:
                    return _q(e)
        return merge(out)
    if isinstance(e, ast.Subscript):
        # hex(len(data))[2:]
        v = e.value
        if (
            isinstance(v, ast.Call) and dotted(v.func) == "hex" and len(v.args) == 1 and _is_len_of_data(v.args[0], env)
            and isinstance(e.slice, ast.Slice) and e.slice.upper is None and e.slice.step is None
            and isinstance(e.slice.lower, ast.Constant) and e.slice.lower.value == 2
        ):
            return [SIZE]
        return _q(e)
    if isinstance(e, ast.Call):
        f = e.func
        d = dotted(f)
        if isinstance(f, ast.Attribute) and f.attr in ("encode",) and all(isinstance(a, ast.Constant) for a in e.args):
            return wire_val(f.value, env)
        if isinstance(f, ast.Attribute) and f.attr == "join" and isinstance(f.value, ast.Constant) and f.value.value in (b"", "") and len(e.args) == 1 and isinstance(e.args[0], (ast.List, ast.Tuple)):
            out = []
            for x in e.args[0].elts:
                out += wire_val(x, env)
            return merge(out)
        if d == "format" and len(e.args) == 2 and isinstance(e.args[1], ast.Constant) and _is_len_of_data(e.args[0], env):
            if e.args[1].value in ("x", "X"):
                return [SIZE]
            if e.args[1].value in ("", "d"):
                return [DEC]
        if d == "str" and len(e.args) == 1 and _is_len_of_data(e.args[0], env):
            return [DEC]
        if d == "hex" and len(e.args) == 1 and _is_len_of_data(e.args[0], env):
            return [PFX]
        if d == "bytes" and len(e.args) == 1 and not e.keywords:
            return wire_val(e.args[0], env)
        return _q(e)
    return _q(e)


def merge(tokens: list) -> list:
    out: list = []
    for tk in tokens:
        if tk[0] == "B":
            if not tk[1]:
                continue
            if out and out[-1][0] == "B":
                out[-1] = ("B", out[-1][1] + tk[1])
                continue
        out.append(tk)
    return out


def fmt_tokens(tokens: list) -> str:
    if not tokens:
        return "(nothing)"
    parts = []
    for tk in tokens:
        if tk[0] == "B":
            parts.append(repr(tk[1]))
        elif tk[0] == "?":
            parts.append(f"?{tk[1]}")
        else:
            parts.append({"DATA": "<data>", "SIZE": "<hex len(data)>", "DEC": "<decimal len(data)>", "PFX": "<0x-prefixed hex len(data)>"}[tk[0]])
    return " ".join(parts)


def always_truthy(tokens: list) -> bool:
    return any(tk[0] in ("SIZE", "DEC", "PFX") or (tk[0] == "B" and tk[1]) for tk in tokens)


# ---------------------------------------------------------------------
# typestate


def typestate(
    cfg: CFG,
    init: t.Iterable[tuple],
    effect: t.Callable[[Node, tuple], t.Iterable[tuple]],
    edge_ok: t.Callable[[Node, str | None, tuple], bool],
) -> tuple[dict[int, set[tuple]], dict[tuple[int, tuple], tuple[int, tuple] | None]]:
    """states on ARRIVAL at each node; ``effect`` maps an arrival state to the states after the node executed;
    ``edge_ok(node, label, post_state)`` filters edges (refining tests).  Also returns a parent map for witnesses."""
    at: dict[int, set[tuple]] = {n.id: set() for n in cfg.nodes}
    parent: dict[tuple[int, tuple], tuple[int, tuple] | None] = {}
    work: list[tuple[Node, tuple]] = []
    for s in init:
        at[cfg.entry.id].add(s)
        parent[(cfg.entry.id, s)] = None
        work.append((cfg.entry, s))
    while work:
        n, s = work.pop()
        for post in effect(n, s):
            for succ, l in n.succs:
                if not edge_ok(n, l, post):
                    continue
                if post not in at[succ.id]:
                    at[succ.id].add(post)
                    parent[(succ.id, post)] = (n.id, s)
                    work.append((succ, post))
    return at, parent


def witness(cfg: CFG, parent: dict, node: Node, state: tuple) -> str:
    chain = []
    cur: tuple[int, tuple] | None = (node.id, state)
    seen = set()
    while cur is not None and cur not in seen:
        seen.add(cur)
        chain.append(cfg.nodes[cur[0]])
        cur = parent.get(cur)
    chain.reverse()
    items = [f"L{n.lineno}:{n.text()[:40]}" for n in chain if n.ast is not None and n.kind != "join"]
    if len(items) > 14:
        items = items[:7] + ["..."] + items[-7:]
    return " -> ".join(items)


# ---------------------------------------------------------------------
# make_environ's header loop: evaluation of one iteration on a sample header name
#
# The header NAME is concrete (a sample string: generic names, underscore names, the Content-Type/Length spellings and
# every name derived from a string constant that occurs in the loop, so that each equality / membership test in the
# loop has a sample on either side); what is computed from it is computed with python's own str methods on that
# constant.  The header VALUE and the earlier content of the environ are symbolic tokens.  A condition that cannot be
# evaluated is followed on both edges.

HV = ("V",)  # the header value as received (with or without removal of obs-fold CRLF)
_STR_METHODS = {"upper", "lower", "casefold", "title", "capitalize", "swapcase", "strip", "lstrip", "rstrip", "replace", "removeprefix", "removesuffix"}


def _htoks(parts: list) -> t.Any:
    if all(isinstance(p, str) for p in parts):
        return "".join(parts)
    out: list = []
    for p in parts:
        if isinstance(p, str):
            if p:
                out.append(("B", p))
        else:
            out += p
    return merge(out)


def hval(e: ast.AST, env: dict[str, t.Any], environ: str, cond: t.Callable[[ast.AST], bool | None]) -> t.Any:
    """str (concrete) or token list [HV | ("ENV", key) | ("B", text) | ("?", source)]."""
    if isinstance(e, ast.Constant) and isinstance(e.value, str):
        return e.value
    if isinstance(e, ast.Name):
        return env[e.id] if e.id in env else _q(e)
    if isinstance(e, ast.JoinedStr):
        parts = []
        for v in e.values:
            if isinstance(v, ast.Constant):
                parts.append(str(v.value))
            elif isinstance(v, ast.FormattedValue) and v.format_spec is None and v.conversion in (-1, None):
                parts.append(hval(v.value, env, environ, cond))
            else:
                return _q(e)
        return _htoks(parts)
    if isinstance(e, ast.BinOp) and isinstance(e.op, ast.Add):
        return _htoks([hval(e.left, env, environ, cond), hval(e.right, env, environ, cond)])
    if isinstance(e, ast.BinOp) and isinstance(e.op, ast.Mod) and isinstance(e.left, ast.Constant) and isinstance(e.left.value, str):
        args = list(e.right.elts) if isinstance(e.right, ast.Tuple) else [e.right]
        pieces = e.left.value.split("%s")
        if len(pieces) != len(args) + 1 or any("%" in p for p in pieces):
            return _q(e)
        parts = [pieces[0]]
        for a, p in zip(args, pieces[1:]):
            parts += [hval(a, env, environ, cond), p]
        return _htoks(parts)
    if isinstance(e, ast.Subscript) and isinstance(e.value, ast.Name) and e.value.id == environ:
        k = hval(e.slice, env, environ, cond)
        return [("ENV", k)] if isinstance(k, str) else _q(e)
    if isinstance(e, ast.IfExp):
        c = cond(e.test)
        if c is None:
            return _q(e)
        return hval(e.body if c else e.orelse, env, environ, cond)
    if isinstance(e, ast.Call) and isinstance(e.func, ast.Attribute):
        f = e.func
        if isinstance(f.value, ast.Name) and f.value.id == environ and f.attr == "get" and not e.keywords and (len(e.args) == 1 or (len(e.args) == 2 and isinstance(e.args[1], ast.Constant) and e.args[1].value is None)):
            k = hval(e.args[0], env, environ, cond)
            return [("ENV", k)] if isinstance(k, str) else _q(e)
        if f.attr == "join" and isinstance(f.value, ast.Constant) and isinstance(f.value.value, str) and len(e.args) == 1 and isinstance(e.args[0], (ast.List, ast.Tuple)) and not e.keywords:
            parts = []
            for i, x in enumerate(e.args[0].elts):
                if i:
                    parts.append(f.value.value)
                parts.append(hval(x, env, environ, cond))
            return _htoks(parts)
        obj = hval(f.value, env, environ, cond)
        const_args = all(isinstance(a, ast.Constant) and isinstance(a.value, str) for a in e.args) and not e.keywords
        if isinstance(obj, str) and f.attr in _STR_METHODS and const_args:
            try:
                return getattr(obj, f.attr)(*[a.value for a in e.args])  # type: ignore[attr-defined]
            except Exception:
                return _q(e)
        if isinstance(obj, list) and f.attr == "replace" and const_args and [a.value for a in e.args] == ["\r\n", ""]:  # type: ignore[attr-defined]
            return obj  # obs-fold removal: not distinguished from the value as received
        return _q(e)
    if isinstance(e, ast.Call) and dotted(e.func) == "str" and len(e.args) == 1 and not e.keywords:
        return hval(e.args[0], env, environ, cond)
    return _q(e)


def hcond(e: ast.AST, env: dict[str, t.Any], environ: str, present: t.Collection[str]) -> bool | None:
    """truth value of a condition in the header loop; None when it cannot be decided from the sample."""
    rec = lambda x: hcond(x, env, environ, present)  # noqa: E731
    if isinstance(e, ast.UnaryOp) and isinstance(e.op, ast.Not):
        v = rec(e.operand)
        return None if v is None else not v
    if isinstance(e, ast.BoolOp):
        vals = [rec(v) for v in e.values]
        if isinstance(e.op, ast.And):
            return False if any(v is False for v in vals) else (None if any(v is None for v in vals) else True)
        return True if any(v is True for v in vals) else (None if any(v is None for v in vals) else False)
    if isinstance(e, ast.Compare) and len(e.ops) == 1:
        op, a, b = e.ops[0], e.left, e.comparators[0]
        is_env = isinstance(b, ast.Name) and b.id == environ or (isinstance(b, ast.Call) and isinstance(b.func, ast.Attribute) and b.func.attr == "keys" and isinstance(b.func.value, ast.Name) and b.func.value.id == environ)
        if isinstance(op, (ast.In, ast.NotIn)) and is_env:
            k = hval(a, env, environ, rec)
            if not isinstance(k, str):
                return None
            return (k in present) == isinstance(op, ast.In)
        if isinstance(op, (ast.Is, ast.IsNot)) and isinstance(b, ast.Constant) and b.value is None:
            v = hval(a, env, environ, rec)
            if isinstance(v, list) and len(v) == 1 and v[0][0] == "ENV":
                return (v[0][1] not in present) == isinstance(op, ast.Is)
            if isinstance(v, str):
                return isinstance(op, ast.IsNot)
            return None
    if isinstance(e, ast.Name) or isinstance(e, ast.Call):
        v = hval(e, env, environ, rec)
        if isinstance(v, list) and len(v) == 1 and v[0][0] == "ENV":
            return None if v[0][1] in present else False  # an earlier value may be empty; an absent one is None
        if isinstance(v, str):
            return bool(v)

    def bind(x: ast.AST) -> tuple[bool, t.Any]:
        if isinstance(x, (ast.Name, ast.Call, ast.JoinedStr, ast.BinOp, ast.Subscript)):
            v = hval(x, env, environ, rec)
            if isinstance(v, str):
                return True, v
        return False, None

    try:
        return bool(ev(e, bind))
    except Unknown:
        return None


def loop_iteration_paths(cfg: CFG, head: Node, limit: int = 5000) -> list[Path]:
    """paths of one iteration of a `for` loop: from the head's body edge to the head again, the normal exit or the raising
    exit; every edge at most once; exceptional edges are not followed."""
    out: list[Path] = []
    stops = {head.id, cfg.exit.id, cfg.raise_exit.id}
    stack: list[tuple[Node, Path, frozenset]] = [(s, [(head, "T")], frozenset()) for s, l in head.succs if l == "T"]
    while stack:
        n, p, used = stack.pop()
        if n.id in stops:
            out.append(p + [(n, None)])
            if len(out) > limit:
                raise AnalysisError(f"more than {limit} paths through the loop body")
            continue
        for i, (s, l) in enumerate(n.succs):
            if l == "exc" or (n.id, i) in used:
                continue
            stack.append((s, p + [(n, l)], used | {(n.id, i)}))
    return out


# ---------------------------------------------------------------------
# one level of helper inlining (AST to AST), so that the CFG-based rules see what the function does
#
# * `self._h(a, b)` as a statement, where _h is a plain method of the same class whose body contains no `return` with a
#   value and no `return` other than a trailing one, is replaced by the body of _h: parameters that receive a plain
#   name and are never rebound in _h are substituted, other parameters are bound by an assignment first; the locals
#   of _h are renamed (`__h__name`) so that they cannot clash with the caller's.
# * `self._p()` in an expression, where the body of _p is a single `return <expr>` and _p has no parameters, is
#   replaced by <expr>.
# Line numbers of the inlined statements are those of the helper.


def clone(n: t.Any) -> t.Any:
    """structural copy of an AST (without the loader's parent back-pointers)."""
    if isinstance(n, ast.AST):
        new = n.__class__()
        for f in n._fields:
            if hasattr(n, f):
                setattr(new, f, clone(getattr(n, f)))
        for a in n._attributes:
            if hasattr(n, a):
                setattr(new, a, getattr(n, a))
        return new
    if isinstance(n, list):
        return [clone(x) for x in n]
    return n


def _strip_doc(body: list[ast.stmt]) -> list[ast.stmt]:
    if body and isinstance(body[0], ast.Expr) and isinstance(body[0].value, ast.Constant) and isinstance(body[0].value.value, str):
        return body[1:]
    return body


def _plain_method(m: ast.AST) -> bool:
    if not isinstance(m, ast.FunctionDef) or m.decorator_list:
        return False
    a = m.args
    return bool(a.args) and a.args[0].arg == "self" and not (a.vararg or a.kwarg or a.kwonlyargs or a.posonlyargs or a.defaults)


def _self_method_call(c: ast.AST) -> str | None:
    if isinstance(c, ast.Call) and isinstance(c.func, ast.Attribute) and isinstance(c.func.value, ast.Name) and c.func.value.id == "self":
        return c.func.attr
    return None


def inline_methods(fn: ast.AST, methods: dict[str, ast.AST], exclude: t.Collection[str] = ()) -> tuple[ast.AST, set[str]]:
    inlined: set[str] = set()
    new_fn = clone(fn)

    def expr_helper(name: str) -> ast.AST | None:
        m = methods.get(name)
        if m is None or name in exclude or not _plain_method(m) or len(m.args.args) != 1:  # type: ignore[attr-defined]
            return None
        body = _strip_doc(m.body)  # type: ignore[attr-defined]
        if len(body) == 1 and isinstance(body[0], ast.Return) and body[0].value is not None and not any(isinstance(x, (ast.Call, ast.Await, ast.Yield, ast.YieldFrom, ast.NamedExpr)) for x in ast.walk(body[0].value)):
            return body[0].value
        return None

    def stmt_helper(c: ast.Call) -> list[ast.stmt] | None:
        name = _self_method_call(c)
        m = methods.get(name or "")
        if m is None or name in exclude or not _plain_method(m) or c.keywords or any(isinstance(a, ast.Starred) for a in c.args):
            return None
        params = [a.arg for a in m.args.args[1:]]  # type: ignore[attr-defined]
        if len(params) != len(c.args):
            return None
        body = _strip_doc(m.body)  # type: ignore[attr-defined]
        if body and isinstance(body[-1], ast.Return) and body[-1].value is None:
            body = body[:-1]
        for st in body:
            for x in ast.walk(st):
                if isinstance(x, (ast.Return, ast.Yield, ast.YieldFrom, ast.Await, ast.Global, ast.Nonlocal, ast.FunctionDef, ast.AsyncFunctionDef, ast.Lambda, ast.ClassDef)):
                    return None
        stored = {x.id for st in body for x in ast.walk(st) if isinstance(x, ast.Name) and isinstance(x.ctx, (ast.Store, ast.Del))}
        mapping: dict[str, str] = {}
        pre: list[ast.stmt] = []
        for prm, arg in zip(params, c.args):
            if isinstance(arg, ast.Name) and prm not in stored:
                mapping[prm] = arg.id
            else:
                mapping[prm] = f"__{name}__{prm}"
                asg = ast.Assign(targets=[ast.Name(id=mapping[prm], ctx=ast.Store())], value=clone(arg))
                pre.append(ast.copy_location(asg, c))
        for nm in stored:
            mapping.setdefault(nm, f"__{name}__{nm}")
        out = pre + clone(body)
        for st in out:
            for x in ast.walk(st):
                if isinstance(x, ast.Name) and x.id in mapping:
                    x.id = mapping[x.id]
        for st in pre:
            ast.fix_missing_locations(st)
        inlined.add(name)  # type: ignore[arg-type]
        return out or [ast.copy_location(ast.Pass(), c)]

    class Exprs(ast.NodeTransformer):
        def visit_Call(self, c: ast.Call) -> ast.AST:  # noqa: N802
            self.generic_visit(c)
            name = _self_method_call(c)
            if name and not c.args and not c.keywords:
                e = expr_helper(name)
                if e is not None:
                    inlined.add(name)
                    return clone(e)
            return c

    def block(stmts: list[ast.stmt]) -> list[ast.stmt]:
        out: list[ast.stmt] = []
        for st in stmts:
            if isinstance(st, ast.Expr) and isinstance(st.value, ast.Call):
                rep = stmt_helper(st.value)
                if rep is not None:
                    out += rep  # one level: the inlined body is not scanned again
                    continue
            for f in ("body", "orelse", "finalbody"):
                if isinstance(getattr(st, f, None), list) and not isinstance(st, (ast.FunctionDef, ast.AsyncFunctionDef, ast.ClassDef)):
                    setattr(st, f, block(getattr(st, f)))
            for h in getattr(st, "handlers", []) or []:
                h.body = block(h.body)
            out.append(st)
        return out

    new_fn.body = block(new_fn.body)
    new_fn = Exprs().visit(new_fn)
    for n in ast.walk(new_fn):
        for ch in ast.iter_child_nodes(n):
            ch._parent = n  # type: ignore[attr-defined]
    return new_fn, inlined


# ---------------------------------------------------------------------
# R19.5: the premise of the exactness argument - the request stream is a buffered reader over a blocking socket
#
# socketserver.StreamRequestHandler.setup() (trusted stdlib semantics) does
#     self.connection = self.request
#     if self.timeout is not None: self.connection.settimeout(self.timeout)
#     self.rfile = self.connection.makefile('rb', self.rbufsize)        # class default rbufsize = -1
# and socket.makefile('rb', k) returns the raw socket.SocketIO for k == 0 and io.BufferedReader for every other k
# (None / negative: default size).  Only the BufferedReader over a blocking socket has `read(n)` returning fewer than
# n bytes at end of stream only.  The names `rbufsize`, `timeout`, `rfile`, `makefile`, `setblocking`, `settimeout`
# are stdlib API (roles, not spellings of this code base).

STREAM_HANDLER_BASES = {
    "socketserver.StreamRequestHandler",
    "http.server.BaseHTTPRequestHandler",
    "http.server.SimpleHTTPRequestHandler",
    "http.server.CGIHTTPRequestHandler",
}
# stdlib constants that may be named as a buffer size (only sign / zero-ness matters)
STDLIB_NUMBERS = {"io.DEFAULT_BUFFER_SIZE": 8192, "_io.DEFAULT_BUFFER_SIZE": 8192, "_pyio.DEFAULT_BUFFER_SIZE": 8192}
BUFFERED_CTORS = {"io.BufferedReader", "io.BufferedRandom", "io.BufferedRWPair", "io.BytesIO", "_io.BufferedReader", "_io.BufferedRandom", "_io.BufferedRWPair", "_io.BytesIO"}
RAW_CTORS = {"socket.SocketIO", "io.FileIO", "_io.FileIO"}
OPENERS = {"builtins.open", "io.open", "_io.open", "os.fdopen"}


class _Site(t.NamedTuple):
    attr: str
    value: ast.AST | None  # None: the bound value is not an expression of the statement (tuple target, for target, ...)
    stmt: ast.AST
    module: t.Any
    func: ast.AST | None  # innermost enclosing function
    cls: ast.ClassDef | None
    how: str  # "class attribute" | "attribute store" | "setattr" | "namespace entry" | "keyword"
    on_self: bool


def _scoped(tree: ast.AST) -> t.Iterator[tuple[ast.AST, ast.AST | None, ast.ClassDef | None, str | None]]:
    """(node, innermost enclosing function, enclosing class, name of `self` there) for every node of a module."""

    def rec(n: ast.AST, func: ast.AST | None, cls: ast.ClassDef | None, selfname: str | None) -> t.Iterator:
        for ch in ast.iter_child_nodes(n):
            yield ch, func, cls, selfname
            if isinstance(ch, ast.ClassDef):
                yield from rec(ch, None, ch, None)
            elif isinstance(ch, (ast.FunctionDef, ast.AsyncFunctionDef)):
                sn = selfname
                if func is None and cls is not None:  # a method: its first parameter is the instance
                    static = any((dotted(d) or "").rsplit(".", 1)[-1] in ("staticmethod", "classmethod") for d in ch.decorator_list)
                    sn = ch.args.args[0].arg if ch.args.args and not static else None
                yield from rec(ch, ch, cls, sn)
            else:
                yield from rec(ch, func, cls, selfname)

    yield from rec(tree, None, None, None)


def _class_body(node: ast.ClassDef) -> t.Iterator[ast.stmt]:
    """statements executed in the class body (both arms of conditionals, try blocks)."""

    def rec(stmts: list[ast.stmt]) -> t.Iterator[ast.stmt]:
        for st in stmts:
            yield st
            if isinstance(st, (ast.If, ast.Try, ast.With, ast.For, ast.While)):
                for f in ("body", "orelse", "finalbody"):
                    yield from rec(getattr(st, f, []) or [])
                for h in getattr(st, "handlers", []) or []:
                    yield from rec(h.body)

    yield from rec(node.body)


class StreamPremise:
    def __init__(self, ctx: t.Any, handler: t.Any, rule: str):
        from ..fold import Folder

        self.ctx = ctx
        self.repo = ctx.repo
        self.rule = rule
        self.handler = handler
        self.folder = Folder(self.repo)

    # -- values ----------------------------------------------------------
    def _subst_stdlib(self, module: t.Any, e: ast.AST, func: ast.AST | None) -> ast.AST:
        repo = self.repo
        li = module.local_imports(func) if func is not None else None

        class T(ast.NodeTransformer):
            def visit_Attribute(self, n: ast.Attribute) -> ast.AST:  # noqa: N802
                d = dotted(n)
                if d:
                    fq = repo.resolve(module, d, li)
                    if fq in STDLIB_NUMBERS:
                        return ast.copy_location(ast.Constant(STDLIB_NUMBERS[fq]), n)
                return self.generic_visit(n)

            def visit_Name(self, n: ast.Name) -> ast.AST:  # noqa: N802
                fq = repo.resolve(module, n.id, li) if (n.id in module.imports or (li and n.id in li)) else None
                if fq in STDLIB_NUMBERS:
                    return ast.copy_location(ast.Constant(STDLIB_NUMBERS[fq]), n)
                return n

        return T().visit(clone(e))

    def values(self, module: t.Any, e: ast.AST, env: dict[str, t.Any], func: ast.AST | None, depth: int = 0) -> list[t.Any]:
        """the values an expression can take, folded from constants (module-level names, class-level names in ``env``,
        single-assignment locals of ``func``); both arms of a conditional whose test does not fold.  Raises
        AnalysisError when some possible value is not a constant."""
        from .. import astq

        e2 = self._subst_stdlib(module, e, func)
        try:
            return [self.folder.expr(module, e2, env)]
        except Exception as exc:  # Unfoldable (an AnalysisError) or a type error inside the folded arithmetic
            if isinstance(e, ast.IfExp):
                return self.values(module, e.body, env, func, depth) + self.values(module, e.orelse, env, func, depth)
            if isinstance(e, ast.BoolOp):
                out: list[t.Any] = []
                for v in e.values:
                    out += self.values(module, v, env, func, depth)
                return out
            if func is not None and depth < 3:
                local = {}
                for nm in sorted({n.id for n in ast.walk(e) if isinstance(n, ast.Name)} - set(env)):
                    if nm in module.assigns:
                        continue
                    binds = astq.assigns_to(func, nm, nested=True)
                    if len(binds) == 1 and binds[0][1] is not None and isinstance(binds[0][0], (ast.Assign, ast.AnnAssign)):
                        vs = self.values(module, binds[0][1], env, func, depth + 1)
                        if len(vs) == 1:
                            local[nm] = vs[0]
                if local:
                    return self.values(module, e, {**env, **local}, func, depth + 1)
            raise AnalysisError(f"`{norm(e)}` does not fold to a constant ({exc})") from None

    @staticmethod
    def zero(v: t.Any) -> bool:
        return v is not None and isinstance(v, (int, float)) and v == 0

    def stream_kind(self, module: t.Any, e: ast.AST, func: ast.AST | None, depth: int = 0) -> tuple[str | None, str]:
        """'buffered' / 'raw' / None (cannot be followed) for an expression bound to rfile, with the reason."""
        from .. import astq

        li = module.local_imports(func) if func is not None else None
        if isinstance(e, ast.IfExp):
            a, wa = self.stream_kind(module, e.body, func, depth)
            b, wb = self.stream_kind(module, e.orelse, func, depth)
            if "raw" in (a, b):
                return "raw", wa if a == "raw" else wb
            return (None, wa if a is None else wb) if None in (a, b) else ("buffered", f"{wa}; {wb}")
        if isinstance(e, ast.Attribute) and e.attr == "raw":
            return "raw", f"`{norm(e)}` is the raw stream under a buffered reader"
        if isinstance(e, ast.Name) and func is not None and depth < 3:
            binds = astq.assigns_to(func, e.id, nested=True)
            if len(binds) == 1 and binds[0][1] is not None:
                return self.stream_kind(module, binds[0][1], func, depth + 1)
        if isinstance(e, ast.Call):
            d = dotted(e.func)
            fq = self.repo.resolve(module, d, li) if d else None
            if isinstance(e.func, ast.Attribute) and e.func.attr == "detach" and not e.args:
                return "raw", f"`{norm(e)}` detaches the raw stream"
            size: ast.AST | None = None
            sized = False
            if isinstance(e.func, ast.Attribute) and e.func.attr == "makefile":
                sized, size = True, astq.arg_or_kw(e, 1, "buffering")
            elif fq in OPENERS:
                sized, size = True, astq.arg_or_kw(e, 2, "buffering")
            if sized:
                if astq.has_double_star(e) or any(isinstance(a, ast.Starred) for a in e.args):
                    return None, f"`{norm(e)}`: buffering passed through * / **"
                if size is None:
                    return "buffered", f"`{norm(e)}`: default buffering"
                if isinstance(size, ast.Attribute) and size.attr == "rbufsize":
                    return "buffered", f"`{norm(e)}`: buffering is the `rbufsize` attribute, decided with its bindings"
                vs = self.values(module, size, {}, func)
                if any(self.zero(v) for v in vs):
                    return "raw", f"`{norm(e)}`: buffering {vs} (0 = unbuffered: the raw SocketIO / FileIO)"
                return "buffered", f"`{norm(e)}`: buffering {vs}"
            if fq in BUFFERED_CTORS:
                return "buffered", f"`{norm(e)}`"
            if fq in RAW_CTORS:
                return "raw", f"`{norm(e)}` is a raw stream: read(n) returns what one recv / read system call yields"
        return None, f"`{norm(e)}` is not a stream constructor this rule knows"

    # -- sites -------------------------------------------------------------
    def family(self) -> tuple[list[t.Any], list[str]]:
        mro = self.repo.mro(self.handler)
        own = [k for k in mro if hasattr(k, "node")]
        std = [k.fq for k in mro if not hasattr(k, "node")]
        for k in self.repo.subclasses(self.handler.fq):
            if k not in own:
                own.append(k)
                std += [b.fq for b in self.repo.mro(k) if not hasattr(b, "node") and b.fq not in std]
        return own, std

    def sites(self, fam_nodes: dict[int, t.Any]) -> list[_Site]:
        out: list[_Site] = []
        attrs = ("rbufsize", "rfile", "timeout")
        # class-level bindings of the family
        for k in fam_nodes.values():
            for st in _class_body(k.node):
                tgs: list[ast.AST] = []
                val: ast.AST | None = None
                if isinstance(st, ast.Assign):
                    tgs, val = list(st.targets), st.value
                elif isinstance(st, ast.AnnAssign) and st.value is not None:
                    tgs, val = [st.target], st.value
                elif isinstance(st, ast.AugAssign):
                    tgs, val = [st.target], None
                elif isinstance(st, (ast.For, ast.With)):
                    tgs = [st.target] if isinstance(st, ast.For) else [i.optional_vars for i in st.items if i.optional_vars is not None]
                for tg in tgs:
                    for a in attrs:
                        if isinstance(tg, ast.Name) and tg.id == a:
                            out.append(_Site(a, val, st, k.module, None, k.node, "class attribute", False))
                        elif not isinstance(tg, ast.Name) and any(isinstance(x, ast.Name) and x.id == a for x in ast.walk(tg)):
                            out.append(_Site(a, None, st, k.module, None, k.node, "class attribute", False))
        # stores anywhere in the package
        for m in self.repo.modules.values():
            if not any(a in m.source for a in ("rbufsize", "rfile")) and not any(k.module is m for k in fam_nodes.values()):
                continue
            handled: set[int] = set()
            for n, func, cls, selfname in _scoped(m.tree):
                in_family = cls is not None and id(cls) in fam_nodes
                known_other = cls is not None and not in_family and any(c.node is cls for c in m.classes.values())

                def relevant(obj: ast.AST, attr: str) -> tuple[bool, bool]:
                    on_self = isinstance(obj, ast.Name) and selfname is not None and obj.id == selfname
                    if attr == "timeout":
                        return on_self and in_family, on_self
                    if on_self and known_other:
                        return False, on_self  # an attribute of some other class that happens to have the same name
                    return True, on_self

                if isinstance(n, (ast.Assign, ast.AnnAssign, ast.AugAssign)):
                    tgs = list(n.targets) if isinstance(n, ast.Assign) else [n.target]
                    for tg in tgs:
                        if isinstance(tg, ast.Attribute) and tg.attr in attrs:
                            handled.add(id(tg))
                            rel, on_self = relevant(tg.value, tg.attr)
                            if rel:
                                val = None if isinstance(n, ast.AugAssign) else n.value
                                out.append(_Site(tg.attr, val, n, m, func, cls, "attribute store", on_self))
                elif isinstance(n, ast.Attribute) and n.attr in attrs and isinstance(n.ctx, ast.Store) and id(n) not in handled:
                    rel, on_self = relevant(n.value, n.attr)
                    if rel:
                        out.append(_Site(n.attr, None, n, m, func, cls, "attribute store", on_self))
                elif isinstance(n, ast.Call) and dotted(n.func) == "setattr" and len(n.args) == 3 and isinstance(n.args[1], ast.Constant) and n.args[1].value in attrs:
                    handled.add(id(n.args[1]))
                    rel, on_self = relevant(n.args[0], n.args[1].value)
                    if rel:
                        out.append(_Site(n.args[1].value, n.args[2], n, m, func, cls, "setattr", on_self))
                elif isinstance(n, ast.Call) and dotted(n.func) in ("getattr", "hasattr") and len(n.args) >= 2 and isinstance(n.args[1], ast.Constant):
                    handled.add(id(n.args[1]))  # a read
                elif isinstance(n, ast.Dict):
                    for k_, v_ in zip(n.keys, n.values):
                        if isinstance(k_, ast.Constant) and k_.value == "rbufsize":
                            handled.add(id(k_))
                            out.append(_Site("rbufsize", v_, n, m, func, cls, "namespace entry", False))
                elif isinstance(n, ast.keyword) and n.arg == "rbufsize":
                    out.append(_Site("rbufsize", n.value, n, m, func, cls, "keyword", False))
                elif isinstance(n, ast.Constant) and n.value == "rbufsize" and id(n) not in handled:
                    raise AnalysisError(f"{m.relpath}:{n.lineno}: the name 'rbufsize' is used as a string in a way this rule cannot follow")
        return out

    # -- the rule ------------------------------------------------------------
    def run(self) -> None:
        from ..cfg import cfg_of
        from ..loader import FuncInfo
        from .. import astq

        ctx, rule = self.ctx, self.rule
        fam, std = self.family()
        known_std = [b for b in std if b in STREAM_HANDLER_BASES]
        if not known_std:
            raise AnalysisError(f"{self.handler.fq}: no stdlib stream request handler among its bases {std} (where rfile comes from is not known)")
        ctx.floor(rule, "classes of the package in the request handler's hierarchy", len(fam), 1)
        fam_nodes = {id(k.node): k for k in fam}
        sites = self.sites(fam_nodes)

        def where_of(s: _Site) -> t.Any:
            ci = next((c for c in s.module.classes.values() if c.node is s.cls), None) if s.cls is not None else None
            if s.func is not None:
                qn = f"{ci.qualname}.{s.func.name}" if ci is not None else s.func.name  # type: ignore[attr-defined]
                return FuncInfo(s.module, s.func, qn, ci)
            return ci.fq if ci is not None else s.module.name

        def class_env(s: _Site) -> dict[str, t.Any]:
            env: dict[str, t.Any] = {}
            if s.how != "class attribute" or s.cls is None:
                return env
            for st in _class_body(s.cls):
                if st is s.stmt:
                    break
                if isinstance(st, ast.Assign) and len(st.targets) == 1 and isinstance(st.targets[0], ast.Name):
                    try:
                        vs = self.values(s.module, st.value, dict(env), None)
                    except AnalysisError:
                        env.pop(st.targets[0].id, None)
                        continue
                    if len(vs) == 1:
                        env[st.targets[0].id] = vs[0]
            return env

        def text(s: _Site) -> str:
            return norm(s.stmt) if not isinstance(s.stmt, ast.Dict) else "{..., 'rbufsize': " + (norm(s.value) if s.value is not None else "?") + "}"

        # (a) buffering requested from setup(): every binding of `rbufsize`
        per_class: dict[int, list[str]] = {id(k.node): [] for k in fam}
        per_class_ok: dict[int, bool] = {id(k.node): True for k in fam}
        n_other = 0
        for s in sites:
            if s.attr != "rbufsize":
                continue
            if s.value is None:
                raise AnalysisError(f"{s.module.relpath}:{getattr(s.stmt, 'lineno', '?')}: `{text(s)}` binds rbufsize in a way that is not a plain assignment")
            vs = self.values(s.module, s.value, class_env(s), s.func)
            bad = [v for v in vs if self.zero(v)]
            odd = [v for v in vs if v is not None and not isinstance(v, (int, float))]
            if odd:
                raise AnalysisError(f"`{text(s)}`: {odd[0]!r} is not a buffer size")
            fact = f"{s.how} `{text(s)}` gives {vs}" + ("; 0 makes setup() create rfile as the unbuffered socket.SocketIO, whose read(n) returns what one recv() yields: the de-chunker reports a valid chunk that spans two segments as truncated, and a Content-Length body comes back short" if bad else " (non-zero: makefile returns an io.BufferedReader)")
            if s.how == "class attribute" and s.cls is not None and id(s.cls) in per_class:
                per_class[id(s.cls)].append(fact)
                per_class_ok[id(s.cls)] = per_class_ok[id(s.cls)] and not bad
            else:
                n_other += 1
                ctx.ob(rule, "a buffer size bound to `rbufsize` outside the class bodies is not 0 either", not bad, fact, where_of(s), s.stmt, f"rbufsize {s.how} {text(s)}")
        for k in fam:
            ctx.ob(rule, f"{k.name} does not ask StreamRequestHandler.setup() for an unbuffered rfile (rbufsize is not 0)", per_class_ok[id(k.node)],
                   "; ".join(per_class[id(k.node)]) or f"{k.name} does not bind rbufsize (inherited; the stdlib default is -1 = buffered)", k.fq, None, f"rbufsize of {k.name}")

        # (b) rfile is what setup() made: every rebinding
        n_rfile = 0
        for s in sites:
            if s.attr != "rfile":
                continue
            n_rfile += 1
            if s.value is None:
                raise AnalysisError(f"{s.module.relpath}:{getattr(s.stmt, 'lineno', '?')}: `{text(s)}` rebinds rfile in a way that is not a plain assignment")
            kind, why = self.stream_kind(s.module, s.value, s.func)
            if kind is None:
                raise AnalysisError(f"{s.module.relpath}:{getattr(s.stmt, 'lineno', '?')}: rfile is rebound by `{text(s)}`: {why}")
            ctx.ob(rule, "a stream bound to `rfile` is a buffered reader", kind == "buffered", f"{s.how} {why}", where_of(s), s.stmt, f"rfile {s.how} {text(s)}")
        ctx.ob(rule, "the request stream read by the handler, the application and the de-chunker is the one setup() created, or a buffered reader", True,
               f"{n_rfile} rebinding(s) of `rfile` in the package, each classified above; {n_other} binding(s) of `rbufsize` outside class bodies" if n_rfile or n_other else "`rfile` is rebound nowhere in the package and `rbufsize` is bound nowhere outside class bodies", self.handler.fq, None, "rfile and rbufsize bindings enumerated")

        # (c) setup overrides still run the stdlib setup (or bind rfile themselves)
        for k in fam:
            fi = k.methods.get("setup")
            if fi is None:
                continue
            cfg = cfg_of(fi)
            through = []
            for n in cfg.nodes:
                if n.ast is None or n.kind not in ("stmt", "test"):
                    continue
                for x in ast.walk(n.ast):
                    if isinstance(x, ast.Call) and isinstance(x.func, ast.Attribute) and x.func.attr == "setup":
                        recv = x.func.value
                        via_super = isinstance(recv, ast.Call) and dotted(recv.func) == "super"
                        fq = self.repo.resolve(k.module, dotted(recv) or "", None) if dotted(recv) else None
                        if via_super or fq in STREAM_HANDLER_BASES or any(fq == c.fq for c in fam):
                            through.append(n)
                    if isinstance(x, ast.Attribute) and x.attr == "rfile" and isinstance(x.ctx, ast.Store):
                        through.append(n)
            ok = bool(through) and cfg.all_paths_pass(cfg.entry, [cfg.exit], through)
            if not ok:
                raise AnalysisError(f"{fi.qualname}: a path through the setup() override neither runs the inherited setup() nor binds rfile (where the request stream comes from is not known)")
            ctx.ob(rule, "a setup() override runs the inherited setup() (or binds rfile itself) on every path", ok, f"{len(through)} such statement(s), on every path to the normal exit", fi, fi.node, f"setup override of {k.name}")

        # (d) the socket under the reader stays blocking
        for k in fam:
            facts, okk = [], True
            for s in sites:
                if s.attr == "timeout" and s.cls is k.node:
                    if s.value is None:
                        raise AnalysisError(f"{s.module.relpath}:{getattr(s.stmt, 'lineno', '?')}: `{text(s)}` binds timeout in a way that is not a plain assignment")
                    vs = self.values(s.module, s.value, class_env(s), s.func)
                    bad = [v for v in vs if self.zero(v)]
                    okk = okk and not bad
                    facts.append(f"{s.how} `{text(s)}` gives {vs}" + ("; setup() passes it to settimeout(): 0 puts the connection in non-blocking mode, where a buffered read returns the bytes that happen to be there" if bad else ""))
            for nm, fi in k.methods.items():
                for c in astq.calls(fi.node):
                    if not (isinstance(c.func, ast.Attribute) and c.func.attr in ("setblocking", "settimeout") and len(c.args) + len(c.keywords) == 1):
                        continue
                    arg = c.args[0] if c.args else c.keywords[0].value
                    if is_self_attr(arg, "timeout"):
                        continue  # what setup() itself does; the attribute is decided above
                    vs = self.values(k.module, arg, {}, fi.node)
                    bad = [v for v in vs if (self.zero(v) if c.func.attr == "settimeout" else (not v))]
                    okk = okk and not bad
                    facts.append(f"`{norm(c)}` in {nm} with {vs}" + ("; the connection becomes non-blocking" if bad else ""))
            ctx.ob(rule, f"{k.name} leaves the connection blocking (timeout is not 0, no setblocking(False) / settimeout(0))", okk,
                   "; ".join(facts) or f"{k.name} neither binds timeout nor calls setblocking / settimeout (the stdlib default is timeout = None)", k.fq, None, f"blocking connection of {k.name}")
