"""helpers for C19 (static only; nothing of werkzeug is imported or executed).

* ``ev``            - total evaluator for an expression built from constants and ONE variable (guard atoms)
* ``Lin`` / ``prove_nonneg`` - linear forms over opaque atoms and a bounded inequality prover
* ``paths``         - edge-once path enumeration on a CFG (0 and 1 loop iterations)
* ``LoopSym``       - symbolic execution of one path through the de-chunker's copy loop
* ``wire_val``      - symbolic value of a bytes expression in the response writer as a token list
* ``typestate``     - product reachability (CFG node x small abstract state) with witness paths
"""

from __future__ import annotations

import ast
import re
import typing as t

from ..cfg import CFG, Node
from ..loader import AnalysisError, dotted, is_self_attr, norm


# ---------------------------------------------------------------------
# guard-atom evaluator


class Unknown(Exception):
    pass


Binder = t.Callable[[ast.AST], t.Tuple[bool, t.Any]]


def mentions(node: ast.AST, is_var: t.Callable[[ast.AST], bool]) -> bool:
    return any(is_var(n) for n in ast.walk(node))


def ev(node: ast.AST, bind: Binder) -> t.Any:
    """value of ``node`` where ``bind(n) -> (True, value)`` marks the variable; raises Unknown for anything else that is
    not a constant expression of the small total subset below."""
    hit, val = bind(node)
    if hit:
        return val
    if isinstance(node, ast.Constant):
        return node.value
    if isinstance(node, (ast.Tuple, ast.List)):
        return tuple(ev(e, bind) for e in node.elts)
    if isinstance(node, ast.Set):
        return frozenset(ev(e, bind) for e in node.elts)
    if isinstance(node, ast.UnaryOp):
        v = ev(node.operand, bind)
        if isinstance(node.op, ast.Not):
            return not v
        if isinstance(node.op, ast.USub) and isinstance(v, int):
            return -v
        raise Unknown(norm(node))
    if isinstance(node, ast.BoolOp):
        val: t.Any = None  # python's value semantics, short-circuit included
        for v in node.values:
            val = ev(v, bind)
            if bool(val) != isinstance(node.op, ast.And):
                return val
        return val
    if isinstance(node, ast.BinOp):
        a, b = ev(node.left, bind), ev(node.right, bind)
        try:
            if isinstance(node.op, ast.FloorDiv):
                return a // b
            if isinstance(node.op, ast.Mod) and isinstance(a, int):
                return a % b
            if isinstance(node.op, ast.Add):
                return a + b
            if isinstance(node.op, ast.Sub):
                return a - b
            if isinstance(node.op, ast.Mult):
                return a * b
        except Exception:
            raise Unknown(norm(node))
        raise Unknown(norm(node))
    if isinstance(node, ast.Compare):
        left = ev(node.left, bind)
        for op, rhs in zip(node.ops, node.comparators):
            right = ev(rhs, bind)
            try:
                if isinstance(op, ast.Eq):
                    r = left == right
                elif isinstance(op, ast.NotEq):
                    r = left != right
                elif isinstance(op, ast.Lt):
                    r = left < right
                elif isinstance(op, ast.LtE):
                    r = left <= right
                elif isinstance(op, ast.Gt):
                    r = left > right
                elif isinstance(op, ast.GtE):
                    r = left >= right
                elif isinstance(op, ast.In):
                    r = left in right
                elif isinstance(op, ast.NotIn):
                    r = left not in right
                elif isinstance(op, ast.Is):
                    r = left is right
                elif isinstance(op, ast.IsNot):
                    r = left is not right
                else:
                    raise Unknown(norm(node))
            except TypeError:
                raise Unknown(norm(node))
            if not r:
                return False
            left = right
        return True
    if isinstance(node, ast.IfExp):
        return ev(node.body, bind) if ev(node.test, bind) else ev(node.orelse, bind)
    if isinstance(node, ast.JoinedStr):
        out = ""
        for v in node.values:
            if isinstance(v, ast.Constant):
                out += str(v.value)
            elif isinstance(v, ast.FormattedValue) and v.format_spec is None and v.conversion in (-1, None):
                x = ev(v.value, bind)
                if not isinstance(x, str):
                    raise Unknown(norm(node))
                out += x
            else:
                raise Unknown(norm(node))
        return out
    if isinstance(node, ast.Call):
        d = dotted(node.func)
        if d in ("bool", "str") and len(node.args) == 1 and not node.keywords:
            v = ev(node.args[0], bind)
            if d == "bool":
                return bool(v)
            if isinstance(v, str):
                return v
            raise Unknown(norm(node))
        if isinstance(node.func, ast.Attribute) and node.func.attr == "join" and len(node.args) == 1 and not node.keywords:
            sep = ev(node.func.value, bind)
            parts = ev(node.args[0], bind)  # a list / tuple display, or a local holding one
            if isinstance(sep, str) and isinstance(parts, tuple) and all(isinstance(x, str) for x in parts):
                return sep.join(parts)
            raise Unknown(norm(node))
        if isinstance(node.func, ast.Attribute) and node.func.attr in ("startswith", "endswith", "removeprefix", "removesuffix", "lstrip", "rstrip") and len(node.args) == 1 and not node.keywords:
            v, a = ev(node.func.value, bind), ev(node.args[0], bind)
            if isinstance(v, (str, bytes)) and type(a) is type(v):
                return getattr(v, node.func.attr)(a)
            raise Unknown(norm(node))
        if d == "range" and not node.keywords and 1 <= len(node.args) <= 3:
            args = [ev(a, bind) for a in node.args]
            if all(isinstance(a, int) for a in args):
                return range(*args)
        if d == "len" and len(node.args) == 1 and not node.keywords:
            v = ev(node.args[0], bind)
            if isinstance(v, (bytes, str, tuple, frozenset)):
                return len(v)
        if d in ("set", "frozenset", "tuple", "list") and len(node.args) == 1:
            return ev(node.args[0], bind)
        if isinstance(node.func, ast.Attribute) and not node.args and not node.keywords and node.func.attr in ("upper", "lower", "strip", "casefold"):
            v = ev(node.func.value, bind)
            if isinstance(v, (str, bytes)):
                return getattr(v, node.func.attr)()
    raise Unknown(norm(node))


def admitted(guards: list[tuple[Node, str]], is_var: t.Callable[[ast.AST], bool], domain: t.Iterable[t.Any], fold: t.Callable[[ast.AST], t.Any] | None = None) -> tuple[list[t.Any], list[tuple[Node, str]]]:
    """values of the variable for which every dominating guard atom that mentions it evaluates to the edge taken.
    Returns (admitted values, the atoms used).  An atom that mentions the variable but cannot be evaluated makes the
    question undecidable -> AnalysisError."""
    atoms = [(n, l) for n, l in guards if n.kind == "test" and n.ast is not None and mentions(n.ast, is_var)]
    out = []
    for v in domain:
        ok = True
        for n, l in atoms:
            def bind(x: ast.AST, v: t.Any = v) -> tuple[bool, t.Any]:
                if is_var(x):
                    return True, v
                if fold is not None and isinstance(x, (ast.Name, ast.Attribute)):  # a module-level constant
                    try:
                        return True, fold(x)
                    except Exception:
                        return False, None
                return False, None

            try:
                r = bool(ev(n.ast, bind))
            except Unknown as e:
                raise AnalysisError(f"guard atom `{norm(n.ast)}` is outside the evaluable subset ({e})")
            if r != (l == "T"):
                ok = False
                break
        if ok:
            out.append(v)
    return out, atoms


# ---------------------------------------------------------------------
# linear forms


class Lin:
    """c + sum(coef * atom); atoms are strings."""

    __slots__ = ("c", "t")

    def __init__(self, c: int = 0, terms: dict[str, int] | None = None):
        self.c = c
        self.t = {k: v for k, v in (terms or {}).items() if v}

    @staticmethod
    def atom(name: str) -> "Lin":
        return Lin(0, {name: 1})

    def __add__(self, o: "Lin") -> "Lin":
        d = dict(self.t)
        for k, v in o.t.items():
            d[k] = d.get(k, 0) + v
        return Lin(self.c + o.c, d)

    def __sub__(self, o: "Lin") -> "Lin":
        return self + o.scale(-1)

    def scale(self, k: int) -> "Lin":
        return Lin(self.c * k, {a: v * k for a, v in self.t.items()})

    def key(self) -> tuple:
        return (self.c, tuple(sorted(self.t.items())))

    def __eq__(self, o: object) -> bool:
        return isinstance(o, Lin) and self.key() == o.key()

    def __hash__(self) -> int:
        return hash(self.key())

    def is_zero(self) -> bool:
        return not self.t and self.c == 0

    def __str__(self) -> str:
        parts = []
        for a, v in sorted(self.t.items()):
            if v == 1:
                parts.append(f"+ {a}")
            elif v == -1:
                parts.append(f"- {a}")
            else:
                parts.append(f"{'+' if v > 0 else '-'} {abs(v)}*{a}")
        if self.c or not parts:
            parts.append(f"{'+' if self.c >= 0 else '-'} {abs(self.c)}")
        s = " ".join(parts)
        return s[2:] if s.startswith("+ ") else s

    __repr__ = __str__


def prove_nonneg(goal: Lin, facts: t.Sequence[Lin], depth: int = 4) -> bool:
    """goal >= 0 follows from facts (each a form known to be >= 0 over the integers) by adding at most ``depth`` of
    them.  Sound (never proves a false inequality), incomplete."""
    if not goal.t:
        return goal.c >= 0
    if depth == 0:
        return False
    for f in facts:
        if any(goal.t.get(a, 0) * v > 0 for a, v in f.t.items()):
            if prove_nonneg(goal - f, facts, depth - 1):
                return True
    return False


# ---------------------------------------------------------------------
# paths

Path = t.List[t.Tuple[Node, t.Optional[str]]]


def paths(cfg: CFG, start: Node, stops: t.Iterable[Node], limit: int = 20000, follow_exc: bool = True) -> list[Path]:
    """all paths from ``start`` that use every CFG edge at most once and end at the first stop node met after at least
    one step (a loop is therefore taken zero times and once).  AnalysisError when more than ``limit`` paths exist."""
    stop_ids = {n.id for n in stops}
    out: list[Path] = []
    stack: list[tuple[Node, Path, frozenset]] = [(start, [], frozenset())]
    while stack:
        n, p, used = stack.pop()
        if p and n.id in stop_ids:
            out.append(p + [(n, None)])
            if len(out) > limit:
                raise AnalysisError(f"more than {limit} paths")
            continue
        for i, (s, l) in enumerate(n.succs):
            e = (n.id, i)
            if e in used or (l == "exc" and not follow_exc):
                continue
            stack.append((s, p + [(n, l)], used | {e}))
    return out


def fmt_path(p: Path, maxn: int = 14) -> str:
    items = [f"L{n.lineno}:{n.text()[:44]}" + (f"[{l}]" if l in ("T", "F", "exc") else "") for n, l in p if n.ast is not None]
    if len(items) > maxn:
        items = items[: maxn // 2] + ["..."] + items[-maxn // 2 :]
    return " -> ".join(items)


# ---------------------------------------------------------------------
# symbolic execution of the de-chunker's copy loop


class Opaque:
    """a non-arithmetic local value (bytes returned by the underlying stream)."""

    _n = 0

    def __init__(self, requested: Lin | None, what: str):
        Opaque._n += 1
        self.id = f"bytes#{Opaque._n}"
        self.requested = requested
        self.what = what
        self.res_at: Lin | None = None  # residual chunk length when the bytes were requested


class NotArith(Exception):
    pass


class StoreRec(t.NamedTuple):
    stmt: ast.AST
    lo: Lin
    hi: Lin
    width: Lin
    requested: Lin | None  # size asked from the underlying stream for the stored bytes (None: source is not an underlying read)
    src_len: Lin | None  # symbolic length of the source when it is a local bytes value
    direct: bool  # the underlying read call is the right-hand side itself
    read_at: Lin  # value of the fill counter when the store executes
    res_at: Lin  # residual chunk length when the bytes were requested
    facts: tuple  # forms >= 0 known at that point


class PathResult:
    def __init__(self) -> None:
        self.stores: list[StoreRec] = []
        self.reads: list[tuple[Lin, ast.AST, Lin, tuple]] = []  # (requested, call, residual at that time, facts)
        self.res_start: Lin | None = None
        self.res_end: Lin | None = None
        self.res_base: Lin | None = None
        self.copied_since_base = Lin()
        self.requested_since_base = Lin()
        self.copied_total = Lin()
        self.read_delta = Lin()
        self.end = ""
        self.other_res_writes: list[ast.AST] = []


class LoopSym:
    def __init__(self, bufname: str, counter: "str | ast.AST", residual: str, under: str, lenreader: str):
        # counter: the expression readinto returns - a local (`read`) or arithmetic over locals (`size - free`)
        self.counter_expr: ast.AST = ast.Name(id=counter, ctx=ast.Load()) if isinstance(counter, str) else counter
        self.counter = norm(self.counter_expr)
        self.buf, self.residual, self.under, self.lenreader = bufname, residual, under, lenreader
        self.entry_env: dict[str, Lin] = {}  # locals at the first arrival at the loop head (bound once outside the loop, rebound only inside)
        self._uniq = 0
        self.bufs: set[str] = {bufname}  # the buffer parameter and locals that are views of it (same length, same storage)
        self.pre_env: dict[str, Lin] = {}  # loop-invariant locals bound once before the loop (`size = len(buf)`)
        self.pre_facts: list[Lin] = []

    # -- what holds at the loop head on every iteration ---------------------
    def seed_invariants(self, fn: ast.AST, loop: ast.AST, cfg: CFG, head: Node) -> None:
        """locals that are bound exactly once in the function, by a statement outside the loop that dominates the loop
        head, to an arithmetic expression over len(<buffer>), integer constants and other such locals (`size = len(buf)`,
        `limit = size - 1`), or to the buffer itself / a memoryview of it (`view = memoryview(buf)`).  Their value is the
        same at every evaluation inside the loop, so the path evaluation may start from it."""
        stores: dict[str, int] = {}
        for n in ast.walk(fn):
            if isinstance(n, ast.Name) and isinstance(n.ctx, (ast.Store, ast.Del)):
                stores[n.id] = stores.get(n.id, 0) + 1
            elif isinstance(n, (ast.Global, ast.Nonlocal)):
                return
        if stores.get(self.buf):
            return  # the buffer parameter is rebound: nothing is invariant
        in_loop = {id(x) for x in ast.walk(loop)}
        cands = []
        for n in ast.walk(fn):
            tg = n.targets[0] if isinstance(n, ast.Assign) and len(n.targets) == 1 else n.target if isinstance(n, ast.AnnAssign) else None
            if isinstance(tg, ast.Name) and getattr(n, "value", None) is not None and stores.get(tg.id) == 1 and id(n) not in in_loop:
                nd = cfg.node_of(n)
                if nd is not None and cfg.node_dominates(nd, head):
                    cands.append((getattr(n, "lineno", 0), tg.id, n.value))
        st: dict[str, t.Any] = {"env": self.pre_env, "facts": self.pre_facts, "res": None}

        def inv(e: ast.AST) -> bool:
            if isinstance(e, ast.Constant):
                return isinstance(e.value, int) and not isinstance(e.value, bool)
            if isinstance(e, ast.Name):
                return e.id in self.pre_env
            if isinstance(e, ast.UnaryOp) and isinstance(e.op, (ast.USub, ast.UAdd)):
                return inv(e.operand)
            if isinstance(e, ast.BinOp) and isinstance(e.op, (ast.Add, ast.Sub, ast.Mult)):
                return inv(e.left) and inv(e.right)
            if isinstance(e, ast.Call) and not e.keywords:
                d = dotted(e.func)
                if d == "len" and len(e.args) == 1:
                    return isinstance(e.args[0], ast.Name) and e.args[0].id in self.bufs
                if d in ("min", "max") and len(e.args) >= 2:
                    return all(inv(a) for a in e.args)
            return False

        # first-entry values: a local rebound inside the loop only, bound once outside it before the loop
        outside: dict[str, list[tuple[ast.AST, ast.AST | None]]] = {}
        for n in ast.walk(fn):
            if id(n) in in_loop:
                continue
            pairs: list[tuple[ast.AST, ast.AST | None]] = []
            if isinstance(n, ast.Assign):
                for tg in n.targets:
                    if isinstance(tg, ast.Name):
                        pairs.append((tg, n.value))
                    elif isinstance(tg, (ast.Tuple, ast.List)):
                        same = isinstance(n.value, (ast.Tuple, ast.List)) and len(n.value.elts) == len(tg.elts)
                        pairs += [(e, (n.value.elts[i] if same else None)) for i, e in enumerate(tg.elts) if isinstance(e, ast.Name)]
            elif isinstance(n, ast.AnnAssign) and isinstance(n.target, ast.Name) and n.value is not None:
                pairs.append((n.target, n.value))
            elif isinstance(n, (ast.AugAssign, ast.NamedExpr)) and isinstance(n.target, ast.Name):
                pairs.append((n.target, None))
            for tg, v in pairs:
                nd = cfg.node_of(n)
                outside.setdefault(tg.id, []).append((n, v if nd is not None and cfg.node_dominates(nd, head) else None))  # type: ignore[attr-defined]
        for _, name, value in sorted(cands, key=lambda c: c[0]):
            if isinstance(value, ast.Name) and value.id in self.bufs:
                self.bufs.add(name)
            elif isinstance(value, ast.Call) and dotted(value.func) == "memoryview" and len(value.args) == 1 and not value.keywords and isinstance(value.args[0], ast.Name) and value.args[0].id in self.bufs:
                self.bufs.add(name)
            elif inv(value):
                v = self.lin(value, st)
                if self._known(v):
                    self.pre_env[name] = v
        for name, defs in sorted(outside.items(), key=lambda kv: min(getattr(d[0], "lineno", 0) for d in kv[1])):
            if name in self.pre_env or len(defs) != 1 or defs[0][1] is None:
                continue
            value = defs[0][1]
            if inv(value):
                v = self.lin(value, st)
                if self._known(v):
                    self.entry_env[name] = v

    # -- recognisers ---------------------------------------------------
    def is_res(self, n: ast.AST) -> bool:
        return is_self_attr(n, self.residual)

    def under_call(self, n: ast.AST, meth: str | None = None) -> bool:
        return (
            isinstance(n, ast.Call)
            and isinstance(n.func, ast.Attribute)
            and is_self_attr(n.func.value, self.under)
            and (meth is None or n.func.attr == meth)
        )

    def is_header_read(self, n: ast.AST) -> bool:
        return isinstance(n, ast.Call) and isinstance(n.func, ast.Attribute) and is_self_attr(n.func, self.lenreader) and not n.args

    def _fresh(self, what: str) -> Lin:
        self._uniq += 1
        return Lin.atom(f"{what}#{self._uniq}")

    # -- expression -> linear form ------------------------------------------
    def lin(self, e: ast.AST, st: dict[str, t.Any]) -> Lin:
        env, facts = st["env"], st["facts"]
        if isinstance(e, ast.Constant) and isinstance(e.value, int) and not isinstance(e.value, bool):
            return Lin(e.value)
        if isinstance(e, ast.NamedExpr):  # bound by _bind_walrus before the enclosing node is evaluated
            return self.lin(e.target, st)
        if isinstance(e, ast.Name):
            v = env.get(e.id)
            if isinstance(v, Opaque):
                raise NotArith(e.id)
            return v if v is not None else Lin.atom(e.id)
        if self.is_res(e):
            return st["res"]
        if isinstance(e, ast.UnaryOp) and isinstance(e.op, ast.USub):
            return self.lin(e.operand, st).scale(-1)
        if isinstance(e, ast.UnaryOp) and isinstance(e.op, ast.UAdd):
            return self.lin(e.operand, st)
        if isinstance(e, ast.BinOp):
            if isinstance(e.op, ast.Add):
                return self.lin(e.left, st) + self.lin(e.right, st)
            if isinstance(e.op, ast.Sub):
                return self.lin(e.left, st) - self.lin(e.right, st)
            if isinstance(e.op, ast.Mult):
                a, b = self.lin(e.left, st), self.lin(e.right, st)
                if not a.t:
                    return b.scale(a.c)
                if not b.t:
                    return a.scale(b.c)
            return self._fresh("opaque")
        if isinstance(e, ast.IfExp):
            # `a if a < b else b` and its respellings are min(a, b) / max(a, b); any other conditional: a value
            # known only to be one of its arms (m with no facts would prove nothing, so give what both arms satisfy)
            mm = self._minmax_of_ifexp(e, st)
            if mm is not None:
                return mm
            return self._fresh("opaque")
        if isinstance(e, ast.Call):
            d = dotted(e.func)
            if d == "len" and len(e.args) == 1 and not e.keywords:
                a = e.args[0]
                if isinstance(a, ast.NamedExpr):
                    a = a.target
                if isinstance(a, ast.Name) and a.id in self.bufs:
                    return Lin.atom(f"len({self.buf})")
                if isinstance(a, ast.Name) and isinstance(env.get(a.id), Opaque):
                    return Lin.atom(f"len({env[a.id].id})")
                return self._fresh("opaque")
            if d in ("min", "max") and e.args and not e.keywords and not any(isinstance(a, ast.Starred) for a in e.args):
                args = list(e.args)
                if len(args) == 1 and isinstance(args[0], (ast.Tuple, ast.List)) and args[0].elts:
                    args = list(args[0].elts)  # min((a, b)) / min([a, b])
                elif len(args) == 1:
                    return self._fresh("opaque")
                return self._minmax(d, [self.lin(a, st) for a in args], facts)
            if self.under_call(e) or self.is_header_read(e):
                raise NotArith(norm(e))
            return self._fresh("opaque")
        if isinstance(e, (ast.Subscript, ast.Attribute, ast.JoinedStr, ast.Dict, ast.List, ast.Tuple)) or (isinstance(e, ast.Constant) and not isinstance(e.value, int)):
            raise NotArith(norm(e))
        return self._fresh("opaque")

    def _minmax(self, d: str, args: list[Lin], facts: list[Lin]) -> Lin:
        uniq: list[Lin] = []
        for a in args:
            if a not in uniq:
                uniq.append(a)
        if len(uniq) == 1:
            return uniq[0]
        m = Lin.atom(f"{d}(" + ", ".join(sorted(str(a) for a in uniq)) + ")")
        for a in uniq:
            facts.append(a - m if d == "min" else m - a)
        return m

    def _minmax_of_ifexp(self, e: ast.IfExp, st: dict[str, t.Any]) -> Lin | None:
        tst = e.test
        neg = False
        while isinstance(tst, ast.UnaryOp) and isinstance(tst.op, ast.Not):
            tst, neg = tst.operand, not neg
        if not (isinstance(tst, ast.Compare) and len(tst.ops) == 1 and isinstance(tst.ops[0], (ast.Lt, ast.LtE, ast.Gt, ast.GtE))):
            return None
        try:
            x, y = self.lin(tst.left, st), self.lin(tst.comparators[0], st)
            a, b = self.lin(e.body, st), self.lin(e.orelse, st)
        except NotArith:
            return None
        less = isinstance(tst.ops[0], (ast.Lt, ast.LtE)) != neg  # the test means x <(=) y
        if (a, b) == (x, y):
            d = "min" if less else "max"  # x if x < y else y
        elif (a, b) == (y, x):
            d = "max" if less else "min"  # y if x < y else x
        else:
            return None
        return self._minmax(d, [x, y], st["facts"])

    def _cmp_facts(self, atom: ast.AST, label: str | None, st: dict[str, t.Any]) -> None:
        if not (isinstance(atom, ast.Compare) and len(atom.ops) == 1 and label in ("T", "F")):
            return
        try:
            a, b = self.lin(atom.left, st), self.lin(atom.comparators[0], st)
        except NotArith:
            return
        op = atom.ops[0]
        T = label == "T"
        one = Lin(1)
        f = st["facts"]
        if isinstance(op, ast.Lt):
            f.append(b - a - one if T else a - b)
        elif isinstance(op, ast.LtE):
            f.append(b - a if T else a - b - one)
        elif isinstance(op, ast.Gt):
            f.append(a - b - one if T else b - a)
        elif isinstance(op, ast.GtE):
            f.append(a - b if T else b - a - one)
        elif (isinstance(op, ast.Eq) and T) or (isinstance(op, ast.NotEq) and not T):
            f.append(a - b)
            f.append(b - a)

    # -- one path ----------------------------------------------------------
    def run(self, path: Path, cfg: CFG) -> PathResult:
        res0 = Lin.atom("residual@start")
        st: dict[str, t.Any] = {"env": dict(self.pre_env), "facts": [res0] + list(self.pre_facts), "res": res0}
        r = PathResult()
        r.res_start = res0
        r.res_base = res0
        counter0 = self.pos(st)
        last = path[-1][0]
        r.end = "exit" if last is cfg.exit else "raise" if last is cfg.raise_exit else "head"
        for node, label in path[:-1]:
            a = node.ast
            if a is None or node.kind in ("join",):
                continue
            self._bind_walrus(a, st, r)
            if node.kind == "test":
                self._note_reads(a, st, r)
                self._cmp_facts(a, label, st)
                continue
            if isinstance(a, (ast.Assign, ast.AnnAssign)):
                if a.value is None:
                    continue
                targets = a.targets if isinstance(a, ast.Assign) else [a.target]
                # python's order: the right-hand side first, then the targets left to right
                for tg in targets:
                    if isinstance(tg, (ast.Tuple, ast.List)) and isinstance(a.value, (ast.Tuple, ast.List)) and len(tg.elts) == len(a.value.elts) and not any(isinstance(x, ast.Starred) for x in list(tg.elts) + list(a.value.elts)):
                        vals = [(v, self._eval(v, st, r)) for v in a.value.elts]
                        for sub, (vast, val) in zip(tg.elts, vals):
                            self._assign(a, sub, vast, val, st, r, counter0)
                    elif isinstance(tg, (ast.Tuple, ast.List)):
                        self._note_reads(a.value, st, r)
                        for sub in ast.walk(tg):
                            if isinstance(sub, ast.Name) and isinstance(sub.ctx, ast.Store):
                                st["env"][sub.id] = Opaque(None, norm(a.value))
                            elif self.is_res(sub) or (isinstance(sub, ast.Subscript) and isinstance(sub.value, ast.Name) and sub.value.id in self.bufs):
                                raise AnalysisError(f"readinto: `{norm(a)}` unpacks into the chunk state / the buffer (not modelled)")
                    else:
                        self._assign(a, tg, a.value, self._eval(a.value, st, r), st, r, counter0)
            elif isinstance(a, ast.AugAssign):
                tg = a.target
                self._note_reads(a.value, st, r)
                d = self._lin_or_fresh(a.value, st)
                if isinstance(tg, ast.Name):
                    cur = st["env"].get(tg.id)
                    if isinstance(cur, Opaque):
                        continue
                    cur = cur if cur is not None else Lin.atom(tg.id)
                    if isinstance(a.op, ast.Add):
                        st["env"][tg.id] = cur + d
                    elif isinstance(a.op, ast.Sub):
                        st["env"][tg.id] = cur - d
                    else:
                        st["env"][tg.id] = self._fresh("opaque")
                elif self.is_res(tg):
                    if isinstance(a.op, ast.Sub):
                        st["res"] = st["res"] - d
                    elif isinstance(a.op, ast.Add):
                        st["res"] = st["res"] + d
                    else:
                        st["res"] = self._fresh("opaque")
                elif isinstance(tg, ast.Subscript) and isinstance(tg.value, ast.Name) and tg.value.id in self.bufs:
                    raise AnalysisError(f"readinto: buffer updated in place by `{norm(a)}` (not a plain slice store)")
            else:
                self._note_reads(a, st, r)
        r.res_end = st["res"]
        r.read_delta = self.pos(st) - counter0
        return r

    def pos(self, st: dict[str, t.Any]) -> Lin:
        """value of the returned count in a state (a local that holds bytes makes it opaque)."""
        return self._lin_or_fresh(self.counter_expr, st)

    def pos0(self) -> Lin:
        """the returned count on arrival at the loop head, over the locals' values there."""
        return self.pos({"env": dict(self.pre_env), "facts": [], "res": Lin.atom("residual@start")})

    def pos_entry(self) -> Lin:
        """the returned count when the loop is entered for the first time."""
        return self.pos({"env": {**self.pre_env, **self.entry_env}, "facts": [], "res": Lin.atom("residual@start")})

    @staticmethod
    def _known(v: Lin) -> bool:
        return not any(a.startswith("opaque#") for a in v.t)

    def _eval(self, value: ast.AST, st: dict[str, t.Any], r: PathResult) -> t.Any:
        """value of a right-hand side: Lin (arithmetic), Opaque (bytes; .requested set when they are the result of
        read(k) on the underlying stream), or the marker "HEADER" (the chunk-size reader's result)."""
        if isinstance(value, ast.NamedExpr):
            return st["env"].get(value.target.id, Opaque(None, norm(value))) if isinstance(value.target, ast.Name) else Opaque(None, norm(value))
        if self.under_call(value, "read") and len(value.args) == 1 and not value.keywords:  # type: ignore[attr-defined]
            self._note_reads(value.args[0], st, r)  # type: ignore[attr-defined]
            k = self._lin_or_fresh(value.args[0], st)  # type: ignore[attr-defined]
            o = Opaque(k, norm(value))
            o.res_at = st["res"]
            st["facts"].append(Lin.atom(f"len({o.id})"))  # len >= 0
            st["facts"].append(k - Lin.atom(f"len({o.id})"))  # contract of read(k): at most k bytes
            self._read_event(k, value, st, r)
            return o
        if self.is_header_read(value):
            return "HEADER"
        if isinstance(value, ast.Name) and isinstance(st["env"].get(value.id), Opaque):
            return st["env"][value.id]
        if isinstance(value, ast.Call) and dotted(value.func) in ("bytes", "memoryview", "bytearray") and len(value.args) == 1 and not value.keywords:
            inner = self._eval(value.args[0], st, r)  # a copy / view of bytes: same content, same length
            if isinstance(inner, Opaque):
                return inner
            return Opaque(None, norm(value))
        self._note_reads(value, st, r)
        try:
            return self.lin(value, st)
        except NotArith:
            return Opaque(None, norm(value))

    def _assign(self, stmt: ast.AST, tg: ast.AST, vast: ast.AST, val: t.Any, st: dict[str, t.Any], r: PathResult, counter0: Lin) -> None:
        if isinstance(tg, ast.Name):
            if val == "HEADER":
                raise AnalysisError(f"readinto: the chunk size read is kept in a local by `{norm(stmt)}` (the header / terminator protocol is followed on the residual attribute only)")
            st["env"][tg.id] = val
        elif self.is_res(tg):
            if val == "HEADER":
                st["res"] = self._fresh("chunk-size")
                st["facts"].append(st["res"])  # the header reader returns >= 0 (checked separately)
                r.res_base = st["res"]
                r.copied_since_base = Lin()
                r.requested_since_base = Lin()
            elif isinstance(val, Lin) and self._known(val):
                st["res"] = val  # arithmetic update (`self._len = self._len - n`, `self._len = remaining`)
            else:
                r.other_res_writes.append(stmt)
                st["res"] = self._fresh("opaque")
                r.res_base = st["res"]
                r.copied_since_base = Lin()
                r.requested_since_base = Lin()
        elif isinstance(tg, ast.Subscript) and isinstance(tg.value, ast.Name) and tg.value.id in self.bufs:
            self._store(stmt, tg, vast, val, st, r, counter0)
        elif isinstance(tg, (ast.Tuple, ast.List, ast.Starred)):
            for sub in ast.walk(tg):
                if isinstance(sub, ast.Name) and isinstance(sub.ctx, ast.Store):
                    st["env"][sub.id] = Opaque(None, norm(vast))
                elif self.is_res(sub) or (isinstance(sub, ast.Subscript) and isinstance(sub.value, ast.Name) and sub.value.id in self.bufs):
                    raise AnalysisError(f"readinto: `{norm(stmt)}` unpacks into the chunk state / the buffer (not modelled)")

    def _lin_or_fresh(self, e: ast.AST, st: dict[str, t.Any]) -> Lin:
        try:
            return self.lin(e, st)
        except NotArith:
            return self._fresh("opaque")

    def _read_event(self, k: Lin, call: ast.AST, st: dict[str, t.Any], r: PathResult) -> None:
        r.reads.append((k, call, st["res"], tuple(st["facts"])))
        r.requested_since_base = r.requested_since_base + k
        st.setdefault("seen_reads", set()).add(id(call))

    def _note_reads(self, e: ast.AST, st: dict[str, t.Any], r: PathResult, consumed: bool = True) -> None:
        """underlying read(k) calls that are evaluated without their result being stored into the buffer or a local."""
        seen = st.setdefault("seen_reads", set())
        for c in ast.walk(e):
            if self.under_call(c, "read") and id(c) not in seen:
                k = self._lin_or_fresh(c.args[0], st) if len(c.args) == 1 else self._fresh("opaque")  # type: ignore[attr-defined]
                self._read_event(k, c, st, r)

    def _bind_walrus(self, a: ast.AST, st: dict[str, t.Any], r: PathResult) -> None:
        """`(name := value)` inside the node about to be evaluated: bound first (inner before outer)."""
        named = [x for x in ast.walk(a) if isinstance(x, ast.NamedExpr)]
        for x in reversed(named):
            if isinstance(x.target, ast.Name):
                val = self._eval(x.value, st, r)
                if val == "HEADER":
                    raise AnalysisError(f"readinto: the chunk size read is kept in a local by `{norm(x)}`")
                st["env"][x.target.id] = val

    def _store(self, stmt: ast.AST, tg: ast.Subscript, vast: ast.AST, val: t.Any, st: dict[str, t.Any], r: PathResult, counter0: Lin) -> None:
        sl = tg.slice
        read_at = self.pos(st)
        lb = Lin.atom(f"len({self.buf})")
        if not isinstance(sl, ast.Slice) or sl.step is not None:
            # single index store or strided store: not a bulk copy this analysis understands
            raise AnalysisError(f"readinto: buffer store `{norm(stmt)}` is not a plain slice store")
        lo = self._lin_or_fresh(sl.lower, st) if sl.lower is not None else Lin(0)
        hi = self._lin_or_fresh(sl.upper, st) if sl.upper is not None else lb
        requested = None
        src_len = None
        direct = self.under_call(vast, "read")
        res_at = st["res"]
        if isinstance(val, Opaque) and val.requested is not None:
            requested = val.requested
            res_at = val.res_at if val.res_at is not None else res_at
            if not direct:
                src_len = Lin.atom(f"len({val.id})")
        elif not isinstance(vast, ast.Constant):
            raise AnalysisError(f"readinto: the source of the buffer store `{norm(stmt)}` is not a value this analysis follows (expected the bytes returned by one read of the underlying stream)")
        w = hi - lo
        r.stores.append(StoreRec(stmt, lo, hi, w, requested, src_len, direct, read_at, res_at, tuple(st["facts"])))
        r.copied_since_base = r.copied_since_base + w
        r.copied_total = r.copied_total + w


# ---------------------------------------------------------------------
# wire tokens of the response writer

DATA = ("DATA",)
SIZE = ("SIZE",)  # lower/upper-case hex digits of len(DATA), no prefix
DEC = ("DEC",)  # decimal digits of len(DATA): never a valid chunk-size line
PFX = ("PFX",)  # "0x"-prefixed hex digits of len(DATA): never a valid chunk-size line

_PRINTF = re.compile(rb"%([-#0 +]*)(\d*)(?:\.(\d+))?([a-zA-Z%])")


def _is_len_of_data(e: ast.AST, env: dict[str, list]) -> bool:
    return isinstance(e, ast.Call) and dotted(e.func) == "len" and len(e.args) == 1 and not e.keywords and wire_val(e.args[0], env) == [DATA]


def _q(e: ast.AST) -> list:
    return [("?", norm(e))]


def wire_val(e: ast.AST, env: dict[str, list]) -> list:
    """symbolic value of a bytes/str expression: list of tokens DATA | SIZE | DEC | ("B", bytes) | ("?", text).
    str and bytes are not distinguished (``.encode()`` is the identity here: framing text is ASCII)."""
    if isinstance(e, ast.Constant):
        if isinstance(e.value, bytes):
            return [("B", e.value)] if e.value else []
        if isinstance(e.value, str):
            try:
                return [("B", e.value.encode("latin1"))] if e.value else []
            except UnicodeEncodeError:
                return _q(e)
        return _q(e)
    if isinstance(e, ast.Name):
        return list(env[e.id]) if e.id in env else _q(e)
    if isinstance(e, (ast.List, ast.Tuple)):
        # a sequence of byte strings: only ever joined with b"" / handed to writelines, so its concatenation is its value
        out_: list = []
        for x in e.elts:
            if isinstance(x, ast.Starred):
                return _q(e)
            out_ += unseq(wire_val(x, env))
        return [("SEQ", tuple(merge(out_)))]
    if isinstance(e, ast.BinOp) and isinstance(e.op, ast.Add):
        a, b = wire_val(e.left, env), wire_val(e.right, env)
        if is_seq(a) != is_seq(b):
            return _q(e)
        if is_seq(a):
            return [("SEQ", tuple(merge(unseq(a) + unseq(b))))]
        return merge(a + b)
    if isinstance(e, ast.BinOp) and isinstance(e.op, ast.Mod) and isinstance(e.left, ast.Constant) and isinstance(e.left.value, (bytes, str)):
        fmt = e.left.value if isinstance(e.left.value, bytes) else e.left.value.encode("latin1", "replace")
        args = list(e.right.elts) if isinstance(e.right, ast.Tuple) else [e.right]
        out: list = []
        pos = 0
        ai = 0
        for m in _PRINTF.finditer(fmt):
            if m.start() > pos:
                out.append(("B", fmt[pos : m.start()]))
            pos = m.end()
            conv = m.group(4)
            if conv == b"%":
                out.append(("B", b"%"))
                continue
            if ai >= len(args) or m.group(1) or m.group(2) or m.group(3):
                return _q(e)
            a = args[ai]
            ai += 1
            if conv in (b"x", b"X"):
                out += [SIZE] if _is_len_of_data(a, env) else _q(a)
            elif conv in (b"d", b"i", b"u"):
                out += [DEC] if _is_len_of_data(a, env) else _q(a)
            elif conv in (b"b", b"s"):
                out += wire_val(a, env)
            else:
                return _q(e)
        if pos < len(fmt):
            out.append(("B", fmt[pos:]))
        if ai != len(args):
            return _q(e)
        return merge(out)
    if isinstance(e, ast.JoinedStr):
        out = []
        for v in e.values:
            if isinstance(v, ast.Constant):
                out += wire_val(v, env)
            elif isinstance(v, ast.FormattedValue):
                spec = None
                if v.format_spec is not None:
                    if isinstance(v.format_spec, ast.JoinedStr) and all(isinstance(x, ast.Constant) for x in v.format_spec.values):
                        spec = "".join(str(x.value) for x in v.format_spec.values)  # type: ignore[attr-defined]
                    else:
                        return _q(e)
                if v.conversion not in (-1, None):
                    return _q(e)
                if _is_len_of_data(v.value, env):
                    if spec in ("x", "X"):
                        out.append(SIZE)
                    elif spec in (None, "", "d"):
                        out.append(DEC)
                    else:
                        return _q(e)
                else:
                    return _q(e)
        return merge(out)
    if isinstance(e, ast.Subscript):
        # hex(len(data))[2:]
        v = e.value
        if (
            isinstance(v, ast.Call) and dotted(v.func) == "hex" and len(v.args) == 1 and _is_len_of_data(v.args[0], env)
            and isinstance(e.slice, ast.Slice) and e.slice.upper is None and e.slice.step is None
            and isinstance(e.slice.lower, ast.Constant) and e.slice.lower.value == 2
        ):
            return [SIZE]
        return _q(e)
    if isinstance(e, ast.Call):
        f = e.func
        d = dotted(f)
        if isinstance(f, ast.Attribute) and f.attr in ("encode",) and all(isinstance(a, ast.Constant) for a in e.args):
            return wire_val(f.value, env)
        if isinstance(f, ast.Attribute) and f.attr == "join" and isinstance(f.value, ast.Constant) and f.value.value in (b"", "") and len(e.args) == 1 and not e.keywords:
            seq = wire_val(e.args[0], env)
            return unseq(seq) if is_seq(seq) else _q(e)
        if d == "format" and len(e.args) == 2 and isinstance(e.args[1], ast.Constant) and _is_len_of_data(e.args[0], env):
            if e.args[1].value in ("x", "X"):
                return [SIZE]
            if e.args[1].value in ("", "d"):
                return [DEC]
        if d == "str" and len(e.args) == 1 and _is_len_of_data(e.args[0], env):
            return [DEC]
        if d == "hex" and len(e.args) == 1 and _is_len_of_data(e.args[0], env):
            return [PFX]
        if d == "bytes" and len(e.args) == 1 and not e.keywords:
            return wire_val(e.args[0], env)
        return _q(e)
    return _q(e)


def is_seq(tokens: list) -> bool:
    return len(tokens) == 1 and tokens[0][0] == "SEQ"


def unseq(tokens: list) -> list:
    """the concatenation of a sequence value (or the value itself)."""
    return list(tokens[0][1]) if is_seq(tokens) else tokens


def merge(tokens: list) -> list:
    out: list = []
    for tk in tokens:
        if tk[0] == "B":
            if not tk[1]:
                continue
            if out and out[-1][0] == "B":
                out[-1] = ("B", out[-1][1] + tk[1])
                continue
        out.append(tk)
    return out


def fmt_tokens(tokens: list) -> str:
    if not tokens:
        return "(nothing)"
    parts = []
    for tk in tokens:
        if tk[0] == "B":
            parts.append(repr(tk[1]))
        elif tk[0] == "?":
            parts.append(f"?{tk[1]}")
        elif tk[0] == "SEQ":
            parts.append("[" + fmt_tokens(list(tk[1])) + "]")
        else:
            parts.append({"DATA": "<data>", "SIZE": "<hex len(data)>", "DEC": "<decimal len(data)>", "PFX": "<0x-prefixed hex len(data)>"}[tk[0]])
    return " ".join(parts)


def always_truthy(tokens: list) -> bool:
    tokens = unseq(tokens)
    return any(tk[0] in ("SIZE", "DEC", "PFX") or (tk[0] == "B" and tk[1]) for tk in tokens)


# ---------------------------------------------------------------------
# typestate


def typestate(
    cfg: CFG,
    init: t.Iterable[tuple],
    effect: t.Callable[[Node, tuple], t.Iterable[tuple]],
    edge_ok: t.Callable[[Node, str | None, tuple], bool],
) -> tuple[dict[int, set[tuple]], dict[tuple[int, tuple], tuple[int, tuple] | None]]:
    """states on ARRIVAL at each node; ``effect`` maps an arrival state to the states after the node executed;
    ``edge_ok(node, label, post_state)`` filters edges (refining tests).  Also returns a parent map for witnesses."""
    at: dict[int, set[tuple]] = {n.id: set() for n in cfg.nodes}
    parent: dict[tuple[int, tuple], tuple[int, tuple] | None] = {}
    work: list[tuple[Node, tuple]] = []
    for s in init:
        at[cfg.entry.id].add(s)
        parent[(cfg.entry.id, s)] = None
        work.append((cfg.entry, s))
    while work:
        n, s = work.pop()
        for post in effect(n, s):
            for succ, l in n.succs:
                if not edge_ok(n, l, post):
                    continue
                if post not in at[succ.id]:
                    at[succ.id].add(post)
                    parent[(succ.id, post)] = (n.id, s)
                    work.append((succ, post))
    return at, parent


def witness(cfg: CFG, parent: dict, node: Node, state: tuple) -> str:
    chain = []
    cur: tuple[int, tuple] | None = (node.id, state)
    seen = set()
    while cur is not None and cur not in seen:
        seen.add(cur)
        chain.append(cfg.nodes[cur[0]])
        cur = parent.get(cur)
    chain.reverse()
    items = [f"L{n.lineno}:{n.text()[:40]}" for n in chain if n.ast is not None and n.kind != "join"]
    if len(items) > 14:
        items = items[:7] + ["..."] + items[-7:]
    return " -> ".join(items)


# ---------------------------------------------------------------------
# make_environ's header loop: evaluation of one iteration on a sample header name
#
# The header NAME is concrete (a sample string: generic names, underscore names, the Content-Type/Length spellings and
# every name derived from a string constant that occurs in the loop, so that each equality / membership test in the
# loop has a sample on either side); what is computed from it is computed with python's own str methods on that
# constant.  The header VALUE and the earlier content of the environ are symbolic tokens.  A condition that cannot be
# evaluated is followed on both edges.

HV = ("V",)  # the header value as received (with or without removal of obs-fold CRLF)
_STR_METHODS = {"upper", "lower", "casefold", "title", "capitalize", "swapcase", "strip", "lstrip", "rstrip", "replace", "removeprefix", "removesuffix"}


def _htoks(parts: list) -> t.Any:
    if all(isinstance(p, str) for p in parts):
        return "".join(parts)
    out: list = []
    for p in parts:
        if isinstance(p, str):
            if p:
                out.append(("B", p))
        else:
            out += p
    return merge(out)


def hval(e: ast.AST, env: dict[str, t.Any], environ: str, cond: t.Callable[[ast.AST], bool | None]) -> t.Any:
    """str (concrete) or token list [HV | ("ENV", key) | ("B", text) | ("?", source)]."""
    if isinstance(e, ast.Constant) and isinstance(e.value, str):
        return e.value
    if isinstance(e, ast.Name):
        return env[e.id] if e.id in env else _q(e)
    if isinstance(e, ast.JoinedStr):
        parts = []
        for v in e.values:
            if isinstance(v, ast.Constant):
                parts.append(str(v.value))
            elif isinstance(v, ast.FormattedValue) and v.format_spec is None and v.conversion in (-1, None):
                parts.append(hval(v.value, env, environ, cond))
            else:
                return _q(e)
        return _htoks(parts)
    if isinstance(e, ast.BinOp) and isinstance(e.op, ast.Add):
        return _htoks([hval(e.left, env, environ, cond), hval(e.right, env, environ, cond)])
    if isinstance(e, ast.BinOp) and isinstance(e.op, ast.Mod) and isinstance(e.left, ast.Constant) and isinstance(e.left.value, str):
        args = list(e.right.elts) if isinstance(e.right, ast.Tuple) else [e.right]
        pieces = e.left.value.split("%s")
        if len(pieces) != len(args) + 1 or any("%" in p for p in pieces):
            return _q(e)
        parts = [pieces[0]]
        for a, p in zip(args, pieces[1:]):
            parts += [hval(a, env, environ, cond), p]
        return _htoks(parts)
    if isinstance(e, ast.Subscript) and isinstance(e.value, ast.Name) and e.value.id == environ:
        k = hval(e.slice, env, environ, cond)
        return [("ENV", k)] if isinstance(k, str) else _q(e)
    if isinstance(e, ast.IfExp):
        c = cond(e.test)
        if c is None:
            return _q(e)
        return hval(e.body if c else e.orelse, env, environ, cond)
    if isinstance(e, ast.Subscript):
        base = hval(e.value, env, environ, cond)
        if isinstance(base, str):
            def ix(x: ast.AST | None) -> t.Any:
                if x is None:
                    return None
                if isinstance(x, ast.Constant) and isinstance(x.value, int):
                    return x.value
                if isinstance(x, ast.UnaryOp) and isinstance(x.op, ast.USub) and isinstance(x.operand, ast.Constant) and isinstance(x.operand.value, int):
                    return -x.operand.value
                if isinstance(x, ast.Call) and dotted(x.func) == "len" and len(x.args) == 1 and isinstance(x.args[0], ast.Constant) and isinstance(x.args[0].value, str):
                    return len(x.args[0].value)
                raise Unknown(norm(x))

            try:
                if isinstance(e.slice, ast.Slice):
                    return base[ix(e.slice.lower) : ix(e.slice.upper) : ix(e.slice.step)]
                return base[ix(e.slice)]
            except (Unknown, IndexError, ValueError):
                return _q(e)
    if isinstance(e, ast.Call) and not e.keywords and not any(isinstance(a, ast.Starred) for a in e.args):
        # a private helper of the module / a method of the handler, made of assignments, `if` and `return`: evaluated on the arguments
        helpers = env.get("__helpers__") or {}
        key = e.func.id if isinstance(e.func, ast.Name) else (f"self.{e.func.attr}" if isinstance(e.func, ast.Attribute) and is_self_attr(e.func) else None)
        fn = helpers.get(key) if key else None
        if fn is not None:
            r = hcall(fn, [hval(a, env, environ, cond) for a in e.args], key.startswith("self."), environ, env.get("__present__", ()), helpers, env.get("__depth__", 0))
            if r is not None:
                return r
    if isinstance(e, ast.Call) and isinstance(e.func, ast.Attribute):
        f = e.func
        if isinstance(f.value, ast.Name) and f.value.id == environ and f.attr == "get" and not e.keywords and (len(e.args) == 1 or (len(e.args) == 2 and isinstance(e.args[1], ast.Constant) and e.args[1].value is None)):
            k = hval(e.args[0], env, environ, cond)
            return [("ENV", k)] if isinstance(k, str) else _q(e)
        if (
            f.attr == "join" and isinstance(f.value, ast.Constant) and isinstance(f.value.value, str) and len(e.args) == 1 and not e.keywords
            and isinstance(e.args[0], ast.Call) and isinstance(e.args[0].func, ast.Attribute) and e.args[0].func.attr == "split"
            and len(e.args[0].args) == 1 and not e.args[0].keywords and isinstance(e.args[0].args[0], ast.Constant) and isinstance(e.args[0].args[0].value, str) and e.args[0].args[0].value
        ):
            # sep.join(x.split(s)) is x.replace(s, sep)
            rep = ast.Call(func=ast.Attribute(value=e.args[0].func.value, attr="replace", ctx=ast.Load()), args=[e.args[0].args[0], f.value], keywords=[])
            return hval(ast.copy_location(rep, e), env, environ, cond)
        if f.attr == "join" and isinstance(f.value, ast.Constant) and isinstance(f.value.value, str) and len(e.args) == 1 and isinstance(e.args[0], (ast.List, ast.Tuple)) and not e.keywords:
            parts = []
            for i, x in enumerate(e.args[0].elts):
                if i:
                    parts.append(f.value.value)
                parts.append(hval(x, env, environ, cond))
            return _htoks(parts)
        obj = hval(f.value, env, environ, cond)
        const_args = all(isinstance(a, ast.Constant) and isinstance(a.value, str) for a in e.args) and not e.keywords
        if isinstance(obj, str) and f.attr in _STR_METHODS and const_args:
            try:
                return getattr(obj, f.attr)(*[a.value for a in e.args])  # type: ignore[attr-defined]
            except Exception:
                return _q(e)
        if isinstance(obj, list) and f.attr == "replace" and const_args and [a.value for a in e.args] == ["\r\n", ""]:  # type: ignore[attr-defined]
            return obj  # obs-fold removal: not distinguished from the value as received
        return _q(e)
    if isinstance(e, ast.Call) and dotted(e.func) == "str" and len(e.args) == 1 and not e.keywords:
        return hval(e.args[0], env, environ, cond)
    if isinstance(e, ast.Constant) and isinstance(e.value, bool):
        return e.value
    if isinstance(e, (ast.Compare, ast.BoolOp)) or (isinstance(e, ast.UnaryOp) and isinstance(e.op, ast.Not)):
        c = cond(e)
        if c is not None:
            return c
    return _q(e)


def hcall(fn: ast.AST, args: list, is_method: bool, environ: str, present: t.Collection[str], helpers: dict, depth: int = 0) -> t.Any:
    """result of a helper function on evaluated arguments (str / token list / bool), or None when its body leaves the
    subset: assignments to locals, `if` with a decidable condition, `return <expr>`, no loops, no other statements."""
    if depth > 2 or not isinstance(fn, ast.FunctionDef) or fn.decorator_list and not all(dotted(d) in ("staticmethod",) for d in fn.decorator_list):
        return None
    a = fn.args
    if a.vararg or a.kwarg or a.kwonlyargs or a.defaults or a.posonlyargs:
        return None
    params = [x.arg for x in a.args]
    if is_method and not any(dotted(d) == "staticmethod" for d in fn.decorator_list):
        params = params[1:]
    if len(params) != len(args):
        return None
    vals: dict[str, t.Any] = dict(zip(params, args))
    vals["__helpers__"], vals["__present__"], vals["__depth__"] = helpers, present, depth + 1
    cond = lambda x: hcond(x, vals, environ, present)  # noqa: E731

    class Leave(Exception):
        pass

    def block(stmts: list[ast.stmt]) -> tuple[t.Any] | None:
        for st in stmts:
            if isinstance(st, ast.Pass) or (isinstance(st, ast.Expr) and isinstance(st.value, ast.Constant)):
                continue
            if isinstance(st, (ast.Assign, ast.AnnAssign)) and st.value is not None:
                tgs = st.targets if isinstance(st, ast.Assign) else [st.target]
                if not all(isinstance(tg, ast.Name) for tg in tgs):
                    raise Leave()
                v = hval(st.value, vals, environ, cond)
                for tg in tgs:
                    vals[tg.id] = v  # type: ignore[attr-defined]
            elif isinstance(st, ast.AugAssign) and isinstance(st.target, ast.Name) and isinstance(st.op, ast.Add):
                vals[st.target.id] = _htoks([vals.get(st.target.id, _q(st.target)), hval(st.value, vals, environ, cond)])
            elif isinstance(st, ast.If):
                c = cond(st.test)
                if c is None:
                    raise Leave()
                r = block(st.body if c else st.orelse)
                if r is not None:
                    return r
            elif isinstance(st, ast.Return):
                if st.value is None:
                    raise Leave()
                return (hval(st.value, vals, environ, cond),)
            else:
                raise Leave()
        return None

    try:
        r = block(list(fn.body))
    except Leave:
        return None
    return r[0] if r is not None else None


def hcond(e: ast.AST, env: dict[str, t.Any], environ: str, present: t.Collection[str]) -> bool | None:
    """truth value of a condition in the header loop; None when it cannot be decided from the sample."""
    rec = lambda x: hcond(x, env, environ, present)  # noqa: E731
    if isinstance(e, ast.UnaryOp) and isinstance(e.op, ast.Not):
        v = rec(e.operand)
        return None if v is None else not v
    if isinstance(e, ast.BoolOp):
        vals = [rec(v) for v in e.values]
        if isinstance(e.op, ast.And):
            return False if any(v is False for v in vals) else (None if any(v is None for v in vals) else True)
        return True if any(v is True for v in vals) else (None if any(v is None for v in vals) else False)
    if isinstance(e, ast.Compare) and len(e.ops) == 1:
        op, a, b = e.ops[0], e.left, e.comparators[0]
        is_env = isinstance(b, ast.Name) and b.id == environ or (isinstance(b, ast.Call) and isinstance(b.func, ast.Attribute) and b.func.attr == "keys" and isinstance(b.func.value, ast.Name) and b.func.value.id == environ)
        if isinstance(op, (ast.In, ast.NotIn)) and is_env:
            k = hval(a, env, environ, rec)
            if not isinstance(k, str):
                return None
            return (k in present) == isinstance(op, ast.In)
        other = env.get("__other_dicts__") or {}
        if isinstance(op, (ast.In, ast.NotIn)) and isinstance(b, ast.Name) and b.id in other:
            # another dict whose keys are known (the environ while the headers are collected in a dict of their own)
            k = hval(a, env, environ, rec)
            if not isinstance(k, str):
                return None
            return (k in other[b.id]) == isinstance(op, ast.In)
        if isinstance(op, (ast.Is, ast.IsNot)) and isinstance(b, ast.Constant) and b.value is None:
            v = hval(a, env, environ, rec)
            if isinstance(v, list) and len(v) == 1 and v[0][0] == "ENV":
                return (v[0][1] not in present) == isinstance(op, ast.Is)
            if isinstance(v, str):
                return isinstance(op, ast.IsNot)
            return None
    if isinstance(e, ast.Name) or isinstance(e, ast.Call):
        v = hval(e, env, environ, rec)
        if isinstance(v, list) and len(v) == 1 and v[0][0] == "ENV":
            return None if v[0][1] in present else False  # an earlier value may be empty; an absent one is None
        if isinstance(v, (str, bool)):
            return bool(v)

    def bind(x: ast.AST) -> tuple[bool, t.Any]:
        if isinstance(x, (ast.Name, ast.Call, ast.JoinedStr, ast.BinOp, ast.Subscript)):
            v = hval(x, env, environ, rec)
            if isinstance(v, (str, bool, tuple, frozenset)):
                return True, v
        return False, None

    try:
        return bool(ev(e, bind))
    except Unknown:
        return None


def loop_iteration_paths(cfg: CFG, head: Node, limit: int = 5000) -> list[Path]:
    """paths of one iteration of a `for` loop: from the head's body edge to the head again, the normal exit or the raising
    exit; every edge at most once; exceptional edges are not followed."""
    out: list[Path] = []
    stops = {head.id, cfg.exit.id, cfg.raise_exit.id}
    stack: list[tuple[Node, Path, frozenset]] = [(s, [(head, "T")], frozenset()) for s, l in head.succs if l == "T"]
    while stack:
        n, p, used = stack.pop()
        if n.id in stops:
            out.append(p + [(n, None)])
            if len(out) > limit:
                raise AnalysisError(f"more than {limit} paths through the loop body")
            continue
        for i, (s, l) in enumerate(n.succs):
            if l == "exc" or (n.id, i) in used:
                continue
            stack.append((s, p + [(n, l)], used | {(n.id, i)}))
    return out


# ---------------------------------------------------------------------
# one level of helper inlining (AST to AST), so that the CFG-based rules see what the function does
#
# * `self._h(a, b)` as a statement, where _h is a plain method of the same class whose body contains no `return` with a
#   value and no `return` other than a trailing one, is replaced by the body of _h: parameters that receive a plain
#   name and are never rebound in _h are substituted, other parameters are bound by an assignment first; the locals
#   of _h are renamed (`__h__name`) so that they cannot clash with the caller's.
# * `self._p()` in an expression, where the body of _p is a single `return <expr>` and _p has no parameters, is
#   replaced by <expr>.
# Line numbers of the inlined statements are those of the helper.


def clone(n: t.Any) -> t.Any:
    """structural copy of an AST (without the loader's parent back-pointers)."""
    if isinstance(n, ast.AST):
        new = n.__class__()
        for f in n._fields:
            if hasattr(n, f):
                setattr(new, f, clone(getattr(n, f)))
        for a in n._attributes:
            if hasattr(n, a):
                setattr(new, a, getattr(n, a))
        return new
    if isinstance(n, list):
        return [clone(x) for x in n]
    return n


def _strip_doc(body: list[ast.stmt]) -> list[ast.stmt]:
    if body and isinstance(body[0], ast.Expr) and isinstance(body[0].value, ast.Constant) and isinstance(body[0].value.value, str):
        return body[1:]
    return body


def _plain_method(m: ast.AST) -> bool:
    if not isinstance(m, ast.FunctionDef) or m.decorator_list:
        return False
    a = m.args
    return bool(a.args) and a.args[0].arg == "self" and not (a.vararg or a.kwarg or a.kwonlyargs or a.posonlyargs or a.defaults)


def _self_method_call(c: ast.AST) -> str | None:
    if isinstance(c, ast.Call) and isinstance(c.func, ast.Attribute) and isinstance(c.func.value, ast.Name) and c.func.value.id == "self":
        return c.func.attr
    return None


def inline_methods(fn: ast.AST, methods: dict[str, ast.AST], exclude: t.Collection[str] = (), nested: bool = False, functions: dict[str, ast.AST] | None = None, guard_returns: bool = False) -> tuple[ast.AST, set[str]]:
    """``functions``: module-level functions that may be expanded the same way when called as a statement (`f(a, b)`);
    ``guard_returns``: a helper whose bare `return`s are guard clauses is expanded too (eliminate_bare_returns)."""
    inlined: set[str] = set()
    new_fn = clone(fn)
    caller_names = {x.id for x in ast.walk(fn) if isinstance(x, ast.Name) and isinstance(x.ctx, (ast.Store, ast.Del))} | {a.arg for a in ast.walk(fn) if isinstance(a, ast.arg)}

    def expr_helper(name: str) -> ast.AST | None:
        m = methods.get(name)
        if m is None or name in exclude or not _plain_method(m) or len(m.args.args) != 1:  # type: ignore[attr-defined]
            return None
        body = _strip_doc(m.body)  # type: ignore[attr-defined]
        if len(body) == 1 and isinstance(body[0], ast.Return) and body[0].value is not None and not any(isinstance(x, (ast.Call, ast.Await, ast.Yield, ast.YieldFrom, ast.NamedExpr)) for x in ast.walk(body[0].value)):
            return body[0].value
        return None

    def stmt_helper(c: ast.Call) -> list[ast.stmt] | None:
        name = _self_method_call(c)
        m = methods.get(name or "")
        is_fn = False
        if m is None and functions and isinstance(c.func, ast.Name) and c.func.id in functions and c.func.id not in caller_names:
            name, m, is_fn = c.func.id, functions[c.func.id], True
            a_ = m.args  # type: ignore[attr-defined]
            if not isinstance(m, ast.FunctionDef) or m.decorator_list or a_.vararg or a_.kwarg or a_.kwonlyargs or a_.posonlyargs or a_.defaults:
                return None
        if m is None or name in exclude or (not is_fn and not _plain_method(m)) or c.keywords or any(isinstance(a, ast.Starred) for a in c.args):
            return None
        params = [a.arg for a in (m.args.args if is_fn else m.args.args[1:])]  # type: ignore[attr-defined]
        if len(params) != len(c.args):
            return None
        body = _strip_doc(m.body)  # type: ignore[attr-defined]
        if body and isinstance(body[-1], ast.Return) and body[-1].value is None:
            body = body[:-1]
        if guard_returns and any(isinstance(x, ast.Return) for st in body for x in _walk_same_scope(st)):
            flat = eliminate_bare_returns(list(body))
            if flat is None:
                return None
            body = flat
        if is_fn:
            # free names of a module-level function are globals: they must not be locals of the caller
            own_ = set(params) | {x.id for st in body for x in ast.walk(st) if isinstance(x, ast.Name) and isinstance(x.ctx, (ast.Store, ast.Del))}
            if any(isinstance(x, ast.Name) and x.id not in own_ and x.id in caller_names for st in body for x in ast.walk(st)):
                return None
        for st in body:
            for x in ast.walk(st):
                if isinstance(x, (ast.Return, ast.Yield, ast.YieldFrom, ast.Await, ast.Global, ast.Nonlocal, ast.FunctionDef, ast.AsyncFunctionDef, ast.Lambda, ast.ClassDef)):
                    return None
        stored = {x.id for st in body for x in ast.walk(st) if isinstance(x, ast.Name) and isinstance(x.ctx, (ast.Store, ast.Del))}
        mapping: dict[str, str] = {}
        pre: list[ast.stmt] = []
        for prm, arg in zip(params, c.args):
            if isinstance(arg, ast.Name) and prm not in stored:
                mapping[prm] = arg.id
            else:
                mapping[prm] = f"__{name}__{prm}"
                asg = ast.Assign(targets=[ast.Name(id=mapping[prm], ctx=ast.Store())], value=clone(arg))
                pre.append(ast.copy_location(asg, c))
        for nm in stored:
            mapping.setdefault(nm, f"__{name}__{nm}")
        out = pre + clone(body)
        for st in out:
            for x in ast.walk(st):
                if isinstance(x, ast.Name) and x.id in mapping:
                    x.id = mapping[x.id]
        for st in pre:
            ast.fix_missing_locations(st)
        inlined.add(name)  # type: ignore[arg-type]
        return out or [ast.copy_location(ast.Pass(), c)]

    class Exprs(ast.NodeTransformer):
        def visit_Call(self, c: ast.Call) -> ast.AST:  # noqa: N802
            self.generic_visit(c)
            name = _self_method_call(c)
            if name and not c.args and not c.keywords:
                e = expr_helper(name)
                if e is not None:
                    inlined.add(name)
                    return clone(e)
            return c

    def block(stmts: list[ast.stmt]) -> list[ast.stmt]:
        out: list[ast.stmt] = []
        for st in stmts:
            if isinstance(st, ast.Expr) and isinstance(st.value, ast.Call):
                rep = stmt_helper(st.value)
                if rep is not None:
                    out += rep  # one level: the inlined body is not scanned again
                    continue
            for f in ("body", "orelse", "finalbody"):
                if isinstance(getattr(st, f, None), list) and (not isinstance(st, (ast.FunctionDef, ast.AsyncFunctionDef, ast.ClassDef)) or (nested and isinstance(st, ast.FunctionDef))):
                    setattr(st, f, block(getattr(st, f)))
            for h in getattr(st, "handlers", []) or []:
                h.body = block(h.body)
            out.append(st)
        return out

    new_fn.body = block(new_fn.body)
    new_fn = Exprs().visit(new_fn)
    for n in ast.walk(new_fn):
        for ch in ast.iter_child_nodes(n):
            ch._parent = n  # type: ignore[attr-defined]
    return new_fn, inlined


def _set_parents(root: ast.AST) -> None:
    for n in ast.walk(root):
        for ch in ast.iter_child_nodes(n):
            ch._parent = n  # type: ignore[attr-defined]


def _walk_same_scope(n: ast.AST) -> t.Iterator[ast.AST]:
    """the nodes of a statement / block that belong to the function it is in (nested defs / lambdas / classes not entered)."""
    yield n
    for ch in ast.iter_child_nodes(n):
        if isinstance(ch, (ast.FunctionDef, ast.AsyncFunctionDef, ast.Lambda, ast.ClassDef)):
            continue
        yield from _walk_same_scope(ch)


def split_parallel_assigns(fn: ast.AST) -> tuple[ast.AST, int]:
    """`a, b = x, y` -> `a = x` ; `b = y` wherever the parallel and the sequential reading agree: same number of plain
    (unstarred) elements on both sides, one target, and no target name is read by a value to its right (`a, b = b, a`
    stays as it is); the values must be free of calls after the first element (so that the order of effects between the
    stores and the evaluations cannot matter).  Returns a copy with parent pointers and the number of statements split."""
    new_fn = clone(fn)
    count = 0

    def split(st: ast.stmt) -> list[ast.stmt] | None:
        if not isinstance(st, ast.Assign) or len(st.targets) != 1:
            return None
        tg, v = st.targets[0], st.value
        if not isinstance(tg, (ast.Tuple, ast.List)) or not isinstance(v, (ast.Tuple, ast.List)) or len(tg.elts) != len(v.elts) or len(tg.elts) < 2:
            return None
        if any(isinstance(e, ast.Starred) for e in list(tg.elts) + list(v.elts)):
            return None
        if not all(isinstance(e, (ast.Name, ast.Attribute, ast.Subscript)) for e in tg.elts):
            return None
        for i, e in enumerate(tg.elts):
            key = norm(e)
            base = e.id if isinstance(e, ast.Name) else None
            for later in v.elts[i + 1:]:
                for x in ast.walk(later):
                    if (base is not None and isinstance(x, ast.Name) and x.id == base) or (base is None and isinstance(x, (ast.Attribute, ast.Subscript)) and norm(x) == key):
                        return None
        if any(isinstance(x, (ast.Call, ast.Await, ast.Yield, ast.YieldFrom, ast.NamedExpr)) for later in v.elts[1:] for x in ast.walk(later)):
            return None
        if any(not isinstance(e, ast.Name) and any(isinstance(x, ast.Call) for x in ast.walk(e)) for e in tg.elts):
            return None
        out: list[ast.stmt] = []
        for e, x in zip(tg.elts, v.elts):
            out.append(ast.copy_location(ast.Assign(targets=[e], value=x), st))
        return out

    def block(stmts: list[ast.stmt]) -> list[ast.stmt]:
        nonlocal count
        out: list[ast.stmt] = []
        for st in stmts:
            rep = split(st)
            if rep is not None:
                count += 1
                out += rep
                continue
            for f in ("body", "orelse", "finalbody"):
                if isinstance(getattr(st, f, None), list) and not isinstance(st, ast.ClassDef):
                    setattr(st, f, block(getattr(st, f)))
            for h in getattr(st, "handlers", []) or []:
                h.body = block(h.body)
            for c in getattr(st, "cases", []) or []:
                c.body = block(c.body)
            out.append(st)
        return out

    new_fn.body = block(new_fn.body)
    if count:
        ast.fix_missing_locations(new_fn)
    _set_parents(new_fn)
    return new_fn, count


def _has_return(st: ast.AST) -> bool:
    return any(isinstance(x, ast.Return) for x in _walk_same_scope(st))


def _always_returns(stmts: list[ast.stmt]) -> bool:
    if not stmts:
        return False
    last = stmts[-1]
    if isinstance(last, ast.Return):
        return True
    return isinstance(last, ast.If) and _always_returns(last.body) and _always_returns(last.orelse)


def eliminate_bare_returns(stmts: list[ast.stmt]) -> list[ast.stmt] | None:
    """the body of a statement helper with its bare `return`s (guard clauses) turned into if / else structure, so that
    it can stand in the place of the call: `if c: return` + rest -> `if c: pass` / `else: rest`.  None when a return
    carries a value, sits in a loop / try / with, or in a branch that does not always return (the rest would have to be
    duplicated)."""
    out: list[ast.stmt] = []
    for i, st in enumerate(stmts):
        if isinstance(st, ast.Return):
            return None if st.value is not None else out
        if not _has_return(st):
            out.append(st)
            continue
        if not isinstance(st, ast.If):
            return None
        rest = list(stmts[i + 1:])
        has_b, has_e = any(_has_return(s) for s in st.body), any(_has_return(s) for s in st.orelse)
        ret_b, ret_e = _always_returns(st.body), _always_returns(st.orelse)
        if has_b and ret_b and has_e and ret_e:
            nb, ne = eliminate_bare_returns(st.body), eliminate_bare_returns(st.orelse)
        elif has_b and ret_b and not has_e:
            nb, ne = eliminate_bare_returns(st.body), eliminate_bare_returns(list(st.orelse) + rest)
        elif has_e and ret_e and not has_b:
            nb, ne = eliminate_bare_returns(list(st.body) + rest), eliminate_bare_returns(st.orelse)
        else:
            return None
        if nb is None or ne is None:
            return None
        new = ast.If(test=st.test, body=nb or [ast.copy_location(ast.Pass(), st)], orelse=ne)
        out.append(ast.copy_location(new, st))
        return out
    return out


def inline_nested_helpers(fn: ast.AST) -> tuple[ast.AST, set[str]]:
    """logic of one nested function moved into a sibling nested function: inside `fn`, a nested function h that is used
    only as `h(a, b)` statements in other nested functions (never as a value, never from fn's own body) is expanded where
    it is called and its definition dropped.  h must be plain (positional parameters without defaults, no decorator, no
    generator / nested definitions); bare `return`s are turned into structure (eliminate_bare_returns); its `nonlocal`
    declarations move to the caller (refused when the caller binds such a name as a local of its own); its locals are
    renamed when the caller uses the same name.  One level.  Returns (copy with parent pointers, names expanded)."""
    new_fn = clone(fn)
    done: set[str] = set()
    defs = [st for st in new_fn.body if isinstance(st, ast.FunctionDef)]
    by_name = {d.name: d for d in defs}
    if len(by_name) != len(defs):
        return fn, done

    def plain(h: ast.FunctionDef) -> bool:
        a = h.args
        if h.decorator_list or a.vararg or a.kwarg or a.kwonlyargs or a.defaults or a.kw_defaults:
            return False
        for st in h.body:
            for x in ast.walk(st):
                if isinstance(x, (ast.Yield, ast.YieldFrom, ast.Await, ast.Global, ast.FunctionDef, ast.AsyncFunctionDef, ast.Lambda, ast.ClassDef)):
                    return False
        return True

    for h in defs:
        if not plain(h):
            continue
        # every use of the name: the callee of a statement call inside another nested function
        sites: list[tuple[ast.FunctionDef, ast.Expr]] = []
        ok = True
        for owner in [new_fn] + defs:
            if owner is h:
                if any(isinstance(x, ast.Name) and x.id == h.name for st in h.body for x in ast.walk(st)):
                    ok = False  # recursion
                continue
            stmts = owner.body if owner is not new_fn else [st for st in new_fn.body if not isinstance(st, ast.FunctionDef)]
            for st in stmts:
                for x in ast.walk(st):
                    if isinstance(x, ast.Expr) and isinstance(x.value, ast.Call) and isinstance(x.value.func, ast.Name) and x.value.func.id == h.name:
                        c = x.value
                        if owner is new_fn or c.keywords or any(isinstance(a, ast.Starred) for a in c.args) or len(c.args) != len(h.args.posonlyargs + h.args.args):
                            ok = False
                        sites.append((owner, x))  # type: ignore[arg-type]
                n_refs = sum(1 for x in ast.walk(st) if isinstance(x, ast.Name) and x.id == h.name)
                n_sites = sum(1 for x in ast.walk(st) if isinstance(x, ast.Expr) and isinstance(x.value, ast.Call) and isinstance(x.value.func, ast.Name) and x.value.func.id == h.name)
                if n_refs != n_sites:
                    ok = False
        if not ok or not sites:
            continue
        body = _strip_doc(h.body)
        h_nonlocal = [nm for st in body if isinstance(st, ast.Nonlocal) for nm in st.names]
        body = [st for st in body if not isinstance(st, ast.Nonlocal)]
        if any(isinstance(x, ast.Nonlocal) for st in body for x in ast.walk(st)):
            continue
        body2 = eliminate_bare_returns(body)
        if body2 is None:
            continue
        params = [a.arg for a in h.args.posonlyargs + h.args.args]
        stored = {x.id for st in body2 for x in ast.walk(st) if isinstance(x, ast.Name) and isinstance(x.ctx, (ast.Store, ast.Del))} - set(h_nonlocal)
        refused = False
        plans = []
        for owner, site in sites:
            o_nonlocal = {nm for st in owner.body if isinstance(st, ast.Nonlocal) for nm in st.names}
            o_params = {a.arg for a in owner.args.posonlyargs + owner.args.args + owner.args.kwonlyargs}
            o_stored = {x.id for st in owner.body for x in _walk_same_scope(st) if isinstance(x, ast.Name) and isinstance(x.ctx, (ast.Store, ast.Del))}
            o_names = {x.id for st in owner.body for x in _walk_same_scope(st) if isinstance(x, ast.Name)} | o_params
            if any(nm in (o_stored | o_params) and nm not in o_nonlocal for nm in h_nonlocal):
                refused = True
                break
            # a free name of h that the caller binds as a local of its own would change meaning
            free = {x.id for st in body2 for x in ast.walk(st) if isinstance(x, ast.Name)} - stored - set(params)
            if any(nm in ((o_stored - o_nonlocal) | o_params) for nm in free - set(h_nonlocal)):
                refused = True
                break
            plans.append((owner, site, o_nonlocal, o_names))
        if refused:
            continue
        for owner, site, o_nonlocal, o_names in plans:
            c = site.value
            mapping: dict[str, str] = {}
            pre: list[ast.stmt] = []
            for prm, arg in zip(params, c.args):  # type: ignore[attr-defined]
                if isinstance(arg, ast.Name) and prm not in stored:
                    mapping[prm] = arg.id
                else:
                    mapping[prm] = f"__{h.name}__{prm}" if prm in o_names else prm
                    asg = ast.Assign(targets=[ast.Name(id=mapping[prm], ctx=ast.Store())], value=clone(arg))
                    pre.append(ast.fix_missing_locations(ast.copy_location(asg, site)))
            for nm in stored:
                mapping.setdefault(nm, f"__{h.name}__{nm}" if nm in o_names else nm)
            rep = pre + clone(body2)
            for st in rep:
                for x in ast.walk(st):
                    if isinstance(x, ast.Name) and x.id in mapping:
                        x.id = mapping[x.id]
            rep = rep or [ast.copy_location(ast.Pass(), site)]

            def put(stmts: list[ast.stmt]) -> bool:
                for i, st in enumerate(stmts):
                    if st is site:
                        stmts[i:i + 1] = rep
                        return True
                    for f in ("body", "orelse", "finalbody"):
                        sub = getattr(st, f, None)
                        if isinstance(sub, list) and not isinstance(st, (ast.FunctionDef, ast.AsyncFunctionDef, ast.ClassDef)) and put(sub):
                            return True
                    for hd in getattr(st, "handlers", []) or []:
                        if put(hd.body):
                            return True
                return False

            if not put(owner.body):
                return fn, set()
            missing = [nm for nm in h_nonlocal if nm not in o_nonlocal]
            if missing:
                decl = ast.fix_missing_locations(ast.copy_location(ast.Nonlocal(names=missing), owner.body[0]))
                at = 1 if _strip_doc(owner.body) is not owner.body and len(_strip_doc(owner.body)) != len(owner.body) else 0
                owner.body.insert(at, decl)
        new_fn.body = [st for st in new_fn.body if st is not h]
        done.add(h.name)
    if not done:
        return fn, done
    ast.fix_missing_locations(new_fn)
    _set_parents(new_fn)
    return new_fn, done


def _ends_in_return_or_raise(stmts: list[ast.stmt]) -> bool:
    if not stmts:
        return False
    last = stmts[-1]
    if isinstance(last, (ast.Return, ast.Raise)):
        return True
    if isinstance(last, ast.If):
        return _ends_in_return_or_raise(last.body) and _ends_in_return_or_raise(last.orelse)
    if isinstance(last, ast.Try):
        main = last.orelse if last.orelse else last.body
        return not last.finalbody and _ends_in_return_or_raise(main) and all(_ends_in_return_or_raise(h.body) for h in last.handlers)
    if isinstance(last, ast.With):
        return _ends_in_return_or_raise(last.body)
    return False


def returns_to_statements(stmts: list[ast.stmt], hand_back: t.Callable[[ast.AST], ast.stmt]) -> list[ast.stmt] | None:
    """the body of a helper that hands a value back, in the place of `T = helper(...)`: every `return <expr>` must be the
    last thing its path does before the helper is left (the last statement of the body, or of a branch / try part that
    ends the body) and becomes hand_back(<expr>); every path must end in such a return or in a raise.  None otherwise
    (a return inside a loop, in the middle of a block, under `finally`, or a path that falls off the end)."""
    if not _ends_in_return_or_raise(stmts):
        return None

    def conv(block: list[ast.stmt]) -> list[ast.stmt] | None:
        out: list[ast.stmt] = []
        for i, st in enumerate(block):
            last = i == len(block) - 1
            if isinstance(st, ast.Return):
                if not last or st.value is None:
                    return None
                out.append(hand_back(st.value))
            elif not _has_return(st):
                out.append(st)
            elif not last:
                return None
            elif isinstance(st, ast.If):
                b, e = conv(st.body), conv(st.orelse)
                if b is None or e is None:
                    return None
                st.body, st.orelse = b, e
                out.append(st)
            elif isinstance(st, ast.Try):
                if st.finalbody or (st.orelse and any(_has_return(x) for x in st.body)):
                    return None
                b = conv(st.body) if not st.orelse else st.body
                e = conv(st.orelse) if st.orelse else []
                hs = [conv(h.body) for h in st.handlers]
                if b is None or e is None or any(h is None for h in hs):
                    return None
                st.body, st.orelse = b, e
                for h, nb in zip(st.handlers, hs):
                    h.body = nb  # type: ignore[assignment]
                out.append(st)
            elif isinstance(st, ast.With):
                b = conv(st.body)
                if b is None:
                    return None
                st.body = b
                out.append(st)
            else:
                return None
        return out

    return conv(stmts)


def inline_value_helpers(fn: ast.AST, methods: dict[str, ast.AST], functions: dict[str, ast.AST], exclude: t.Collection[str] = (), depth: int = 2) -> tuple[ast.AST, set[str]]:
    """a computation moved into a helper that hands its result back:

    * `f(a, b)` / `self.m(a, b)` anywhere in an expression, where the helper's body is a single `return <expr>`: replaced
      by <expr> with the parameters replaced by the arguments (a parameter used more than once must receive a name, a
      constant or an attribute chain, so that nothing is evaluated twice);
    * `T = f(a)` / `return f(a)` where the helper's body is straight-line assignments and a final `return <expr>`: the
      assignments (locals renamed, parameters bound first) and `T = <expr>` / `return <expr>` take the statement's place.

    Helpers are plain: positional parameters, no defaults / decorators, no nested definitions, generators, global /
    nonlocal.  Methods are keyed by name and called on `self`; functions are module-level and called by name.  Applied
    `depth` times.  Returns (copy with parent pointers, helper names expanded); fn itself when nothing applies."""
    done: set[str] = set()

    def callee(c: ast.AST) -> tuple[str, ast.FunctionDef, bool] | None:
        if not isinstance(c, ast.Call) or c.keywords or any(isinstance(a, ast.Starred) for a in c.args):
            return None
        if isinstance(c.func, ast.Name) and c.func.id in functions and c.func.id not in exclude:
            h, is_m, name = functions[c.func.id], False, c.func.id
        elif _self_method_call(c) in methods and _self_method_call(c) not in exclude:
            name = _self_method_call(c)  # type: ignore[assignment]
            h, is_m = methods[name], True
        else:
            return None
        if not isinstance(h, ast.FunctionDef) or h.decorator_list or h is fn_src:
            return None
        a = h.args
        if a.vararg or a.kwarg or a.kwonlyargs or a.defaults or a.kw_defaults:
            return None
        n_params = len(a.posonlyargs + a.args) - (1 if is_m else 0)
        if n_params != len(c.args) or (is_m and (not a.args or a.args[0].arg != "self")):
            return None
        for st in h.body:
            for x in ast.walk(st):
                if isinstance(x, (ast.Yield, ast.YieldFrom, ast.Await, ast.Global, ast.Nonlocal, ast.FunctionDef, ast.AsyncFunctionDef, ast.Lambda, ast.ClassDef, ast.NamedExpr)):
                    return None
        return name, h, is_m

    def params_of(h: ast.FunctionDef, is_m: bool) -> list[str]:
        ps = [x.arg for x in h.args.posonlyargs + h.args.args]
        return ps[1:] if is_m else ps

    def simple(e: ast.AST) -> bool:
        return isinstance(e, (ast.Name, ast.Constant)) or (isinstance(e, ast.Attribute) and simple(e.value))

    def expr_of(c: ast.Call) -> ast.AST | None:
        got = callee(c)
        if got is None:
            return None
        name, h, is_m = got
        body = _strip_doc(h.body)
        if len(body) != 1 or not isinstance(body[0], ast.Return) or body[0].value is None:
            return None
        e = body[0].value
        ps = params_of(h, is_m)
        uses = {p: sum(1 for x in ast.walk(e) if isinstance(x, ast.Name) and x.id == p) for p in ps}
        if any(isinstance(x, (ast.ListComp, ast.SetComp, ast.DictComp, ast.GeneratorExp)) for x in ast.walk(e)):
            return None
        sub = {}
        for p, a_ in zip(ps, c.args):
            if uses[p] > 1 and not simple(a_):
                return None
            sub[p] = a_

        class T(ast.NodeTransformer):
            def visit_Name(self, n: ast.Name) -> ast.AST:  # noqa: N802
                return clone(sub[n.id]) if n.id in sub and isinstance(n.ctx, ast.Load) else n

        done.add(name)
        return ast.copy_location(T().visit(clone(e)), c)

    def stmts_of(st: ast.stmt) -> list[ast.stmt] | None:
        if isinstance(st, (ast.Assign, ast.AnnAssign, ast.Return)) and isinstance(st.value, ast.Call):
            c = st.value
        else:
            return None
        got = callee(c)
        if got is None:
            return None
        name, h, is_m = got
        body = _strip_doc(h.body)
        if not body or (len(body) == 1 and isinstance(body[0], ast.Return)):
            return None  # a single expression: handled where the call stands
        ps = params_of(h, is_m)
        stored = {x.id for s in body for x in ast.walk(s) if isinstance(x, ast.Name) and isinstance(x.ctx, (ast.Store, ast.Del))}
        mapping: dict[str, str] = {}
        pre: list[ast.stmt] = []
        direct: dict[str, ast.AST] = {}  # parameters that stand for a name / constant / attribute chain of the caller
        for p, a_ in zip(ps, c.args):
            if isinstance(a_, ast.Name) and p not in stored:
                mapping[p] = a_.id
            elif simple(a_) and p not in stored:
                direct[p] = a_
            else:
                mapping[p] = f"__{name}__{p}"
                pre.append(ast.fix_missing_locations(ast.copy_location(ast.Assign(targets=[ast.Name(id=mapping[p], ctx=ast.Store())], value=clone(a_)), st)))
        for nm in stored:
            mapping.setdefault(nm, f"__{name}__{nm}")

        class Put(ast.NodeTransformer):
            def visit_Name(self, n: ast.Name) -> ast.AST:  # noqa: N802
                if n.id in direct and isinstance(n.ctx, ast.Load):
                    return ast.copy_location(clone(direct[n.id]), n)
                if n.id in mapping:
                    n.id = mapping[n.id]
                return n

        renamed = [Put().visit(s) for s in clone(body)]

        def hand_back(value: ast.AST) -> ast.stmt:  # the statement's own targets are the caller's names
            last = clone(st)
            last.value = value
            return ast.copy_location(last, st)

        conv = returns_to_statements(renamed, hand_back)
        if conv is None:
            return None
        done.add(name)
        return pre + conv

    class Exprs(ast.NodeTransformer):
        def visit_Call(self, c: ast.Call) -> ast.AST:  # noqa: N802
            self.generic_visit(c)
            e = expr_of(c)
            return e if e is not None else c

    def block(stmts: list[ast.stmt]) -> list[ast.stmt]:
        out: list[ast.stmt] = []
        for st in stmts:
            rep = stmts_of(st)
            if rep is not None:
                out += rep
                continue
            for f in ("body", "orelse", "finalbody"):
                if isinstance(getattr(st, f, None), list) and not isinstance(st, (ast.FunctionDef, ast.AsyncFunctionDef, ast.ClassDef)):
                    setattr(st, f, block(getattr(st, f)))
            for hd in getattr(st, "handlers", []) or []:
                hd.body = block(hd.body)
            out.append(st)
        return out

    fn_src = fn
    cur = fn
    for _ in range(depth):
        before = set(done)
        new_fn = clone(cur)
        new_fn.body = block(new_fn.body)
        new_fn = Exprs().visit(new_fn)
        if done == before:
            break
        cur = new_fn
    if cur is fn:
        return fn, done
    ast.fix_missing_locations(cur)
    _set_parents(cur)
    return cur, done


def fold_pending_header(fn: ast.AST, lenreader: str) -> tuple[ast.AST, str | None]:
    """the chunk size kept in a local before it is stored:

        size = self.<reader>()              self.<attr> = self.<reader>()
        if size == 0: ...           ->      if self.<attr> == 0: ...
        self.<attr> = size                  pass

    Done only when the two are the same for every rule that follows: the local is bound by that statement only, stored
    into one attribute by one statement which every path from the read to the normal exit / the next read passes,
    nothing in between mentions the attribute or calls a method of the object, and the local is not read after the
    store.  Returns (function - a rewritten copy, or the original -, the attribute name or None)."""
    from ..cfg import CFG

    new_fn = clone(fn)
    for n in ast.walk(new_fn):
        for ch in ast.iter_child_nodes(n):
            ch._parent = n  # type: ignore[attr-defined]

    def is_reader(v: ast.AST | None) -> bool:
        return isinstance(v, ast.Call) and isinstance(v.func, ast.Attribute) and is_self_attr(v.func, lenreader) and not v.args and not v.keywords

    stores: dict[str, int] = {}
    for n in ast.walk(new_fn):
        if isinstance(n, ast.Name) and isinstance(n.ctx, (ast.Store, ast.Del)):
            stores[n.id] = stores.get(n.id, 0) + 1
    cands = []
    for n in ast.walk(new_fn):
        tg = n.targets[0] if isinstance(n, ast.Assign) and len(n.targets) == 1 else n.target if isinstance(n, ast.AnnAssign) else None
        if isinstance(tg, ast.Name) and is_reader(getattr(n, "value", None)) and stores.get(tg.id) == 1:
            cands.append((n, tg.id))
    if len(cands) != 1:
        return fn, None
    dstmt, x = cands[0]
    commits = [n for n in ast.walk(new_fn) if isinstance(n, ast.Assign) and len(n.targets) == 1 and is_self_attr(n.targets[0]) and isinstance(n.value, ast.Name) and n.value.id == x]
    if len(commits) != 1:
        return fn, None
    cstmt = commits[0]
    attr = cstmt.targets[0].attr  # type: ignore[attr-defined]
    cfg = CFG(new_fn)
    D, C = cfg.node_of(dstmt), cfg.node_of(cstmt)
    if D is None or C is None or D is C or not cfg.node_dominates(D, C):
        return fn, None
    starts = [s_ for s_, l in D.succs if l != "exc"]
    if not all(cfg.all_paths_pass(s_, [cfg.exit, D], [C]) for s_ in starts):
        return fn, None
    region = set()
    for s_ in starts:
        region |= cfg.reach(s_, avoid_nodes=[C])
    region.discard(C.id)
    region.discard(D.id)
    for n in cfg.nodes:
        if n.id in region and n.ast is not None and n.kind in ("stmt", "test"):
            for y in ast.walk(n.ast):
                if is_self_attr(y, attr) or (isinstance(y, ast.Call) and isinstance(y.func, ast.Attribute) and is_self_attr(y.func)):
                    return fn, None
    loads = [n for n in ast.walk(new_fn) if isinstance(n, ast.Name) and n.id == x and isinstance(n.ctx, ast.Load)]
    for n in loads:
        nd = cfg.node_of(n)
        if nd is None or not (nd is C or nd.id in region):
            return fn, None
    # rewrite
    def self_attr(ctx: ast.expr_context, like: ast.AST) -> ast.Attribute:
        return ast.copy_location(ast.Attribute(value=ast.copy_location(ast.Name(id="self", ctx=ast.Load()), like), attr=attr, ctx=ctx), like)

    class T(ast.NodeTransformer):
        def visit_Name(self, n: ast.Name) -> ast.AST:  # noqa: N802
            if n.id == x and isinstance(n.ctx, ast.Load):
                return self_attr(ast.Load(), n)
            return n

        def visit_Assign(self, n: ast.Assign) -> ast.AST:  # noqa: N802
            if n is cstmt:
                return ast.copy_location(ast.Pass(), n)
            if n is dstmt:
                return ast.copy_location(ast.Assign(targets=[self_attr(ast.Store(), n)], value=n.value), n)
            return self.generic_visit(n)

        def visit_AnnAssign(self, n: ast.AnnAssign) -> ast.AST:  # noqa: N802
            if n is dstmt:
                return ast.copy_location(ast.Assign(targets=[self_attr(ast.Store(), n)], value=n.value), n)
            return self.generic_visit(n)

    new_fn = ast.fix_missing_locations(T().visit(new_fn))
    for n in ast.walk(new_fn):
        for ch in ast.iter_child_nodes(n):
            ch._parent = n  # type: ignore[attr-defined]
    return new_fn, attr


# ---------------------------------------------------------------------
# R19.5: the premise of the exactness argument - the request stream is a buffered reader over a blocking socket
#
# socketserver.StreamRequestHandler.setup() (trusted stdlib semantics) does
#     self.connection = self.request
#     if self.timeout is not None: self.connection.settimeout(self.timeout)
#     self.rfile = self.connection.makefile('rb', self.rbufsize)        # class default rbufsize = -1
# and socket.makefile('rb', k) returns the raw socket.SocketIO for k == 0 and io.BufferedReader for every other k
# (None / negative: default size).  Only the BufferedReader over a blocking socket has `read(n)` returning fewer than
# n bytes at end of stream only.  The names `rbufsize`, `timeout`, `rfile`, `makefile`, `setblocking`, `settimeout`
# are stdlib API (roles, not spellings of this code base).

STREAM_HANDLER_BASES = {
    "socketserver.StreamRequestHandler",
    "http.server.BaseHTTPRequestHandler",
    "http.server.SimpleHTTPRequestHandler",
    "http.server.CGIHTTPRequestHandler",
}
# stdlib constants that may be named as a buffer size (only sign / zero-ness matters)
STDLIB_NUMBERS = {"io.DEFAULT_BUFFER_SIZE": 8192, "_io.DEFAULT_BUFFER_SIZE": 8192, "_pyio.DEFAULT_BUFFER_SIZE": 8192}
BUFFERED_CTORS = {"io.BufferedReader", "io.BufferedRandom", "io.BufferedRWPair", "io.BytesIO", "_io.BufferedReader", "_io.BufferedRandom", "_io.BufferedRWPair", "_io.BytesIO"}
RAW_CTORS = {"socket.SocketIO", "io.FileIO", "_io.FileIO"}
OPENERS = {"builtins.open", "io.open", "_io.open", "os.fdopen"}


class _Site(t.NamedTuple):
    attr: str
    value: ast.AST | None  # None: the bound value is not an expression of the statement (tuple target, for target, ...)
    stmt: ast.AST
    module: t.Any
    func: ast.AST | None  # innermost enclosing function
    cls: ast.ClassDef | None
    how: str  # "class attribute" | "attribute store" | "setattr" | "namespace entry" | "keyword"
    on_self: bool


def _scoped(tree: ast.AST) -> t.Iterator[tuple[ast.AST, ast.AST | None, ast.ClassDef | None, str | None]]:
    """(node, innermost enclosing function, enclosing class, name of `self` there) for every node of a module."""

    def rec(n: ast.AST, func: ast.AST | None, cls: ast.ClassDef | None, selfname: str | None) -> t.Iterator:
        for ch in ast.iter_child_nodes(n):
            yield ch, func, cls, selfname
            if isinstance(ch, ast.ClassDef):
                yield from rec(ch, None, ch, None)
            elif isinstance(ch, (ast.FunctionDef, ast.AsyncFunctionDef)):
                sn = selfname
                if func is None and cls is not None:  # a method: its first parameter is the instance
                    static = any((dotted(d) or "").rsplit(".", 1)[-1] in ("staticmethod", "classmethod") for d in ch.decorator_list)
                    sn = ch.args.args[0].arg if ch.args.args and not static else None
                yield from rec(ch, ch, cls, sn)
            else:
                yield from rec(ch, func, cls, selfname)

    yield from rec(tree, None, None, None)


def _class_body(node: ast.ClassDef) -> t.Iterator[ast.stmt]:
    """statements executed in the class body (both arms of conditionals, try blocks)."""

    def rec(stmts: list[ast.stmt]) -> t.Iterator[ast.stmt]:
        for st in stmts:
            yield st
            if isinstance(st, (ast.If, ast.Try, ast.With, ast.For, ast.While)):
                for f in ("body", "orelse", "finalbody"):
                    yield from rec(getattr(st, f, []) or [])
                for h in getattr(st, "handlers", []) or []:
                    yield from rec(h.body)

    yield from rec(node.body)


class StreamPremise:
    def __init__(self, ctx: t.Any, handler: t.Any, rule: str):
        from ..fold import Folder

        self.ctx = ctx
        self.repo = ctx.repo
        self.rule = rule
        self.handler = handler
        self.folder = Folder(self.repo)

    # -- values ----------------------------------------------------------
    def _subst_stdlib(self, module: t.Any, e: ast.AST, func: ast.AST | None) -> ast.AST:
        repo = self.repo
        li = module.local_imports(func) if func is not None else None

        class T(ast.NodeTransformer):
            def visit_Attribute(self, n: ast.Attribute) -> ast.AST:  # noqa: N802
                d = dotted(n)
                if d:
                    fq = repo.resolve(module, d, li)
                    if fq in STDLIB_NUMBERS:
                        return ast.copy_location(ast.Constant(STDLIB_NUMBERS[fq]), n)
                return self.generic_visit(n)

            def visit_Name(self, n: ast.Name) -> ast.AST:  # noqa: N802
                fq = repo.resolve(module, n.id, li) if (n.id in module.imports or (li and n.id in li)) else None
                if fq in STDLIB_NUMBERS:
                    return ast.copy_location(ast.Constant(STDLIB_NUMBERS[fq]), n)
                return n

        return T().visit(clone(e))

    def values(self, module: t.Any, e: ast.AST, env: dict[str, t.Any], func: ast.AST | None, depth: int = 0) -> list[t.Any]:
        """the values an expression can take, folded from constants (module-level names, class-level names in ``env``,
        single-assignment locals of ``func``); both arms of a conditional whose test does not fold.  Raises
        AnalysisError when some possible value is not a constant."""
        from .. import astq

        e2 = self._subst_stdlib(module, e, func)
        try:
            return [self.folder.expr(module, e2, env)]
        except Exception as exc:  # Unfoldable (an AnalysisError) or a type error inside the folded arithmetic
            if isinstance(e, ast.IfExp):
                return self.values(module, e.body, env, func, depth) + self.values(module, e.orelse, env, func, depth)
            if isinstance(e, ast.BoolOp):
                out: list[t.Any] = []
                for v in e.values:
                    out += self.values(module, v, env, func, depth)
                return out
            if func is not None and depth < 3:
                local = {}
                for nm in sorted({n.id for n in ast.walk(e) if isinstance(n, ast.Name)} - set(env)):
                    if nm in module.assigns:
                        continue
                    binds = astq.assigns_to(func, nm, nested=True)
                    if len(binds) == 1 and binds[0][1] is not None and isinstance(binds[0][0], (ast.Assign, ast.AnnAssign)):
                        vs = self.values(module, binds[0][1], env, func, depth + 1)
                        if len(vs) == 1:
                            local[nm] = vs[0]
                if local:
                    return self.values(module, e, {**env, **local}, func, depth + 1)
            raise AnalysisError(f"`{norm(e)}` does not fold to a constant ({exc})") from None

    @staticmethod
    def zero(v: t.Any) -> bool:
        return v is not None and isinstance(v, (int, float)) and v == 0

    def stream_kind(self, module: t.Any, e: ast.AST, func: ast.AST | None, depth: int = 0) -> tuple[str | None, str]:
        """'buffered' / 'raw' / None (cannot be followed) for an expression bound to rfile, with the reason."""
        from .. import astq

        li = module.local_imports(func) if func is not None else None
        if isinstance(e, ast.IfExp):
            a, wa = self.stream_kind(module, e.body, func, depth)
            b, wb = self.stream_kind(module, e.orelse, func, depth)
            if "raw" in (a, b):
                return "raw", wa if a == "raw" else wb
            return (None, wa if a is None else wb) if None in (a, b) else ("buffered", f"{wa}; {wb}")
        if isinstance(e, ast.Attribute) and e.attr == "raw":
            return "raw", f"`{norm(e)}` is the raw stream under a buffered reader"
        if isinstance(e, ast.Name) and func is not None and depth < 3:
            binds = astq.assigns_to(func, e.id, nested=True)
            if len(binds) == 1 and binds[0][1] is not None:
                return self.stream_kind(module, binds[0][1], func, depth + 1)
        if isinstance(e, ast.Call):
            d = dotted(e.func)
            fq = self.repo.resolve(module, d, li) if d else None
            if isinstance(e.func, ast.Attribute) and e.func.attr == "detach" and not e.args:
                return "raw", f"`{norm(e)}` detaches the raw stream"
            size: ast.AST | None = None
            sized = False
            if isinstance(e.func, ast.Attribute) and e.func.attr == "makefile":
                sized, size = True, astq.arg_or_kw(e, 1, "buffering")
            elif fq in OPENERS:
                sized, size = True, astq.arg_or_kw(e, 2, "buffering")
            if sized:
                if astq.has_double_star(e) or any(isinstance(a, ast.Starred) for a in e.args):
                    return None, f"`{norm(e)}`: buffering passed through * / **"
                if size is None:
                    return "buffered", f"`{norm(e)}`: default buffering"
                if isinstance(size, ast.Attribute) and size.attr == "rbufsize":
                    return "buffered", f"`{norm(e)}`: buffering is the `rbufsize` attribute, decided with its bindings"
                vs = self.values(module, size, {}, func)
                if any(self.zero(v) for v in vs):
                    return "raw", f"`{norm(e)}`: buffering {vs} (0 = unbuffered: the raw SocketIO / FileIO)"
                return "buffered", f"`{norm(e)}`: buffering {vs}"
            if fq in BUFFERED_CTORS:
                return "buffered", f"`{norm(e)}`"
            if fq in RAW_CTORS:
                return "raw", f"`{norm(e)}` is a raw stream: read(n) returns what one recv / read system call yields"
        return None, f"`{norm(e)}` is not a stream constructor this rule knows"

    # -- sites -------------------------------------------------------------
    def family(self) -> tuple[list[t.Any], list[str]]:
        mro = self.repo.mro(self.handler)
        own = [k for k in mro if hasattr(k, "node")]
        std = [k.fq for k in mro if not hasattr(k, "node")]
        for k in self.repo.subclasses(self.handler.fq):
            if k not in own:
                own.append(k)
                std += [b.fq for b in self.repo.mro(k) if not hasattr(b, "node") and b.fq not in std]
        return own, std

    def sites(self, fam_nodes: dict[int, t.Any]) -> list[_Site]:
        out: list[_Site] = []
        attrs = ("rbufsize", "rfile", "timeout")
        # class-level bindings of the family
        for k in fam_nodes.values():
            for st in _class_body(k.node):
                tgs: list[ast.AST] = []
                val: ast.AST | None = None
                if isinstance(st, ast.Assign):
                    tgs, val = list(st.targets), st.value
                elif isinstance(st, ast.AnnAssign) and st.value is not None:
                    tgs, val = [st.target], st.value
                elif isinstance(st, ast.AugAssign):
                    tgs, val = [st.target], None
                elif isinstance(st, (ast.For, ast.With)):
                    tgs = [st.target] if isinstance(st, ast.For) else [i.optional_vars for i in st.items if i.optional_vars is not None]
                for tg in tgs:
                    for a in attrs:
                        if isinstance(tg, ast.Name) and tg.id == a:
                            out.append(_Site(a, val, st, k.module, None, k.node, "class attribute", False))
                        elif not isinstance(tg, ast.Name) and any(isinstance(x, ast.Name) and x.id == a for x in ast.walk(tg)):
                            out.append(_Site(a, None, st, k.module, None, k.node, "class attribute", False))
        # stores anywhere in the package
        for m in self.repo.modules.values():
            if not any(a in m.source for a in ("rbufsize", "rfile")) and not any(k.module is m for k in fam_nodes.values()):
                continue
            handled: set[int] = set()
            for n, func, cls, selfname in _scoped(m.tree):
                in_family = cls is not None and id(cls) in fam_nodes
                known_other = cls is not None and not in_family and any(c.node is cls for c in m.classes.values())

                def relevant(obj: ast.AST, attr: str) -> tuple[bool, bool]:
                    on_self = isinstance(obj, ast.Name) and selfname is not None and obj.id == selfname
                    if attr == "timeout":
                        return on_self and in_family, on_self
                    if on_self and known_other:
                        return False, on_self  # an attribute of some other class that happens to have the same name
                    return True, on_self

                if isinstance(n, (ast.Assign, ast.AnnAssign, ast.AugAssign)):
                    tgs = list(n.targets) if isinstance(n, ast.Assign) else [n.target]
                    for tg in tgs:
                        if isinstance(tg, ast.Attribute) and tg.attr in attrs:
                            handled.add(id(tg))
                            rel, on_self = relevant(tg.value, tg.attr)
                            if rel:
                                val = None if isinstance(n, ast.AugAssign) else n.value
                                out.append(_Site(tg.attr, val, n, m, func, cls, "attribute store", on_self))
                elif isinstance(n, ast.Attribute) and n.attr in attrs and isinstance(n.ctx, ast.Store) and id(n) not in handled:
                    rel, on_self = relevant(n.value, n.attr)
                    if rel:
                        out.append(_Site(n.attr, None, n, m, func, cls, "attribute store", on_self))
                elif isinstance(n, ast.Call) and dotted(n.func) == "setattr" and len(n.args) == 3 and isinstance(n.args[1], ast.Constant) and n.args[1].value in attrs:
                    handled.add(id(n.args[1]))
                    rel, on_self = relevant(n.args[0], n.args[1].value)
                    if rel:
                        out.append(_Site(n.args[1].value, n.args[2], n, m, func, cls, "setattr", on_self))
                elif isinstance(n, ast.Call) and dotted(n.func) in ("getattr", "hasattr") and len(n.args) >= 2 and isinstance(n.args[1], ast.Constant):
                    handled.add(id(n.args[1]))  # a read
                elif isinstance(n, ast.Dict):
                    for k_, v_ in zip(n.keys, n.values):
                        if isinstance(k_, ast.Constant) and k_.value == "rbufsize":
                            handled.add(id(k_))
                            out.append(_Site("rbufsize", v_, n, m, func, cls, "namespace entry", False))
                elif isinstance(n, ast.keyword) and n.arg == "rbufsize":
                    out.append(_Site("rbufsize", n.value, n, m, func, cls, "keyword", False))
                elif isinstance(n, ast.Constant) and n.value == "rbufsize" and id(n) not in handled:
                    raise AnalysisError(f"{m.relpath}:{n.lineno}: the name 'rbufsize' is used as a string in a way this rule cannot follow")
        return out

    # -- the rule ------------------------------------------------------------
    def run(self) -> None:
        from ..cfg import cfg_of
        from ..loader import FuncInfo
        from .. import astq

        ctx, rule = self.ctx, self.rule
        fam, std = self.family()
        known_std = [b for b in std if b in STREAM_HANDLER_BASES]
        if not known_std:
            raise AnalysisError(f"{self.handler.fq}: no stdlib stream request handler among its bases {std} (where rfile comes from is not known)")
        ctx.floor(rule, "classes of the package in the request handler's hierarchy", len(fam), 1)
        fam_nodes = {id(k.node): k for k in fam}
        sites = self.sites(fam_nodes)

        def where_of(s: _Site) -> t.Any:
            ci = next((c for c in s.module.classes.values() if c.node is s.cls), None) if s.cls is not None else None
            if s.func is not None:
                qn = f"{ci.qualname}.{s.func.name}" if ci is not None else s.func.name  # type: ignore[attr-defined]
                return FuncInfo(s.module, s.func, qn, ci)
            return ci.fq if ci is not None else s.module.name

        def class_env(s: _Site) -> dict[str, t.Any]:
            env: dict[str, t.Any] = {}
            if s.how != "class attribute" or s.cls is None:
                return env
            for st in _class_body(s.cls):
                if st is s.stmt:
                    break
                if isinstance(st, ast.Assign) and len(st.targets) == 1 and isinstance(st.targets[0], ast.Name):
                    try:
                        vs = self.values(s.module, st.value, dict(env), None)
                    except AnalysisError:
                        env.pop(st.targets[0].id, None)
                        continue
                    if len(vs) == 1:
                        env[st.targets[0].id] = vs[0]
            return env

        def text(s: _Site) -> str:
            return norm(s.stmt) if not isinstance(s.stmt, ast.Dict) else "{..., 'rbufsize': " + (norm(s.value) if s.value is not None else "?") + "}"

        # (a) buffering requested from setup(): every binding of `rbufsize`
        per_class: dict[int, list[str]] = {id(k.node): [] for k in fam}
        per_class_ok: dict[int, bool] = {id(k.node): True for k in fam}
        n_other = 0
        for s in sites:
            if s.attr != "rbufsize":
                continue
            if s.value is None:
                raise AnalysisError(f"{s.module.relpath}:{getattr(s.stmt, 'lineno', '?')}: `{text(s)}` binds rbufsize in a way that is not a plain assignment")
            vs = self.values(s.module, s.value, class_env(s), s.func)
            bad = [v for v in vs if self.zero(v)]
            odd = [v for v in vs if v is not None and not isinstance(v, (int, float))]
            if odd:
                raise AnalysisError(f"`{text(s)}`: {odd[0]!r} is not a buffer size")
            fact = f"{s.how} `{text(s)}` gives {vs}" + ("; 0 makes setup() create rfile as the unbuffered socket.SocketIO, whose read(n) returns what one recv() yields: the de-chunker reports a valid chunk that spans two segments as truncated, and a Content-Length body comes back short" if bad else " (non-zero: makefile returns an io.BufferedReader)")
            if s.how == "class attribute" and s.cls is not None and id(s.cls) in per_class:
                per_class[id(s.cls)].append(fact)
                per_class_ok[id(s.cls)] = per_class_ok[id(s.cls)] and not bad
            else:
                n_other += 1
                ctx.ob(rule, "a buffer size bound to `rbufsize` outside the class bodies is not 0 either", not bad, fact, where_of(s), s.stmt, f"rbufsize {s.how} {text(s)}")
        for k in fam:
            ctx.ob(rule, f"{k.name} does not ask StreamRequestHandler.setup() for an unbuffered rfile (rbufsize is not 0)", per_class_ok[id(k.node)],
                   "; ".join(per_class[id(k.node)]) or f"{k.name} does not bind rbufsize (inherited; the stdlib default is -1 = buffered)", k.fq, None, f"rbufsize of {k.name}")

        # (b) rfile is what setup() made: every rebinding
        n_rfile = 0
        for s in sites:
            if s.attr != "rfile":
                continue
            n_rfile += 1
            if s.value is None:
                raise AnalysisError(f"{s.module.relpath}:{getattr(s.stmt, 'lineno', '?')}: `{text(s)}` rebinds rfile in a way that is not a plain assignment")
            kind, why = self.stream_kind(s.module, s.value, s.func)
            if kind is None:
                raise AnalysisError(f"{s.module.relpath}:{getattr(s.stmt, 'lineno', '?')}: rfile is rebound by `{text(s)}`: {why}")
            ctx.ob(rule, "a stream bound to `rfile` is a buffered reader", kind == "buffered", f"{s.how} {why}", where_of(s), s.stmt, f"rfile {s.how} {text(s)}")
        ctx.ob(rule, "the request stream read by the handler, the application and the de-chunker is the one setup() created, or a buffered reader", True,
               f"{n_rfile} rebinding(s) of `rfile` in the package, each classified above; {n_other} binding(s) of `rbufsize` outside class bodies" if n_rfile or n_other else "`rfile` is rebound nowhere in the package and `rbufsize` is bound nowhere outside class bodies", self.handler.fq, None, "rfile and rbufsize bindings enumerated")

        # (c) setup overrides still run the stdlib setup (or bind rfile themselves)
        for k in fam:
            fi = k.methods.get("setup")
            if fi is None:
                continue
            cfg = cfg_of(fi)
            through = []
            for n in cfg.nodes:
                if n.ast is None or n.kind not in ("stmt", "test"):
                    continue
                for x in ast.walk(n.ast):
                    if isinstance(x, ast.Call) and isinstance(x.func, ast.Attribute) and x.func.attr == "setup":
                        recv = x.func.value
                        via_super = isinstance(recv, ast.Call) and dotted(recv.func) == "super"
                        fq = self.repo.resolve(k.module, dotted(recv) or "", None) if dotted(recv) else None
                        if via_super or fq in STREAM_HANDLER_BASES or any(fq == c.fq for c in fam):
                            through.append(n)
                    if isinstance(x, ast.Attribute) and x.attr == "rfile" and isinstance(x.ctx, ast.Store):
                        through.append(n)
            ok = bool(through) and cfg.all_paths_pass(cfg.entry, [cfg.exit], through)
            if not ok:
                raise AnalysisError(f"{fi.qualname}: a path through the setup() override neither runs the inherited setup() nor binds rfile (where the request stream comes from is not known)")
            ctx.ob(rule, "a setup() override runs the inherited setup() (or binds rfile itself) on every path", ok, f"{len(through)} such statement(s), on every path to the normal exit", fi, fi.node, f"setup override of {k.name}")

        # (d) the socket under the reader stays blocking
        for k in fam:
            facts, okk = [], True
            for s in sites:
                if s.attr == "timeout" and s.cls is k.node:
                    if s.value is None:
                        raise AnalysisError(f"{s.module.relpath}:{getattr(s.stmt, 'lineno', '?')}: `{text(s)}` binds timeout in a way that is not a plain assignment")
                    vs = self.values(s.module, s.value, class_env(s), s.func)
                    bad = [v for v in vs if self.zero(v)]
                    okk = okk and not bad
                    facts.append(f"{s.how} `{text(s)}` gives {vs}" + ("; setup() passes it to settimeout(): 0 puts the connection in non-blocking mode, where a buffered read returns the bytes that happen to be there" if bad else ""))
            for nm, fi in k.methods.items():
                for c in astq.calls(fi.node):
                    if not (isinstance(c.func, ast.Attribute) and c.func.attr in ("setblocking", "settimeout") and len(c.args) + len(c.keywords) == 1):
                        continue
                    arg = c.args[0] if c.args else c.keywords[0].value
                    if is_self_attr(arg, "timeout"):
                        continue  # what setup() itself does; the attribute is decided above
                    vs = self.values(k.module, arg, {}, fi.node)
                    bad = [v for v in vs if (self.zero(v) if c.func.attr == "settimeout" else (not v))]
                    okk = okk and not bad
                    facts.append(f"`{norm(c)}` in {nm} with {vs}" + ("; the connection becomes non-blocking" if bad else ""))
            ctx.ob(rule, f"{k.name} leaves the connection blocking (timeout is not 0, no setblocking(False) / settimeout(0))", okk,
                   "; ".join(facts) or f"{k.name} neither binds timeout nor calls setblocking / settimeout (the stdlib default is timeout = None)", k.fq, None, f"blocking connection of {k.name}")


# ---------------------------------------------------------------------
# one concrete run of the chunk-size reader on a sample line


class _PyRaise(Exception):
    """evaluating a sample raised a builtin exception (e.g. int() of a non-number: ValueError)."""

    def __init__(self, name: str):
        super().__init__(name)
        self.name = name


_ASCII_SAFE_CODECS = {"latin1", "latin-1", "iso-8859-1", "iso8859-1", "l1", "cp819", "ascii", "us-ascii", "utf-8", "utf8", "cp1252"}
_EXC_BASES = {"ValueError": ("ValueError", "Exception", "BaseException"), "UnicodeDecodeError": ("UnicodeDecodeError", "UnicodeError", "ValueError", "Exception", "BaseException"),
              "IndexError": ("IndexError", "LookupError", "Exception", "BaseException"), "TypeError": ("TypeError", "Exception", "BaseException")}


class LineRun:
    """Follow a method of the de-chunker statement by statement with `self.<under>.readline()` answered by ONE sample
    line (bytes constant): assignments to locals, tests, returns and raises are executed on the sample's value - the
    small total evaluator ``ev`` plus bytes.decode (ASCII-compatible codecs; the samples are ASCII), int(text[, base])
    (a text int() refuses raises ValueError, which goes to the handler that covers it), split / partition / rstrip /
    lstrip / strip / replace, indexing and slicing, and calls of other methods of the class / functions of the module
    with known arguments (two levels).  ``fold``: module-level constants.  Result: ("return", value) | ("raise", name);
    AnalysisError when a step is outside that subset (never a guess)."""

    def __init__(self, under: str, methods: dict[str, ast.AST], functions: dict[str, ast.AST], fold: t.Callable[[ast.AST], t.Any] | None, cfg_of_node: t.Callable[[ast.AST], CFG]):
        self.under, self.methods, self.functions, self.fold, self.cfg_of_node = under, methods, functions, fold, cfg_of_node

    def run(self, fn: ast.AST, args: dict[str, t.Any], line: bytes, depth: int = 0, reads: list[int] | None = None) -> tuple[str, t.Any]:
        cfg = self.cfg_of_node(fn)
        env: dict[str, t.Any] = dict(args)
        reads = reads if reads is not None else [0]
        name = getattr(fn, "name", "?")

        def bind(x: ast.AST) -> tuple[bool, t.Any]:
            if isinstance(x, ast.Name):
                if x.id in env:
                    return True, env[x.id]
                if x.id == "self":
                    return False, None
                if self.fold is not None:
                    try:
                        return True, self.fold(x)
                    except Exception:
                        return False, None
                return False, None
            if isinstance(x, ast.Attribute) and not is_self_attr(x) and self.fold is not None and dotted(x) is not None:
                try:
                    return True, self.fold(x)
                except Exception:
                    return False, None
            if isinstance(x, ast.NamedExpr) and isinstance(x.target, ast.Name):
                v = ev(x.value, bind)
                env[x.target.id] = v
                return True, v
            if isinstance(x, ast.Subscript):
                v = ev(x.value, bind)
                try:
                    if isinstance(x.slice, ast.Slice):
                        lo, hi, st = (None if p is None else ev(p, bind) for p in (x.slice.lower, x.slice.upper, x.slice.step))
                        return True, v[lo:hi:st]
                    return True, v[ev(x.slice, bind)]
                except IndexError:
                    raise _PyRaise("IndexError")
                except (TypeError, KeyError):
                    raise Unknown(norm(x))
            if not isinstance(x, ast.Call):
                return False, None
            f = x.func
            if isinstance(f, ast.Attribute) and is_self_attr(f.value, self.under):
                if f.attr == "readline" and not x.args and not x.keywords:
                    reads[0] += 1
                    return True, (line if reads[0] == 1 else b"")
                raise Unknown(f"`{norm(x)}` on the underlying stream")
            d = dotted(f)
            if d == "int" and 1 <= len(x.args) <= 2 and all(k.arg == "base" for k in x.keywords) and "int" not in env:
                a = [ev(p, bind) for p in x.args] + [ev(k.value, bind) for k in x.keywords]
                if not isinstance(a[0], (str, bytes, int)) or (len(a) == 2 and not isinstance(a[1], int)):
                    raise Unknown(norm(x))
                try:
                    return True, int(*a)
                except ValueError:
                    raise _PyRaise("ValueError")
                except TypeError:
                    raise Unknown(norm(x))
            if isinstance(f, ast.Attribute) and is_self_attr(f) and f.attr in self.methods and depth < 2 and not x.keywords:
                callee = self.methods[f.attr]
                return True, self._call(callee, [ev(p, bind) for p in x.args], True, line, depth, reads)
            if isinstance(f, ast.Name) and f.id in self.functions and f.id not in env and depth < 2 and not x.keywords:
                return True, self._call(self.functions[f.id], [ev(p, bind) for p in x.args], False, line, depth, reads)
            if isinstance(f, ast.Attribute) and not x.keywords:
                meth = f.attr
                if meth in ("decode", "encode") and len(x.args) <= 1:
                    recv = ev(f.value, bind)
                    enc = ev(x.args[0], bind) if x.args else "utf-8"
                    if isinstance(recv, (bytes, str)) and isinstance(enc, str) and enc.lower().replace("_", "-") in _ASCII_SAFE_CODECS and all(c < 128 for c in (recv if isinstance(recv, bytes) else recv.encode("latin1", "replace"))):
                        if meth == "decode" and isinstance(recv, bytes):
                            return True, recv.decode("ascii")
                        if meth == "encode" and isinstance(recv, str):
                            return True, recv.encode("ascii")
                    raise Unknown(norm(x))
                if meth in ("split", "rsplit", "partition", "rpartition", "replace", "strip", "rstrip", "lstrip", "splitlines", "isdigit", "isalnum", "isspace", "find", "index", "count", "removesuffix", "removeprefix", "startswith", "endswith", "lower", "upper"):
                    recv = ev(f.value, bind)
                    a = [ev(p, bind) for p in x.args]
                    if isinstance(recv, (str, bytes)) and all(isinstance(p, (type(recv), int, tuple)) or p is None for p in a):
                        try:
                            r = getattr(recv, meth)(*a)
                        except ValueError:
                            raise _PyRaise("ValueError")
                        except TypeError:
                            raise Unknown(norm(x))
                        return True, (tuple(r) if isinstance(r, list) else r)
                    raise Unknown(norm(x))
            if d in ("bytes", "str") and len(x.args) == 2 and not x.keywords:
                recv, enc = ev(x.args[0], bind), ev(x.args[1], bind)
                if d == "str" and isinstance(recv, bytes) and isinstance(enc, str) and enc.lower().replace("_", "-") in _ASCII_SAFE_CODECS and all(c < 128 for c in recv):
                    return True, recv.decode("ascii")
                raise Unknown(norm(x))
            return False, None

        def covers(h: ast.ExceptHandler, exc: str) -> bool:
            if h.type is None:
                return True
            names = {(dotted(e_) or "?").rsplit(".", 1)[-1] for e_ in (h.type.elts if isinstance(h.type, ast.Tuple) else [h.type])}
            return bool(names & set(_EXC_BASES.get(exc, (exc, "Exception", "BaseException"))))

        n: Node = cfg.entry
        for _ in range(400):
            if n is cfg.exit:
                return ("return", None)
            if n is cfg.raise_exit:
                raise AnalysisError(f"{name}: the run on the sample line {line!r} leaves the function by an exception edge this rule does not follow")
            a = n.ast
            normal = [s for s, l in n.succs if l != "exc"]
            try:
                if n.kind in ("entry", "join") or (n.kind == "stmt" and isinstance(a, (ast.Pass, ast.Assert, ast.Global, ast.Nonlocal, ast.Import, ast.ImportFrom))):
                    pass
                elif n.kind == "handler" and isinstance(a, ast.ExceptHandler):
                    if a.name:
                        env[a.name] = None
                elif n.kind == "test":
                    c = bool(ev(a, bind))  # type: ignore[arg-type]
                    nxt = [s for s, l in n.succs if l == ("T" if c else "F")]
                    if len(nxt) != 1:
                        raise AnalysisError(f"{name}: no single successor of the test `{n.text()[:60]}`")
                    n = nxt[0]
                    continue
                elif n.kind == "stmt" and isinstance(a, ast.Return):
                    return ("return", ev(a.value, bind) if a.value is not None else None)
                elif n.kind == "stmt" and isinstance(a, ast.Raise):
                    nm = None
                    e_ = a.exc.func if isinstance(a.exc, ast.Call) else a.exc
                    if e_ is not None:
                        dd = dotted(e_)
                        nm = dd.rsplit(".", 1)[-1] if dd else None
                    return ("raise", nm or "?")
                elif n.kind == "stmt" and isinstance(a, (ast.Assign, ast.AnnAssign)):
                    if a.value is not None:
                        v = ev(a.value, bind)
                        for tg in a.targets if isinstance(a, ast.Assign) else [a.target]:
                            if isinstance(tg, ast.Name):
                                env[tg.id] = v
                            elif isinstance(tg, (ast.Tuple, ast.List)) and all(isinstance(e_, ast.Name) for e_ in tg.elts) and isinstance(v, tuple) and len(v) == len(tg.elts):
                                for e_, vi in zip(tg.elts, v):
                                    env[e_.id] = vi  # type: ignore[attr-defined]
                            elif is_self_attr(tg):
                                env["self." + tg.attr] = v  # type: ignore[attr-defined]
                            else:
                                raise Unknown(f"store into `{norm(tg)}`")
                elif n.kind == "stmt" and isinstance(a, ast.AugAssign) and isinstance(a.target, ast.Name):
                    env[a.target.id] = ev(ast.BinOp(left=ast.Name(id=a.target.id, ctx=ast.Load()), op=a.op, right=a.value), bind)
                elif n.kind == "stmt" and isinstance(a, ast.Expr):
                    if not isinstance(a.value, ast.Constant):
                        ev(a.value, bind)
                else:
                    raise Unknown(f"`{n.text()[:60]}`")
            except _PyRaise as pr:
                hs = [s for s, l in n.succs if l == "exc" and s.kind == "handler" and isinstance(s.ast, ast.ExceptHandler)]
                h = next((s for s in hs if covers(s.ast, pr.name)), None)  # type: ignore[arg-type]
                if h is None:
                    return ("raise", pr.name)
                n = h
                continue
            except Unknown as e:
                raise AnalysisError(f"{name}: on the sample size line {line!r} the step `{n.text()[:60]}` is outside the evaluable subset ({e})")
            if len(normal) != 1:
                raise AnalysisError(f"{name}: no single successor of `{n.text()[:60]}`")
            n = normal[0]
        raise AnalysisError(f"{name}: the run on the sample line {line!r} does not end")

    def _call(self, callee: ast.AST, args: list[t.Any], is_method: bool, line: bytes, depth: int, reads: list[int]) -> t.Any:
        a = callee.args  # type: ignore[attr-defined]
        names = [p.arg for p in a.posonlyargs + a.args]
        if is_method:
            names = names[1:]
        if a.vararg or a.kwarg or a.kwonlyargs or len(names) != len(args) or any(isinstance(x, (ast.Yield, ast.YieldFrom)) for x in ast.walk(callee)):
            raise Unknown(f"call of {getattr(callee, 'name', '?')} with {len(args)} argument(s)")
        how, val = self.run(callee, dict(zip(names, args)), line, depth + 1, reads)
        if how == "raise":
            raise _PyRaise(val)
        return val
