"""C02 - form data survives encode -> parse unchanged: transport fidelity clauses.

The round-trip equality itself (the decoder's state machine inverting the encoder on payload
bytes next to delimiters, codec behaviour, parse_options_header on special characters) is NOT
decided (DESIGN.md section 5).  Decided are structural necessary conditions, obtained by
interpreting the functions concerned over symbolic inputs (wzsa/rules/_c02_helpers.py: every
branch the scenario does not determine is explored both ways) and stating facts about what
comes out:

R2.1  MultiPartParser.parse: payloads reach their part unmodified, in order; names, filenames,
      headers are the event's own; arrival order is kept; the file container is rewound.
R2.2  MultipartDecoder.next_event: name / filename of the emitted part are the Content-Disposition
      parameters as parsed; File iff a filename parameter is present; header values are carried
      without transformation.
R2.3  what MultipartEncoder.send_event writes around content is what the decoder's patterns
      consume (sample boundary folded into both sides).
R2.4  stream_encode_multipart / encode_multipart / _iter_data: one part per value in order, the
      value's own bytes, every encoder chunk written unmodified and in order.
R2.5  urlencoded writer and readers agree (_urlencode, iter_multi_items, both parse_qsl calls).
R2.6  wiring: EnvironBuilder.get_environ and FormDataParser hand boundary, length, body and query
      string through unchanged; EnvironBuilder data intake, FileMultiDict.add_file and
      FileStorage.__init__ keep what the caller gave.
R2.7  the Content-Disposition line the encoder writes is read back by parse_options_header as
      exactly {name, filename}, on a finite family of values built from the reader's own delimiters.
"""

from __future__ import annotations

import ast
import typing as t

from ..fold import Folder
from ..loader import AnalysisError, ClassInfo, FuncInfo, Repo
from ..report import Ctx
from . import _c02_helpers as H
from ._c02_helpers import ExcVal, FileModel, Frame, Interp, Obj, Outcome, Raised, Scripted, T, cat_parts, fmt, sym

LEVEL_TEXT = (
    "Static decision of structural necessary conditions of C02 on /repo's current source, obtained by interpreting the source (ast) of the "
    "functions concerned over symbolic inputs - every condition the scenario leaves open is explored both ways, private helpers of the same "
    "module are followed to any depth, nothing of werkzeug is imported or run: (R2.1) MultiPartParser.parse, fed by a scripted decoder with "
    "fields and files in mixed order, payloads in several Data events, an empty part and events spread over several chunks, returns on every "
    "non-raising path self.cls(list of (name, value)) for the fields and self.cls(list of (name, FileStorage)) for the files in arrival order, "
    "with the events' own names, each field value = decode(payloads concatenated in order) and nothing else applied, utf-8 when the part declares "
    "no charset, each file container having received exactly the part's payloads in order followed by seek(0), FileStorage given that container, "
    "the event's filename, name and headers; only RequestEntityTooLarge may be raised; (R2.2) in state PART MultipartDecoder.next_event emits "
    "Field/File whose name and filename are the `name` / `filename` entries of parse_options_header(headers['content-disposition']) themselves, "
    "File exactly when the filename entry is present (is-None / membership test, not truthiness), headers = the parsed block, and header values "
    "are computed from the buffer by splitting (into lines while still bytes), utf-8 decoding and whitespace stripping only, and - evaluated on a constant header block "
    "of `Name: value` lines whose values contain no, one and several further colons (a name `dc:title`, a filename `C:...`, a URL, a leading and a trailing colon, an empty value) - "
    "every line comes out as (Name, value) cut at its FIRST colon only, without raising (a line without any colon is never written by the encoder and is not judged); (R2.3) with a sample boundary folded into both "
    "sides, what send_event writes for File/Field/Data/Epilogue is consumed by the decoder's own patterns: the part and the closing delimiter "
    "by every boundary pattern (non-final / final group), header lines end in a line break, contain no empty line, carry name (and filename "
    "for File only) verbatim in utf-8 and the event's other headers, header end + first-chunk prefix is exactly one match of the blank-line "
    "pattern, the prefix is exactly what one anchored match of the line-break pattern removes at DATA_START, later chunks are written and read "
    "from offset 0 unchanged, a part is accepted as the very first event, and the pattern whose match start ends a payload rejects near-copies "
    "of the delimiter (no line break in front, trailing text, truncated, other case, wrong number of dashes); (R2.4) stream_encode_multipart (dict and MultiDict input, with and without spill to a temporary file) sends "
    "Preamble, one Field/File per (key, value) in data order with repeated keys kept, text payload = value encoded with the charset the parser "
    "falls back to, file payload = the chunks read in order with filename and content type, a readable value without filename goes out as a plain field, Epilogue; every chunk send_event returns is in the "
    "returned stream once, in order, unmodified; the stream is rewound, the length is its size, the boundary given to the encoder is the one "
    "returned; encode_multipart returns (boundary, whole body); (R2.5) _urlencode passes to urllib's urlencode exactly the pairs of "
    "iter_multi_items(query) whose value is not None, in order, with a constant safe set free of & = + % # and space; iter_multi_items yields "
    "all pairs of a MultiDict, a mapping with list/tuple values and an iterable of pairs; FormDataParser._parse_urlencoded and sansio "
    "Request.args call parse_qsl on the whole text decoded as UTF-8 with keep_blank_values=True and default strict_parsing / encoding / "
    "max_num_fields / separator and give the returned list unmodified to the storage class; (R2.6) EnvironBuilder.get_environ puts the stream, "
    "str(length) and boundary returned by stream_encode_multipart(form + files) into wsgi.input / CONTENT_LENGTH / CONTENT_TYPE, the encoded "
    "_urlencode(form) with its length for urlencoded forms, _urlencode(args) into QUERY_STRING, also when multipart/form-data is only "
    "set as content type and there are no files; EnvironBuilder(data=mapping) stores every text value in the form per key in order and hands "
    "every file value (tuples complete, several uploads under one name) to files.add_file; FileMultiDict.add_file stores a FileStorage built "
    "from the caller's stream, field name, filename and, when one is given, content type (a guessed type never replaces an explicit one) and "
    "stores a FileStorage value as it is; FileStorage.__init__, interpreted as MultiPartParser.parse and add_file call it (stream, a filename that is not None, field name, "
    "headers or content type), holds on every path that very stream, field name and headers object (a given content type as its only Content-Type entry) and the given "
    "filename itself, passed through os.fsdecode / os.fspath / str only - whatever its text, so the discard of names like `<stderr>` can only apply to a name taken "
    "from the stream's `name` attribute when no filename is given (that case itself is not judged); FormDataParser.parse hands the encoded boundary "
    "option to the decoder and returns (stream, form, files) in that order, and routes urlencoded bodies to the urlencoded reader; (R2.7) the "
    "Content-Disposition line send_event writes for File(name=N, filename=F), with N and F taken in turn from a finite family - every "
    "punctuation character that occurs as a constant in parse_options_header or in the module-level patterns it uses placed inside, in front "
    "of and behind a word, parameter look-alikes such as `who; name=else`, RFC 2231 look-alikes, percent escapes (%0D %0A %5C %25 %3B %20), "
    "blanks, the empty string, non-ASCII text, upper case; never the characters the domain excludes - is read by parse_options_header, "
    "interpreted from its source on that constant, as exactly ('form-data', {name: N, filename: F}). It decides "
    "R2.1-R2.6 on all paths of the interpreted scenarios and R2.7 for the members of the family only (a finite sample of the domain, not all N, F). It does NOT decide the round-trip equality itself: that the decoder's state "
    "machine inverts the encoder on payload bytes next to delimiters and across chunk boundaries (C01 decides its chunking clauses, e.g. the "
    "search-offset typestate R1.2; the core is undecided there too), what parse_options_header does with values outside the R2.7 family (its unquoting chain is also decided under C06-R6.2), what "
    "Headers, urlencode/parse_qsl and the codecs do with special characters, what FileStorage.__init__ does when no filename is given (name taken from the stream),  size-limit accounting (C10), the declared-charset branch of "
    "get_part_charset, Request.form/files plumbing above FormDataParser.parse, and how a caller splits a part into Data events (an empty first "
    "Data event followed by payload is noted, not checked)."
)
TRUSTED = [
    "CPython ast and re (patterns folded from the source are run on delimiters folded from the source)",
    "os.fsdecode / os.fspath / str return a str argument unchanged",
    "the interpreter in wzsa/rules/_c02_helpers.py models python semantics for the subset the analysed functions use; anything outside it is ANALYSIS-ERROR",
    "urllib.parse.urlencode / parse_qsl, io.BytesIO, tempfile.TemporaryFile behave as documented for CPython 3.12",
    "urllib.parse.unquote / quote are called on constants when the interpreted source calls them on constants (same footing as re on folded constants)",
]
ASSUMPTIONS = [
    "calls that leave the analysed module (parse_options_header, Headers, FileStorage, stream factory, _wsgi_encoding_dance) are opaque and do not raise",
    "iteration over an opaque iterable is represented by one symbolic element",
    "scenario inputs are representative: two to five parts, up to two payload chunks per part, three stream chunks",
    "`==` / `in` between objects follows python's protocol where it can be read from the source: instances of a dataclass of the package are equal when they are of exactly the same class with equal fields, instances of a package class without __eq__ anywhere in its MRO (e.g. the NEED_DATA constant) are equal to themselves only, neither equals a builtin value; iter(callable, sentinel) calls the callable once per item asked for and stops at the first result equal to the sentinel",
    "a question the interpreter has to answer without a basis in the scenario (`==` between objects whose __eq__ it cannot read, a helper of another module abandoned half-way) is explored both ways, but a clause that fails only on such a path is reported as ANALYSIS-ERROR, not as a violation; the same holds for a value that went through a function outside the package that is neither modelled (bytearray, BytesIO, deque, functools.reduce / partial, itertools, operator, codecs.encode / decode, memoryview) nor named by a rule",
]

MP = "werkzeug.sansio.multipart"
FP = "werkzeug.formparser"
TEST = "werkzeug.test"
URLS = "werkzeug.urls"
STRUCT = "werkzeug.datastructures.structures"
SREQ = "werkzeug.sansio.request"

ALLOWED_RAISE = {"RequestEntityTooLarge"}


# ---------------------------------------------------------------------
# shared scenario pieces


def cls_of(repo: Repo, fq: str) -> ClassInfo:
    ci = repo.try_cls(fq)
    if ci is None:
        raise AnalysisError(f"class {fq} not found (slot)")
    return ci


def event(ip: Interp, repo: Repo, kind: str, **kw: t.Any) -> Obj:
    return ip.instantiate(cls_of(repo, f"{MP}.{kind}"), [], kw)


def scripted_headers(label: str, table: dict[str, t.Any], items: list | None = None) -> Scripted:
    """a Headers object of the scenario: case-insensitive get / [] / in over ``table``."""
    h = Scripted(label, cls_fq="werkzeug.datastructures.headers.Headers", items=items if items is not None else [])
    h.strict = True  # type: ignore[attr-defined]

    def low(k: t.Any) -> t.Any:
        return k.lower() if isinstance(k, str) else k

    def get(ip: Interp, a: list, k: dict) -> t.Any:
        key = low(a[0])
        if isinstance(key, T):
            raise H.Unsupported("Headers.get with a computed key")
        v = table.get(key, a[1] if len(a) > 1 else k.get("default"))
        ty = k.get("type", a[2] if len(a) > 2 else None)
        if ty is not None and v is not None:
            return ip.call(ty, [v], {})
        return v

    def getitem(ip: Interp, a: list, k: dict) -> t.Any:
        key = low(a[0])
        if key in table:
            return table[key]
        raise Raised(ExcVal("KeyError", (a[0],), KeyError), ip.cur)

    def update(ip: Interp, a: list, k: dict) -> t.Any:
        for src in a:
            for kv in ip.iterate(src if not isinstance(src, dict) else list(src.items())):
                key, v = kv
                table[low(key)] = v
                h.log.append(("set", key, v))
        return None

    def set_(ip: Interp, a: list, k: dict) -> t.Any:
        table[low(a[0])] = a[1]
        h.log.append(("set", a[0], a[1]))
        return None

    h.methods.update(get=get, __getitem__=getitem, __contains__=lambda ip, a, k: low(a[0]) in table, update=update, set=set_, add=set_)
    h.methods["__setitem__"] = set_
    h.methods["__iter__"] = lambda ip, a, k: list(h.items or [])

    def pop(ip: Interp, a: list, k: dict) -> t.Any:
        key = low(a[0])
        if key in table:
            return table.pop(key)
        if len(a) > 1:
            return a[1]
        raise Raised(ExcVal("KeyError", (a[0],), KeyError), ip.cur)

    def remove(ip: Interp, a: list, k: dict) -> t.Any:
        table.pop(low(a[0]), None)
        return None

    h.methods.update(pop=pop, remove=remove, copy=lambda ip, a, k: scripted_headers(label + "'", dict(table), list(h.items or [])),
                     to_wsgi_list=lambda ip, a, k: list(h.items or []))
    h.table = table  # type: ignore[attr-defined]
    return h


def src_loc(term: t.Any, fi: FuncInfo) -> tuple[FuncInfo, ast.AST]:
    """(function, node) where a term was built, when the interpreter recorded it"""
    src = getattr(term, "src", None) if isinstance(term, T) else None
    if src and src[0] is not None and getattr(src[0], "fi", None) is not None and src[1] is not None:
        return src[0].fi, src[1]
    return fi, fi.node


def first_impure(term: t.Any, allowed_ops: set[str]) -> T | None:
    """innermost-first search for an operator outside ``allowed_ops``"""
    if isinstance(term, T):
        for a in term.args:
            r = first_impure(a, allowed_ops)
            if r is not None:
                return r
        for _, a in term.kw:
            r = first_impure(a, allowed_ops)
            if r is not None:
                return r
        if not term.op.startswith("$") and term.op not in allowed_ops:
            return term
    elif isinstance(term, (tuple, list)):
        for a in term:
            r = first_impure(a, allowed_ops)
            if r is not None:
                return r
    return None


def alt(a: t.Any, b: t.Any) -> t.Any:
    return a if a is not None else b


def as_pairs(lst: t.Iterable[t.Any]) -> list:
    return [tuple(x) if isinstance(x, (tuple, list)) else x for x in lst]


def unwrap_list(v: t.Any) -> list | None:
    if isinstance(v, list):
        return v
    if isinstance(v, T) and v.op == "list":
        return list(v.args)
    return None


# functions outside the package that the rules reason about (what they do to their arguments is part of the clauses)
KNOWN_OUTSIDE = {
    "urllib.parse.urlencode", "urllib.parse.parse_qsl", "urllib.parse.quote", "urllib.parse.quote_plus", "urllib.parse.unquote", "urllib.parse.unquote_plus",
    "mimetypes.guess_type", "re.compile", "contextlib.suppress",
}


def foreign_ops(term: t.Any) -> set[str]:
    """operators of a term that are calls of functions outside the package which the interpreter keeps opaque and the rules do
    not know: `pkg.mod.name(...)` - not a method (`.name`), an attribute, an operator of the interpreter or a call inside werkzeug"""
    out = set()
    for op in H.ops_in(term):
        if "." in op and not op.startswith((".", "werkzeug.", "attr:", "binop:", "unary:", "super.")) and op not in KNOWN_OUTSIDE:
            out.add(op)
    return out


class Check:
    """collects the verdict of one clause over all outcomes of a scenario."""

    def __init__(self, ctx: Ctx, rule: str, fi: FuncInfo, instance: str, construct: str):
        self.ctx, self.rule, self.fi, self.instance, self.construct = ctx, rule, fi, instance, construct
        self.bad: list[tuple[str, t.Any]] = []
        self.good: list[str] = []
        self.unsure: list[str] = []

    def fail(self, why: str, term: t.Any = None, o: Outcome | None = None) -> None:
        if o is not None:
            why += f" [path: {o.assumptions()}]"
            if o.run.doubt:
                # the path exists only under an answer the interpreter made up for a question it does not model: it may be
                # impossible, so what was found on it is "not understood", never a violation
                self.unsure.append(f"{why} - but this path assumes an answer to `{o.run.doubt[0]}`, which is not modelled")
                return
        outside = foreign_ops(term)
        if outside:
            # the value went through a function outside the package that is kept opaque (not one the rules reason about): whether
            # that changes the value is not known
            self.unsure.append(f"{why} - but `{sorted(outside)[0]}` is a function outside the package that is not modelled")
            return
        self.bad.append((why, term))

    def ok(self, fact: str) -> None:
        if fact not in self.good:
            self.good.append(fact)

    def done(self) -> bool:
        if self.bad:
            why, term = self.bad[0]
            fi, node = src_loc(term, self.fi)
            more = f" (+{len(self.bad) - 1} more)" if len(self.bad) > 1 else ""
            return self.ctx.ob(self.rule, self.instance, False, why + more, fi if fi.module is self.fi.module else self.fi, node if fi.module is self.fi.module else self.fi.node, self.construct)
        if self.unsure:
            self.ctx.error(f"AnalysisError: {self.rule} {self.construct}: not decided: {self.unsure[0]}" + (f" (+{len(self.unsure) - 1} more)" if len(self.unsure) > 1 else ""))
            return False
        return self.ctx.ob(self.rule, self.instance, True, "; ".join(self.good[:3]) or "holds on every path", self.fi, self.fi.node, self.construct)


def returns(outs: list[Outcome]) -> list[Outcome]:
    return [o for o in outs if o.kind == "return"]


def check_raises(chk: Check, outs: list[Outcome], allowed: set[str] = ALLOWED_RAISE) -> None:
    for o in outs:
        if o.kind == "raise" and o.exc_name() not in allowed:
            chk.fail(f"a well-formed input makes the code raise {fmt(o.value)}", None, o)
    if not returns(outs):
        chk.fail("no path returns normally", None, next((o for o in outs if o.run.doubt), None))
    chk.ok(f"{len(returns(outs))} returning path(s), {len(outs) - len(returns(outs))} refused by a size limit")


def run(ctx: Ctx) -> None:
    repo = ctx.repo
    folder = Folder(repo)
    for rid, text in RULES.items():
        ctx.rule(rid, text)
    for rule in (rule_2_1, rule_2_2, rule_2_3, rule_2_4, rule_2_5, rule_2_6, rule_2_7):
        try:
            rule(ctx, repo, folder)
        except AnalysisError as e:
            # a shape one rule does not understand must not hide what the other rules report (exit 2 unless a violation is found)
            ctx.error(f"{type(e).__name__}: {e}")


RULES = {
    "R2.1": "MultiPartParser.parse: every Data payload reaches its part's container unmodified and in order; a field's value is the joined container decoded with the part charset (utf-8 when none is declared); a file's FileStorage gets the rewound container and the event's own name, filename and headers; fields and files keep arrival order and go to self.cls as they are",
    "R2.2": "MultipartDecoder.next_event: name and filename of the emitted Field/File are the `name` / `filename` parameters of parse_options_header(Content-Disposition) themselves, headers is the parsed header block, File iff a filename parameter is present; header values are carried without transformation other than whitespace stripping, each `Name: value` line being cut at its first colon only",
    "R2.3": "framing: each delimiter MultipartEncoder.send_event writes is consumed by every boundary pattern of the decoder (part vs. final form), header lines end in a line break and carry the name/filename parameters verbatim, the first payload chunk is prefixed with exactly one line break and the decoder removes exactly one by an anchored match, later chunks are written as they are, a part may be the first event, and the pattern that ends a payload rejects near-copies of the delimiter",
    "R2.4": "test client: stream_encode_multipart sends Preamble, then for every (key, value) of the data in order a Field/File event carrying key (and filename, content type) followed by Data events whose payloads concatenate to the value's own bytes (text encoded with the parser's fallback charset), then Epilogue; every chunk send_event returns is written unmodified and in order; the stream is rewound and its length reported; repeated keys are kept",
    "R2.5": "urlencoded: _urlencode drops only None values, keeps order and repeated keys (iter_multi_items), its safe set has no structural character; both readers call parse_qsl on the whole decoded text with keep_blank_values=True, default separator/limits/UTF-8, and hand the list unmodified to the multi-dict class",
    "R2.7": "Content-Disposition reader: for the header line MultipartEncoder.send_event writes for a File (name=N, filename=F), parse_options_header returns exactly ('form-data', {name: N, filename: F}) for every N, F of a finite family that places each delimiter character found as a constant in parse_options_header (and parameter look-alikes, percent escapes, blanks, non-ASCII, upper case) inside the quoted value",
    "R2.6": "wiring: EnvironBuilder.get_environ passes the stream, length and boundary of stream_encode_multipart (form and files) / the _urlencode'd form / the _urlencode'd args into wsgi.input, CONTENT_LENGTH, CONTENT_TYPE and QUERY_STRING; EnvironBuilder(data=...) stores text values in the form and hands file values complete to files.add_file; FileMultiDict.add_file keeps an explicit filename and content type; FileStorage.__init__ keeps the given stream, filename (any text), name and headers; FormDataParser hands the boundary option to the decoder and returns form and files in that order",
}


# ---------------------------------------------------------------------
# R2.1  parser side


PARTS_2_1 = [
    # kind, tag, payload tags (more_data of all but the last is True), declared content type
    ("Field", "0", ["D0"], True),  # a field that declares a content type: the parts after it must not inherit anything from it
    ("Field", "1", ["D1a", "D1b"], False),
    ("File", "2", ["D2a", "D2b"], True),
    ("Field", "3", ["D3"], False),
    ("File", "4", ["D4"], True),
    ("Field", "5", [], False),
]


def _parse_scenario(repo: Repo, parts=PARTS_2_1, entry: str = "parser"):
    """thunk running MultiPartParser.parse (or FormDataParser.parse for a multipart body) against a scripted decoder;
    returns (thunk, info) where info is filled per run"""
    info: dict[str, t.Any] = {}

    def thunk(ip: Interp) -> t.Any:
        evs: list[Obj] = [event(ip, repo, "Preamble", data=b"")]
        model = []
        for kind, tag, payloads, typed in parts:
            hdr = scripted_headers(f"H{tag}", {"content-type": sym(f"CT{tag}", "str", True)} if typed else {})
            name = sym(f"N{tag}", "str")
            rec = {"kind": kind, "name": name, "headers": hdr, "payloads": [sym(p, "bytes") for p in payloads], "tag": tag}
            if kind == "File":
                rec["filename"] = sym(f"F{tag}", "str")
                evs.append(event(ip, repo, "File", name=name, filename=rec["filename"], headers=hdr))
            else:
                evs.append(event(ip, repo, "Field", name=name, headers=hdr))
            pl = rec["payloads"] or [b""]
            for i, p in enumerate(pl):
                evs.append(event(ip, repo, "Data", data=p, more_data=i < len(pl) - 1))
            model.append(rec)
        evs.append(event(ip, repo, "Epilogue", data=b""))
        # three chunks, then the end signal: events are spread over the batches
        cut1 = min(3, len(evs) - 1)
        cut2 = max(cut1, len(evs) - 4)
        batches = [evs[:cut1], evs[cut1:cut2], evs[cut2:-1], evs[-1:]]
        need = ip.load_name("NEED_DATA", Frame(repo.module("sansio.multipart")))
        state = {"i": -1, "q": []}
        dec = Scripted("decoder", cls_fq=f"{MP}.MultipartDecoder")
        dec.strict = True  # type: ignore[attr-defined]

        def receive(ip_: Interp, a: list, k: dict) -> t.Any:
            state["i"] += 1
            dec.log.append(("receive_data", a[0]))
            state["q"] = list(batches[state["i"]]) if state["i"] < len(batches) else []
            return None

        def nxt(ip_: Interp, a: list, k: dict) -> t.Any:
            return state["q"].pop(0) if state["q"] else need

        dec.methods.update(receive_data=receive, next_event=nxt)

        def make(ip_: Interp, a: list, k: dict) -> t.Any:
            dec.log.append(("init", tuple(a), dict(k)))
            return dec

        ip.stubs[f"{MP}.MultipartDecoder"] = make
        chunks: list = [sym("C1", "bytes", True), sym("C2", "bytes", True), sym("C3", "bytes", True), b""]
        stream = Scripted("stream")
        stream.methods["read"] = lambda ip_, a, k: chunks.pop(0) if chunks else b""
        if entry == "formdata":
            self_ = Obj(cls_of(repo, f"{FP}.FormDataParser"), "self")
            bnd = sym("BND", "str", True)
            info.update(model=model, decoder=dec, self=self_, left=state, stream=stream, bnd=bnd)
            return ip.call(ip.getattr(self_, "parse"), [stream, "multipart/form-data", sym("CL", "int"), {"boundary": bnd}], {})
        self_ = Obj(cls_of(repo, f"{FP}.MultiPartParser"), "self")
        self_.attrs["buffer_size"] = 64 * 1024
        info.update(model=model, decoder=dec, self=self_, left=state)
        return ip.call(ip.getattr(self_, "parse"), [stream, sym("BOUNDARY", "bytes", True), sym("CL", "int")], {})

    return thunk, info


def _container_history(o: Outcome, container: t.Any) -> list[tuple[str, tuple]]:
    if isinstance(container, FileModel):
        return [(e[0], tuple(e[1:])) for e in container.log]
    out = []
    for tgt, meth, args, kwargs, res, _ in o.effects:
        if tgt is not None and isinstance(tgt, T) and isinstance(container, T) and tgt == container:
            out.append((meth, tuple(args)))
    return out


def rule_2_1(ctx: Ctx, repo: Repo, folder: Folder) -> None:
    fi = repo.func(f"{FP}.MultiPartParser.parse")
    ctx.saw(fi)
    thunk, info = _parse_scenario(repo)
    ip = Interp(repo, folder, open_modules={FP})
    snaps: list[tuple[Outcome, dict]] = []

    def wrapped(ip_: Interp) -> t.Any:
        try:
            return thunk(ip_)
        finally:
            snaps.append(dict(info))

    outs = ip.explore(wrapped)
    pairs = list(zip(outs, snaps))
    c_raise = Check(ctx, "R2.1", fi, "a well-formed event sequence is parsed (only size limits may refuse it)", "parse: completes")
    check_raises(c_raise, outs)
    c_fields = Check(ctx, "R2.1", fi, "fields: (name, value) pairs in arrival order, names are the events' own, handed to self.cls as a list", "parse: fields order and names")
    c_value = Check(ctx, "R2.1", fi, "field value = the part's payloads joined in order, decoded, nothing else applied", "parse: field value purity")
    c_cs = Check(ctx, "R2.1", fi, "a part without a declared charset is decoded as utf-8 (what the test client encodes text with)", "parse: fallback charset")
    c_files = Check(ctx, "R2.1", fi, "files: (name, FileStorage) pairs in arrival order with the event's own name, filename and headers", "parse: files order and identity")
    c_cont = Check(ctx, "R2.1", fi, "file container receives exactly the part's payloads in order and is rewound before it is handed over", "parse: file container writes and rewind")
    c_feed = Check(ctx, "R2.1", fi, "every event the decoder emits is consumed (none left behind, none skipped)", "parse: events consumed")
    n_ret = 0
    for o, snap in pairs:
        if o.kind != "return":
            continue
        n_ret += 1
        model = snap["model"]
        v = o.value
        if not (isinstance(v, tuple) and len(v) == 2):
            c_fields.fail(f"parse returns `{fmt(v)}`, not a (form, files) pair", v, o)
            continue
        form, files = v
        exp_fields = [m for m in model if m["kind"] == "Field"]
        exp_files = [m for m in model if m["kind"] == "File"]
        if snap["left"]["q"]:
            c_feed.fail(f"{len(snap['left']['q'])} decoder event(s) were never fetched", None, o)
        else:
            c_feed.ok("decoder drained")
        # ---- form
        fl = _cls_arg(form, snap["self"])
        if fl is None:
            c_fields.fail(f"form result `{fmt(form)}` is not self.cls(<list of pairs>)", form, o)
        else:
            names = [p[0] if isinstance(p, tuple) and len(p) == 2 else None for p in fl]
            if names != [m["name"] for m in exp_fields]:
                c_fields.fail(f"field names come back as {fmt(names)}, sent {fmt([m['name'] for m in exp_fields])}", fl if not isinstance(fl, list) else (fl[0] if fl else None), o)
            else:
                c_fields.ok(f"names {fmt(names)}")
                for (nm, val), m in zip(fl, exp_fields):
                    _check_field_value(c_value, c_cs, val, m, o)
        # ---- files
        gl = _cls_arg(files, snap["self"])
        if gl is None:
            c_files.fail(f"files result `{fmt(files)}` is not self.cls(<list of pairs>)", files, o)
            continue
        names = [p[0] if isinstance(p, tuple) and len(p) == 2 else None for p in gl]
        if names != [m["name"] for m in exp_files]:
            c_files.fail(f"file names come back as {fmt(names)}, sent {fmt([m['name'] for m in exp_files])}", None, o)
            continue
        for (nm, fs), m in zip(gl, exp_files):
            if not (isinstance(fs, T) and fs.op.endswith(".FileStorage")):
                c_files.fail(f"file value `{fmt(fs)}` is not a FileStorage", fs, o)
                continue
            kw = dict(fs.kw)
            if fs.args:
                c_files.fail(f"FileStorage arguments not understood: `{fmt(fs)}`", fs, o)
                continue
            want = {"filename": m["filename"], "name": m["name"]}
            for k, w in want.items():
                if k not in kw or not (isinstance(kw[k], T) and kw[k] == w):
                    c_files.fail(f"FileStorage {k} is `{fmt(kw.get(k))}`, the event's {k} is `{fmt(w)}`", kw.get(k) if isinstance(kw.get(k), T) else fs, o)
            hdr_ok = kw.get("headers") is m["headers"]
            ct = kw.get("content_type")
            ct_ok = isinstance(ct, T) and ct == m["headers"].table.get("content-type")
            if not (hdr_ok or ct_ok):
                c_files.fail(f"FileStorage gets headers=`{fmt(kw.get('headers'))}` content_type=`{fmt(ct)}`: the part's headers / content type are lost", fs, o)
            else:
                c_files.ok("FileStorage(stream=container, filename, name, headers) from the File event")
            cont = kw.get("stream")
            hist = _container_history(o, cont)
            writes = [a[0] for mth, a in hist if mth == "write"]
            if cont is None or not isinstance(cont, (T, FileModel)) or (isinstance(cont, T) and cont.uid is None):
                c_cont.fail(f"FileStorage stream `{fmt(cont)}` is not a container object created for the part", fs, o)
                continue
            flat: list = []
            for w in writes:
                flat.extend(cat_parts(w))
            if flat != m["payloads"]:
                c_cont.fail(f"container of part {fmt(m['name'])} received {fmt(writes)}, payloads were {fmt(m['payloads'])}", (writes[0] if writes and isinstance(writes[0], T) else fs), o)
                continue
            tail = [(mth, a) for mth, a in hist]
            last_write = max([i for i, (mth, _) in enumerate(tail) if mth == "write"], default=-1)
            after = tail[last_write + 1 :]
            rew = [x for x in after if x[0] == "seek"]
            others = [x for x in hist if x[0] not in ("write", "seek", "tell", "flush", "write-not-at-end")]
            if not rew or rew[-1][1][:1] != (0,) or (len(rew[-1][1]) > 1 and rew[-1][1][1] not in (0,)):
                c_cont.fail(f"container of part {fmt(m['name'])} is not rewound to 0 after the last write (history: {[x[0] for x in hist]})", fs, o)
            elif others:
                c_cont.fail(f"container of part {fmt(m['name'])}: unexpected operation {others[0][0]}{fmt(others[0][1])}", fs, o)
            else:
                c_cont.ok("write(payload)... then seek(0)")
    ctx.floor("R2.1", "returning paths of the parse scenario", n_ret, 1)
    for c in (c_raise, c_fields, c_value, c_cs, c_files, c_cont, c_feed):
        c.done()


def _cls_arg(v: t.Any, self_: Obj) -> list | None:
    """v = self.cls(<list>)  ->  the list"""
    return _storage_arg(v, self_.attrs.get("cls"))


def _storage_arg(v: t.Any, cls: t.Any, allow_empty: bool = False) -> list | None:
    """v = <storage class>(<list>) -> the list; the class is a symbolic attribute value or a class of the package"""
    if not isinstance(v, T):
        return None
    if isinstance(cls, T):
        if v.op != "call" or not v.args or v.args[0] != cls or v.kw:
            return None
        rest = v.args[1:]
    elif isinstance(cls, H.ClassVal):
        if v.op != cls.ci.fq:
            return None
        rest = tuple(v.args) + tuple(x for _, x in v.kw)
    else:
        return None
    if not rest:
        return [] if allow_empty else None
    if len(rest) != 1:
        return None
    return unwrap_list(rest[0])


def _check_field_value(c_value: Check, c_cs: Check, val: t.Any, m: dict, o: Outcome) -> None:
    if m["payloads"] == [] and val == "":
        c_value.ok("empty part -> ''")
        return
    if not (isinstance(val, T) and val.op == "dec"):
        bad = first_impure(val, {"dec", "cat"}) if isinstance(val, T) else None
        c_value.fail(f"value of field {fmt(m['name'])} is `{fmt(val)}`, expected decode(join(payloads))", alt(bad, val), o)
        return
    inner, cs, errors = val.args
    parts = cat_parts(inner)
    if parts != m["payloads"]:
        bad = first_impure(inner, {"cat"}) if isinstance(inner, T) else None
        c_value.fail(f"value of field {fmt(m['name'])} decodes `{fmt(inner)}`, the payloads were {fmt(m['payloads'])}", alt(bad, val), o)
    else:
        c_value.ok(f"decode({' + '.join(fmt(p) for p in parts) or 'b\"\"'})")
    if "content-type" not in m["headers"].table:
        if cs != "utf-8":
            c_cs.fail(f"field without declared charset is decoded with {cs!r}", val, o)
        else:
            c_cs.ok("fallback charset utf-8")


# ---------------------------------------------------------------------
# R2.2  decoder side: identity of the emitted part


def canon_item(v: t.Any) -> t.Any:
    """x.get(k) / x.get(k, None) / x[k]  ->  one `item` form, so that equivalent lookups compare equal"""
    if isinstance(v, T):
        args = tuple(canon_item(a) for a in v.args)
        if v.op == ".get" and len(args) in (2, 3) and (len(args) == 2 or args[2] is None) and not v.kw:
            return T("item", (args[0], args[1].lower() if isinstance(args[1], str) else args[1]))
        if v.op == "[]" and len(args) == 2:
            return T("item", (args[0], args[1].lower() if isinstance(args[1], str) else args[1]))
        if v.op == ".pop" and len(args) in (2, 3):
            return T("item", (args[0], args[1].lower() if isinstance(args[1], str) else args[1]))
        return T(v.op, args, tuple((k, canon_item(x)) for k, x in v.kw), uid=v.uid, pytype=v.pytype, src=v.src)
    if isinstance(v, tuple):
        return tuple(canon_item(a) for a in v)
    return v


def _decoder_self(ip: Interp, repo: Repo, state: str) -> Obj:
    dec = cls_of(repo, f"{MP}.MultipartDecoder")
    st = repo.module("sansio.multipart").classes.get("State")
    if st is None or state not in st.attrs:
        raise AnalysisError(f"State.{state} not found in sansio.multipart (slot)")
    o = Obj(dec, "self")
    o.attrs.update(
        state=H.EnumMember(st.fq, state), buffer=sym("buffer", "bytes", True), complete=False, boundary=sym("boundary", "bytes", True),
        max_form_memory_size=None, max_parts=None, _parts_decoded=0, _search_position=0,
    )
    return o


HEADER_VALUE_OPS = {
    # whitespace stripping, decoding, splitting name from value, iterating lines, the slice of the buffer, folding of continuation lines
    ".strip", ".lstrip", ".rstrip", "dec", ".partition", ".split", "[]", "elem", ".splitlines", ".sub", "slice", "bytes", ".start", ".search", ".end", ".match",
    "binop:FloorDiv", "binop:Add", "binop:Sub", "list", "str",
    # the position of the first separator (what is cut there is judged on a constant header block, _header_line_split), decoding of a piece whose
    # type the interpreter does not know (the charset is checked below)
    ".index", ".find", ".decode",
}


def _decode_charset(d: T) -> t.Any:
    """charset of a `.decode(...)` method term"""
    return H.norm_charset(dict(d.kw).get("encoding", d.args[1] if len(d.args) > 1 else "utf-8"))


def rule_2_2(ctx: Ctx, repo: Repo, folder: Folder) -> None:
    fi = repo.func(f"{MP}.MultipartDecoder.next_event")
    ctx.saw(fi)
    ip = Interp(repo, folder, open_modules={MP})
    holder: dict[str, t.Any] = {}

    def thunk(ip_: Interp) -> t.Any:
        holder["self"] = _decoder_self(ip_, repo, "PART")
        return ip_.call(ip_.getattr(holder["self"], "next_event"), [], {})

    outs = ip.explore(thunk)
    evs = [o for o in outs if o.kind == "return" and isinstance(o.value, Obj) and o.value.ci.name in ("Field", "File") and o.value.ci.module.name == MP]
    ctx.floor("R2.2", "paths of next_event (state PART) that emit a Field/File", len(evs), 2)
    c_name = Check(ctx, "R2.2", fi, "name of the emitted part is the `name` parameter of parse_options_header(headers['content-disposition'])", "next_event: part name")
    c_fn = Check(ctx, "R2.2", fi, "filename of an emitted File is the `filename` parameter; File iff that parameter is present (is not None)", "next_event: filename and File/Field choice")
    c_hdr = Check(ctx, "R2.2", fi, "the emitted part carries the parsed header block the Content-Disposition was read from", "next_event: headers identity")
    c_val = Check(ctx, "R2.2", fi, "header values reach the Headers object without transformation other than whitespace stripping", "_parse_headers: value purity")
    kinds = set()
    n_with_lines = 0
    for o in evs:
        ev = o.value
        kinds.add(ev.ci.name)
        hdr = ev.attrs.get("headers")
        name = canon_item(ev.attrs.get("name"))
        # expected: item(item(POH(item(hdr, 'content-disposition')), 1), 'name')
        poh = _find_poh(name)
        if poh is None:
            # the name may legitimately be None on a path that found no `name` parameter: look at what the path tested
            for _key, _val, _txt, terms in o.run.taken:
                for x in terms:
                    if poh is None:
                        poh = _find_poh(canon_item(x) if isinstance(x, T) else x)
        if poh is None:
            c_name.fail(f"part name `{fmt(ev.attrs.get('name'))}` is not derived from parse_options_header", ev.attrs.get("name"), o)
            continue
        poh_arg = dict(poh.kw).get("value", poh.args[0] if poh.args else None)
        exp_src = T("item", (canon_item(hdr), "content-disposition"))
        if not (isinstance(poh_arg, T) and poh_arg == exp_src):
            c_hdr.fail(f"parse_options_header is applied to `{fmt(poh_arg)}`, the emitted headers are `{fmt(hdr, 2)}`", poh_arg, o)
        else:
            c_hdr.ok("parse_options_header(headers['content-disposition']) of the emitted headers")
        extra = T("item", (poh, 1))
        absent = name is None and _assumed_in(o, "name", extra) is False
        if absent:
            c_name.ok("name = None when the options have no `name`")
        elif name != T("item", (extra, "name")):
            c_name.fail(f"part name is `{fmt(ev.attrs.get('name'))}`, expected the `name` parameter itself", alt(first_impure(ev.attrs.get("name"), {"[]", ".get", "werkzeug.http.parse_options_header"}), ev.attrs.get("name")), o)
        else:
            c_name.ok("name = options['name']")
        fterm_raw = None
        exp_fn = T("item", (extra, "filename"))
        if ev.ci.name == "File":
            fn = canon_item(ev.attrs.get("filename"))
            if fn != exp_fn:
                c_fn.fail(f"File.filename is `{fmt(ev.attrs.get('filename'))}`, expected the `filename` parameter itself", alt(first_impure(ev.attrs.get("filename"), {"[]", ".get", "werkzeug.http.parse_options_header"}), ev.attrs.get("filename")), o)
                continue
            fterm_raw = ev.attrs.get("filename")
        # which assumption separated File from Field?
        how = _assumption_about(o, exp_fn)
        if how is None:
            c_fn.fail(f"{ev.ci.name} is emitted without testing the filename parameter", None, o)
        else:
            kind_, val_ = how
            want_none = ev.ci.name == "Field"
            if kind_ == "in" and val_ == (not want_none):
                c_fn.ok(f"{ev.ci.name} when the filename parameter is {'absent' if want_none else 'present'}")
            elif kind_ == "in":
                c_fn.fail(f"{ev.ci.name} is emitted when `'filename' in options` is {val_}", fterm_raw, o)
            elif kind_ == "isnone" and val_ == want_none:
                c_fn.ok(f"{ev.ci.name} when filename is {'None' if want_none else 'not None'}")
            elif kind_ == "isnone":
                c_fn.fail(f"{ev.ci.name} is emitted when `filename is None` is {val_}", fterm_raw, o)
            else:
                c_fn.fail(f"File/Field is chosen by `{kind_}` of the filename parameter, not by its presence: an upload with filename=\"\" comes back as a field", fterm_raw, o)
        # header values
        if isinstance(hdr, T):
            # what the object holds: what its constructor was given and what the path put into it afterwards
            # (`headers = Headers()` ... `headers.add(name, value)`)
            put = [H.freeze(eff[2]) for eff in o.effects if isinstance(eff[0], T) and eff[0].uid is not None and eff[0].uid == hdr.uid
                   and eff[1] in ("add", "set", "__setitem__", "add_header", "extend", "update", "setlist", "setdefault")]
            content = (hdr.args, [x for _, x in hdr.kw], put)
            bad = first_impure(content, HEADER_VALUE_OPS)
            if not H.atoms_in(content):
                continue  # path on which the block has no header line
            n_with_lines += 1
            if "$buffer" not in {a.op for a in H.atoms_in(content)}:
                c_val.fail(f"headers `{fmt(hdr, 3)}` are not computed from the buffer", hdr, o)
            elif bad is not None:
                c_val.fail(f"header text goes through `{bad.op.lstrip('.')}`: `{fmt(bad, 4)}`", bad, o)
            elif any(isinstance(x.args[0], T) and x.args[0].pytype == "str" for x in _find_ops(content, ".splitlines")):
                x = [x for x in _find_ops(content, ".splitlines") if isinstance(x.args[0], T) and x.args[0].pytype == "str"][0]
                c_val.fail("the header block is split into lines after decoding: str.splitlines also splits at U+2028, U+2029, U+0085, VT, FF, FS-RS, which may occur in names and filenames", x, o)
            elif any(d.args[1] != "utf-8" for d in _find_ops(content, "dec")):
                d = [d for d in _find_ops(content, "dec") if d.args[1] != "utf-8"][0]
                c_val.fail(f"header lines are decoded as {d.args[1]!r}; the encoder writes names and filenames in utf-8", d, o)
            elif any(_decode_charset(d) != "utf-8" for d in _find_ops(content, ".decode")):
                d = [d for d in _find_ops(content, ".decode") if _decode_charset(d) != "utf-8"][0]
                c_val.fail(f"header lines are decoded as {_decode_charset(d)!r}; the encoder writes names and filenames in utf-8", d, o)
            else:
                c_val.ok("header lines: split, decoded, name/value separated, stripped")
        else:
            c_val.fail(f"headers of the emitted part are `{fmt(hdr)}`", None, o)
    if kinds != {"Field", "File"}:
        c_fn.fail(f"state PART emits only {sorted(kinds)}")
    if not n_with_lines and not c_val.bad:
        raise AnalysisError("R2.2: no path of the header parser produced a header line (shape not understood)")
    for c in (c_name, c_fn, c_hdr, c_val):
        c.done()
    _header_line_split(ctx, repo, folder, fi)


# header lines as the encoder writes them (`Name: value`), with 1 and with several colons: the value of a Content-Disposition
# line holds the field name and the filename, which may contain colons (`dc:title`, `C:notes.txt`), a Content-Type may
# carry parameters with colons.  A line without any colon is never written by the encoder and is not judged.
HEADER_SAMPLE_LINES = [
    ("Content-Disposition", 'form-data; name="dc:title"; filename="C:n\u00f6tes: v2.txt"'),
    ("Content-Type", "text/plain; charset=utf-8"),
    ("X-Stamp", "10:20:30"),
    ("X-Lead", ":a"),
    ("X-Trail", "a:"),
    ("X-Url", "http://example.org:8080/a?b=c"),
    ("X-Empty", ""),
]


def _pairs_of_term(v: t.Any) -> list[tuple[t.Any, t.Any]] | None:
    """a constructor argument that is a list / tuple of pairs or a dict -> the pairs"""
    if isinstance(v, T) and v.op in ("list", "tuple"):
        v = v.args
    if isinstance(v, T) and v.op == "dict":
        return [(k, x) for k, x in v.args]
    if isinstance(v, dict):
        return list(v.items())
    if isinstance(v, (list, tuple)) and all(isinstance(x, (tuple, list)) and len(x) == 2 for x in v):
        return [(x[0], x[1]) for x in v]
    return None


def _header_pairs(hdr: t.Any, o: Outcome) -> list[tuple[t.Any, t.Any]] | None:
    """the (name, value) pairs an emitted Headers object holds: what its constructor was given, followed by what the path
    added to it afterwards (add / set / item assignment / extend / update)"""
    if not (isinstance(hdr, T) and hdr.op.endswith(".Headers")):
        return None
    pairs: list[tuple[t.Any, t.Any]] = []
    given = [*hdr.args, *[x for _, x in hdr.kw]]
    for a in given:
        got = _pairs_of_term(a)
        if got is None:
            return None
        pairs += got
    for eff in o.effects:
        target, meth, args = eff[0], eff[1], eff[2]
        if not (isinstance(target, T) and target.uid is not None and target.uid == hdr.uid):
            continue
        if meth in ("add", "set", "__setitem__", "add_header") and len(args) == 2 and not eff[3]:
            pairs.append((args[0], args[1]))
        elif meth in ("extend", "update") and len(args) == 1 and _pairs_of_term(H.freeze(args[0])) is not None:
            pairs += _pairs_of_term(H.freeze(args[0]))  # type: ignore[operator]
        elif meth in ("get", "__getitem__", "__contains__", "getlist", "keys", "items", "values", "__iter__", "__len__", "get_all"):
            continue
        else:
            return None
    return pairs


def _header_line_split(ctx: Ctx, repo: Repo, folder: Folder, fi: FuncInfo) -> None:
    """state PART on a constant header block: every line `Name: value` comes out as (Name, value) with the value being
    everything after the FIRST colon"""
    c = Check(ctx, "R2.2", fi, "a header line `Name: value` is separated at its first colon only: the value keeps every later colon (names and filenames such as `dc:title`, `C:notes.txt` travel inside the Content-Disposition value)", "_parse_headers: name/value separation")
    block = b"".join(f"{n}: {v}\r\n".encode("utf-8") for n, v in HEADER_SAMPLE_LINES) + b"\r\nPAYLOAD"
    want = [(n, v) for n, v in HEADER_SAMPLE_LINES]
    ip = Interp(repo, folder, open_modules={MP})

    def thunk(ip_: Interp) -> t.Any:
        s = _decoder_self(ip_, repo, "PART")
        s.attrs["buffer"] = bytearray(block)
        return ip_.call(ip_.getattr(s, "next_event"), [], {})

    outs = ip.explore(thunk)
    evs = [o for o in outs if o.kind == "return" and isinstance(o.value, Obj) and o.value.ci.name in ("Field", "File") and o.value.ci.module.name == MP]
    if not evs:
        rs = [o for o in outs if o.kind == "raise"]
        if rs:
            o = rs[0]
            c.fail(f"the header block {block[:-9]!r} (lines as the encoder writes them, values with one and with several colons) makes the decoder raise {fmt(o.value)} instead of emitting the part", T("raise", (), src=o.where) if o.where else None, o)
            c.done()
            return
        raise AnalysisError("R2.2: state PART on a constant header block neither emits a part nor raises (shape not understood)")
    n = 0
    for o in evs:
        pairs = _header_pairs(o.value.attrs.get("headers"), o)
        if pairs is None or any(H._has_term(x) for kv in pairs for x in kv):
            raise AnalysisError(f"R2.2: headers of the part emitted for a constant header block are `{fmt(o.value.attrs.get('headers'), 3)}`: not a Headers object built from constant (name, value) pairs (shape not understood)")
        n += 1
        got = [(k, v) for k, v in pairs]
        if got == want:
            c.ok(f"{len(want)} lines (values with 0, 1 and several colons after the separator) -> (name, value) at the first colon")
            continue
        diff = next(((w, g) for w, g in zip(want, got) if w != g), None)
        if diff is not None:
            (wn, wv), (gn, gv) = diff
            c.fail(f"the line `{wn}: {wv}` is parsed as ({gn!r}, {gv!r}), expected ({wn!r}, {wv!r})", None, o)
        else:
            c.fail(f"{len(want)} header lines give {len(got)} headers: {got!r}", None, o)
    ctx.floor("R2.2", "paths that emit a part for the constant header block", n, 1)
    c.done()


def _assumed_in(o: Outcome, key: str, container: T) -> bool | None:
    for k, val, txt, terms in o.run.taken:
        if k[0] == "in" and len(terms) == 2 and terms[0] == key and isinstance(terms[1], T) and canon_item(terms[1]) == container:
            return val
    return None


def _find_poh(v: t.Any) -> T | None:
    if isinstance(v, T):
        if v.op == "werkzeug.http.parse_options_header":
            return v
        for a in v.args:
            r = _find_poh(a)
            if r is not None:
                return r
    return None


def _assumption_about(o: Outcome, term: T) -> tuple[str, bool] | None:
    """the decision of this path whose subject is `term` (compared after canon_item)"""
    found = None
    for key, val, txt, terms in o.run.taken:
        for part in terms:
            if isinstance(part, T) and canon_item(part) == term:
                found = (key[0], val)
        if key[0] == "in" and len(terms) == 2 and isinstance(terms[0], str) and isinstance(terms[1], T) and term.op == "item" and canon_item(terms[1]) == term.args[0] and terms[0].lower() == term.args[1]:
            # `key in options` (or a KeyError caught): a presence test; absence settles the question, presence may be followed by a None test
            if found is None or val is False:
                found = ("in", val)
    return found


# ---------------------------------------------------------------------
# R2.3  framing: what the encoder writes vs. what the decoder's patterns consume

SAMPLE_BOUNDARY = b"Bo.un+dary-7_x"
SAMPLES: dict[str, t.Any] = {
    "N1": "näme one", "F1": "fïle 1.txt", "N2": "name2", "N3": "n3", "HN": "X-Sample", "HV": "sample/value; x=1",
    "D1": b"PAYLOAD-1\r\n--", "D2": b"-2-", "D4": b"4", "P": b"", "E": b"",
}


def _roles_of_decoder(ctx: Ctx, repo: Repo, folder: Folder) -> dict[str, t.Any]:
    """regexes of the decoder by role: `blank` = searched for the end of the header block (state PART), `lb` = matched in
    front of a part body (state DATA_START); `start_term` = payload start of the first chunk, `cont_start` of later ones"""
    roles: dict[str, t.Any] = {}
    fi = repo.func(f"{MP}.MultipartDecoder.next_event")
    ip = Interp(repo, folder, open_modules={MP})

    def run_state(state: str) -> list[Outcome]:
        def thunk(ip_: Interp) -> t.Any:
            s = _decoder_self(ip_, repo, state)
            return ip_.call(ip_.getattr(s, "next_event"), [], {})

        return ip.explore(thunk)

    for o in run_state("PART"):
        if o.kind == "return" and isinstance(o.value, Obj) and o.value.ci.name in ("Field", "File"):
            for key, val, txt, terms in o.run.taken:
                if key[0] in ("isnone", "truth") and isinstance(terms[0], T) and terms[0].op in (".search", ".match") and isinstance(terms[0].args[0], H.RegexVal):
                    roles.setdefault("blank", terms[0].args[0])
    starts: dict[str, list] = {"DATA_START": [], "DATA": []}
    for state in ("DATA_START", "DATA"):
        for o in run_state(state):
            if o.kind == "return" and isinstance(o.value, Obj) and o.value.ci.name == "Data":
                d = o.value.attrs.get("data")
                sl = _payload_slice(d)
                if sl is None:
                    raise AnalysisError(f"R2.3: payload of the Data event in state {state} is `{fmt(d)}`: not a slice of the buffer (shape not understood)")
                starts[state].append((sl, o))
    roles["starts"] = starts
    return roles


def _is_buffer(v: t.Any) -> bool:
    """the decoder's buffer, or a bytes() / memoryview() copy of it"""
    if isinstance(v, T) and v.op in ("bytes", "memoryview", "bytearray") and len(v.args) == 1:
        v = v.args[0]
    return isinstance(v, T) and v.op == "$buffer"


def _anchored_match_end(lo: t.Any) -> T | None:
    """lo = <rx>.match(buffer[, 0]).end() / .span()[1] / len(m.group()) / len(m[0])  ->  the match term"""
    m = None
    if isinstance(lo, T) and lo.op == ".end" and len(lo.args) in (1, 2) and (len(lo.args) == 1 or lo.args[1] == 0):
        m = lo.args[0]
    elif isinstance(lo, T) and lo.op == "[]" and lo.args[1] == 1 and isinstance(lo.args[0], T) and lo.args[0].op == ".span" and len(lo.args[0].args) in (1, 2):
        m = lo.args[0].args[0]
    elif isinstance(lo, T) and lo.op == "len" and isinstance(lo.args[0], T):
        g = lo.args[0]
        if g.op == ".group" and (len(g.args) == 1 or (len(g.args) == 2 and g.args[1] == 0)):
            m = g.args[0]
        elif g.op == "[]" and g.args[1] == 0:
            m = g.args[0]
    if isinstance(m, T) and m.op == ".match" and len(m.args) in (2, 3) and isinstance(m.args[0], H.RegexVal) and _is_buffer(m.args[1]) and (len(m.args) == 2 or m.args[2] == 0) and not m.kw:
        return m
    return None


def _near_copies(ctx: Ctx, ne: FuncInfo, roles: dict, dec: Obj) -> None:
    """the pattern whose match start ends a payload must not match near-copies of the delimiter inside a payload"""
    attrs: set[str] = set()
    for state in ("DATA_START", "DATA"):
        for (lo, hi), o in roles["starts"][state]:
            if isinstance(hi, T) and hi.op == "[]" and hi.args[1] == 0 and isinstance(hi.args[0], T) and hi.args[0].op == ".span":
                hi = T(".start", (hi.args[0].args[0],))
            if isinstance(hi, T) and hi.op == ".start" and isinstance(hi.args[0], T) and hi.args[0].op == ".search":
                rx = hi.args[0].args[0]
                if isinstance(rx, T) and rx.op.startswith("$self."):
                    attrs.add(rx.op[len("$self."):])
    pats = {a: dec.attrs[a] for a in attrs if isinstance(dec.attrs.get(a), H.RegexVal)}
    if not pats:
        raise AnalysisError("R2.3: the pattern that ends a payload (search(...).start() as the end of the Data slice) was not found by role")
    b = SAMPLE_BOUNDARY
    negatives = [
        ("not preceded by a line break", b"x--" + b + b"\r\n"),
        ("followed by other text on the line", b"\r\n--" + b + b"x\r\n"),
        ("last boundary character missing", b"\r\n--" + b[:-1] + b"\r\n"),
        ("letter case changed", b"\r\n--" + b.swapcase() + b"\r\n"),
        ("one leading dash", b"\r\n-" + b + b"\r\n"),
        ("one trailing dash", b"\r\n--" + b + b"-\r\n"),
        ("a character of the boundary replaced", b"\r\n--" + b.replace(b".", b"X") + b"\r\n"),
    ]
    c = Check(ctx, "R2.3", ne, "the pattern that ends a payload does not match near-copies of the delimiter inside a payload (no line break in front, extra text, truncated, other case, wrong dashes)", "decoder: near-copies of the delimiter")
    for attr, rx in sorted(pats.items()):
        for why, neg in negatives:
            m = rx.compiled.search(b"payload " + neg + b"tail")
            if m is not None:
                c.fail(f"pattern {attr} = {rx.rx.pattern!r} takes {neg!r} ({why}) inside a payload for a delimiter: the part is cut there")
            else:
                c.ok(f"{attr} rejects {len(negatives)} near-copies")
    c.done()


def _payload_slice(d: t.Any) -> tuple[t.Any, t.Any] | None:
    """bytes(buffer[lo:hi]) -> (lo, hi)"""
    if isinstance(d, T) and d.op == "bytes" and len(d.args) == 1:
        d = d.args[0]
    if isinstance(d, T) and d.op == "[]" and _is_buffer(d.args[0]):
        idx = d.args[1]
        if isinstance(idx, T) and idx.op == "slice":
            return idx.args[0], idx.args[1]
        if isinstance(idx, slice):
            return idx.start, idx.stop
    return None


def rule_2_3(ctx: Ctx, repo: Repo, folder: Folder) -> None:
    fi = repo.func(f"{MP}.MultipartEncoder.send_event")
    ne = repo.func(f"{MP}.MultipartDecoder.next_event")
    ctx.saw(fi, ne)
    ip = Interp(repo, folder, open_modules={MP})
    # decoder patterns for the sample boundary
    holder: dict[str, t.Any] = {}

    def mk(ip_: Interp) -> t.Any:
        holder["dec"] = ip_.instantiate(cls_of(repo, f"{MP}.MultipartDecoder"), [SAMPLE_BOUNDARY], {})
        return None

    o0 = ip.explore(mk)
    if len(o0) != 1 or o0[0].kind != "return":
        raise AnalysisError("R2.3: MultipartDecoder.__init__ is not straight-line for a bytes boundary (shape not understood)")
    import re as _re

    esc = _re.escape(SAMPLE_BOUNDARY)
    brx = {k: v for k, v in holder["dec"].attrs.items() if isinstance(v, H.RegexVal) and esc in v.rx.pattern}
    ctx.floor("R2.3", "decoder patterns containing the boundary", len(brx), 1)
    roles = _roles_of_decoder(ctx, repo, folder)
    blank: H.RegexVal | None = roles.get("blank")
    # --- the decoder strips exactly one line break in front of a part body, by an anchored match
    c_strip = Check(ctx, "R2.3", ne, "in front of a part body the decoder removes what one anchored match of its line-break pattern covers; later chunks start at 0", "decoder: line break stripped at DATA_START")
    lb: H.RegexVal | None = None
    for (lo, hi), o in roles["starts"]["DATA_START"]:
        mt = _anchored_match_end(lo)
        if mt is None and lo == 0 and not isinstance(lo, bool):
            # `(start and m.end()) or 0`: on the path that took the match end for falsy the offset IS the match end (0)
            for key, val, txt, terms in o.run.taken:
                if key[0] == "truth" and val is False and _anchored_match_end(terms[0]) is not None:
                    mt = _anchored_match_end(terms[0])
        if mt is not None:
            lb = mt.args[0]
            c_strip.ok(f"payload starts at {fmt(lo)}")
        else:
            c_strip.fail(f"first chunk of a part starts at `{fmt(lo)}`, expected <line-break pattern>.match(buffer).end()", lo, o)
    for (lo, hi), o in roles["starts"]["DATA"]:
        if lo not in (0, None):
            c_strip.fail(f"a later chunk starts at `{fmt(lo)}`, expected 0", lo, o)
    if not roles["starts"]["DATA_START"] or not roles["starts"]["DATA"]:
        raise AnalysisError("R2.3: next_event emits no Data event in state DATA_START / DATA (shape not understood)")
    c_strip.done()
    _near_copies(ctx, ne, roles, holder["dec"])
    if lb is None and c_strip.bad:
        return  # reported above; the encoder cannot be compared with a pattern that was not found
    if lb is None or blank is None:
        if lb is None and not c_strip.bad:
            raise AnalysisError("R2.3: line-break pattern of the decoder not found by role")
        if blank is None:
            raise AnalysisError("R2.3: blank-line pattern of the decoder not found by role")
    # --- the encoder
    snaps: list[list] = []

    def thunk(ip_: Interp) -> t.Any:
        enc = ip_.instantiate(cls_of(repo, f"{MP}.MultipartEncoder"), [SAMPLE_BOUNDARY], {})
        h1 = scripted_headers("Hf", {}, items=[(sym("HN", "str", True), sym("HV", "str", True))])
        h0a, h0b = scripted_headers("H0a", {}), scripted_headers("H0b", {})
        seq = [
            ("preamble", event(ip_, repo, "Preamble", data=sym("P", "bytes"))),
            ("file", event(ip_, repo, "File", name=sym("N1", "str", True), filename=sym("F1", "str", True), headers=h1)),
            ("first", event(ip_, repo, "Data", data=sym("D1", "bytes", True), more_data=True)),
            ("later", event(ip_, repo, "Data", data=sym("D2", "bytes"), more_data=False)),
            ("field", event(ip_, repo, "Field", name=sym("N2", "str", True), headers=h0a)),
            ("first-empty", event(ip_, repo, "Data", data=b"", more_data=False)),
            ("field", event(ip_, repo, "Field", name=sym("N3", "str", True), headers=h0b)),
            ("first", event(ip_, repo, "Data", data=sym("D4", "bytes", True), more_data=False)),
            ("epilogue", event(ip_, repo, "Epilogue", data=sym("E", "bytes"))),
        ]
        out = []
        snaps.append(out)
        for role, ev in seq:
            out.append((role, ev, ip_.call(ip_.getattr(enc, "send_event"), [ev], {})))
        return out

    outs = ip.explore(thunk)
    c_run = Check(ctx, "R2.3", fi, "the encoder accepts Preamble, File, Data..., Field, Data, Epilogue in this order", "encoder: accepts the event sequence")
    check_raises(c_run, outs, set())
    c_run.done()
    c_delim = Check(ctx, "R2.3", fi, "the delimiter in front of a part is consumed, in its non-final form, by every boundary pattern of the decoder", "encoder: part delimiter vs decoder patterns")
    c_final = Check(ctx, "R2.3", fi, "the closing delimiter is consumed, in its final form, by every boundary pattern of the decoder", "encoder: final delimiter vs decoder patterns")
    c_head = Check(ctx, "R2.3", fi, "header block: lines end in a line break the decoder knows, no empty line inside, Content-Disposition carries name (and filename for a File only) verbatim in utf-8, other headers are written as `name: value`", "encoder: header block")
    c_first = Check(ctx, "R2.3", fi, "first chunk of a part: exactly one line break the decoder strips, then the payload itself (an empty first chunk may write nothing)", "encoder: first chunk prefix")
    c_later = Check(ctx, "R2.3", fi, "later chunks are written as they are", "encoder: later chunks")
    c_blank = Check(ctx, "R2.3", fi, "the last header line break plus the line break in front of the body is exactly one match of the decoder's blank-line pattern, and none occurs earlier", "encoder: blank line before the body")
    assert lb is not None and blank is not None
    for o in returns(outs):
        seq = o.value
        samples = dict(SAMPLES)
        # sample values for the extra header of the File event that agree with what this path assumed about them
        feasible = True
        for atom in ("HN", "HV"):
            forced = _forced_text(o, atom)
            if forced == "?":
                feasible = False
            elif forced is not None:
                samples[atom] = forced
        if not feasible:
            continue
        hn_is_cd = samples["HN"].lower() == "content-disposition"
        last_header_block: bytes | None = None
        for role, ev, out in seq:
            try:
                conc = H.concretise(out, samples)
            except H.Impure as e:
                tgt = {"file": c_head, "field": c_head, "first": c_first, "first-empty": c_first, "later": c_later, "epilogue": c_final, "preamble": c_run}[role]
                if role != "preamble":
                    tgt.fail(f"{role}: output `{fmt(out)}`: {e.why}", e.term, o)
                continue
            if not isinstance(conc, bytes):
                c_run.fail(f"{role}: send_event returns text, not bytes", out, o)
                continue
            if role in ("file", "field"):
                ends = set()
                for nm, rx in brx.items():
                    m = rx.compiled.match(conc)
                    if m is None:
                        c_delim.fail(f"`{conc[:40]!r}...` is not matched by decoder pattern {nm} = {rx.rx.pattern!r}", out, o)
                    elif m.lastindex is None or (m.group(1) or b"").startswith(b"--"):
                        c_delim.fail(f"decoder pattern {nm} reads the part delimiter `{conc[:m.end()]!r}` as the closing delimiter", out, o)
                    else:
                        ends.add(m.end())
                        c_delim.ok(f"{conc[:m.end()]!r} matched by {nm}")
                if len(ends) != 1:
                    if len(ends) > 1:
                        c_delim.fail(f"decoder patterns disagree on where the delimiter ends: {sorted(ends)}", out, o)
                    last_header_block = None
                    continue
                block = conc[ends.pop() :]
                last_header_block = block
                _check_header_block(c_head, block, lb, role, ev, samples, hn_is_cd, out, o)
            elif role == "first":
                payload = samples[ev.attrs["data"].op[1:]]
                if not conc.endswith(payload):
                    c_first.fail(f"first chunk writes {conc!r} for payload {payload!r}", out, o)
                    continue
                prefix = conc[: len(conc) - len(payload)]
                m = lb.compiled.fullmatch(prefix)
                m2 = lb.compiled.match(prefix + prefix + b"x")
                if m is None:
                    c_first.fail(f"first chunk is prefixed with {prefix!r}, which the decoder's line-break pattern {lb.rx.pattern!r} does not consume exactly", out, o)
                elif m2 is None or m2.end() != len(prefix):
                    c_first.fail(f"the decoder's pattern {lb.rx.pattern!r} consumes more than the one line break {prefix!r} the encoder writes", out, o)
                else:
                    c_first.ok(f"{prefix!r} + payload")
                if last_header_block is not None and m is not None:
                    wire = last_header_block + conc
                    bm = blank.compiled.search(wire)
                    if bm is None or bm.end() != len(last_header_block) + len(prefix) or not (bm.start() < len(last_header_block)):
                        c_blank.fail(f"after the header block {last_header_block[-20:]!r} + {prefix!r} the decoder's blank-line pattern {blank.rx.pattern!r} finds {'nothing' if bm is None else repr(wire[bm.start():bm.end()]) + ' at ' + str(bm.start())}", out, o)
                    else:
                        c_blank.ok(f"blank line {wire[bm.start():bm.end()]!r} ends the header block")
            elif role == "first-empty":
                if conc != b"" and lb.compiled.fullmatch(conc) is None:
                    c_first.fail(f"an empty first chunk writes {conc!r}", out, o)
            elif role == "later":
                if not (isinstance(out, T) and out == ev.attrs["data"]):
                    c_later.fail(f"a later chunk is written as `{fmt(out)}`", out, o)
                else:
                    c_later.ok("send_event(Data) in state DATA returns event.data")
            elif role == "epilogue":
                tail = samples["E"]
                for nm, rx in brx.items():
                    m = rx.compiled.match(conc)
                    if m is None or m.end() != len(conc) - len(tail):
                        c_final.fail(f"closing delimiter {conc!r} is not matched in full by decoder pattern {nm} = {rx.rx.pattern!r}", out, o)
                    elif not (m.group(1) or b"").startswith(b"--"):
                        c_final.fail(f"decoder pattern {nm} does not read {conc!r} as the closing delimiter", out, o)
                    else:
                        c_final.ok(f"{conc!r} matched by {nm} as final")
    for c in (c_delim, c_final, c_head, c_first, c_later, c_blank):
        c.done()
    _empty_first_chunk(ctx, repo, ip, fi, lb, blank, brx)
    _no_preamble(ctx, repo, ip, fi)


# A part whose payload is handed over as Data(b"", more_data=True) followed by a non-empty Data event: today's encoder writes
# no line break at all in front of the body (witness in the report).  The property's domain speaks of parts, not of how a
# caller splits a part into Data events, and the test client never produces this sequence, so this is recorded as a note;
# set the flag to make it an obligation of R2.3.
EMPTY_FIRST_CHUNK_IS_OBLIGATION = False


def _empty_first_chunk(ctx: Ctx, repo: Repo, ip: Interp, fi: FuncInfo, lb: H.RegexVal, blank: H.RegexVal, brx: dict) -> None:
    def thunk(ip_: Interp) -> t.Any:
        enc = ip_.instantiate(cls_of(repo, f"{MP}.MultipartEncoder"), [SAMPLE_BOUNDARY], {})
        seq = [
            event(ip_, repo, "Preamble", data=b""),
            event(ip_, repo, "Field", name=sym("N2", "str", True), headers=scripted_headers("H0", {})),
            event(ip_, repo, "Data", data=b"", more_data=True),
            event(ip_, repo, "Data", data=sym("D4", "bytes", True), more_data=False),
        ]
        return [ip_.call(ip_.getattr(enc, "send_event"), [ev], {}) for ev in seq]

    bad = None
    try:
        outs = ip.explore(thunk)
    except AnalysisError:
        return
    for o in returns(outs):
        try:
            wire = b"".join(H.concretise(x, SAMPLES) for x in o.value[1:])
        except (H.Impure, TypeError):
            continue
        payload = SAMPLES["D4"]
        m = None
        for rx in brx.values():
            m = rx.compiled.match(wire)
            if m is not None:
                break
        if m is None:
            continue
        rest = wire[m.end():]
        bm = blank.compiled.search(rest)
        ok = bm is not None and rest[bm.end():] == payload
        if not ok:
            bad = f"MultipartEncoder: Field, Data(b'', more_data=True), Data({payload!r}) is written as {rest!r}: no line break separates the header block from the body (the decoder finds no blank line / reads the payload as a header)"
    if EMPTY_FIRST_CHUNK_IS_OBLIGATION:
        ctx.ob("R2.3", "a part body is preceded by one line break however its payload is split into Data events (empty first chunk)", bad is None, bad or "blank line written before the first non-empty chunk", fi, fi.node, "encoder: empty first chunk then payload")
    elif bad:
        ctx.note("outside the stated domain, not an obligation: " + bad)


def _no_preamble(ctx: Ctx, repo: Repo, ip: Interp, fi: FuncInfo) -> None:
    """a part may be the first event: the output for it is the same as after a Preamble event"""
    c = Check(ctx, "R2.3", fi, "a Field/File event is accepted as the very first event and written like any other part", "encoder: part as first event")

    def run_seq(with_preamble: bool) -> list[Outcome]:
        def thunk(ip_: Interp) -> t.Any:
            enc = ip_.instantiate(cls_of(repo, f"{MP}.MultipartEncoder"), [SAMPLE_BOUNDARY], {})
            seq = [event(ip_, repo, "Preamble", data=b"")] if with_preamble else []
            seq += [
                event(ip_, repo, "File", name=sym("N1", "str", True), filename=sym("F1", "str", True), headers=scripted_headers("H0", {})),
                event(ip_, repo, "Data", data=sym("D1", "bytes", True), more_data=False),
                event(ip_, repo, "Epilogue", data=b""),
            ]
            return [ip_.call(ip_.getattr(enc, "send_event"), [ev], {}) for ev in seq]

        return ip.explore(thunk)

    ref = [H.vkey(o.value[1:]) for o in returns(run_seq(True))]
    outs = run_seq(False)
    check_raises(c, outs, set())
    for o in returns(outs):
        if H.vkey(o.value) not in ref:
            c.fail(f"without a Preamble event the part is written as `{fmt(o.value)}`", None, o)
        else:
            c.ok("same bytes as after a Preamble event")
    c.done()


def _forced_text(o: Outcome, atom: str) -> str | None:
    """the constant a path assumed the text atom to be equal to (after lower / strip), None when it assumed none, '?' when
    it assumed two different ones"""
    found: set[str] = set()
    for key, val, txt, terms in o.run.taken:
        if key[0] != "eq" or val is not True:
            continue
        consts = [x for x in terms if isinstance(x, str)]
        syms = [x for x in terms if isinstance(x, T)]
        if len(consts) == 1 and len(syms) == 1 and {a.op for a in H.atoms_in(syms[0])} == {"$" + atom} and H.ops_in(syms[0]) <= {".lower", ".strip", ".casefold", ".upper", ".title"}:
            found.add(consts[0])
    if not found:
        return None
    return found.pop() if len(found) == 1 else "?"


def _check_header_block(c: Check, block: bytes, lb: H.RegexVal, role: str, ev: Obj, samples: dict, hn_is_cd: bool | None, out: t.Any, o: Outcome) -> None:
    pieces = lb.compiled.split(block)
    if pieces[-1] != b"":
        c.fail(f"{role}: header block {block!r} does not end in a line break", out, o)
        return
    lines = pieces[:-1]
    if any(l == b"" for l in lines):
        c.fail(f"{role}: header block {block!r} contains an empty line", out, o)
        return
    cds = [l for l in lines if l.split(b":", 1)[0].strip().lower() == b"content-disposition"]
    if len(cds) != 1:
        c.fail(f"{role}: {len(cds)} Content-Disposition line(s) in {block!r}", out, o)
        return
    val = cds[0].split(b":", 1)[1]
    toks = [x.strip() for x in val.split(b";")]
    params: dict[bytes, bytes] = {}
    okp = toks[0].lower() == b"form-data"
    for tk in toks[1:]:
        k, eq, v = tk.partition(b"=")
        if not eq or len(v) < 2 or not (v.startswith(b'"') and v.endswith(b'"')):
            okp = False
            break
        params[k.strip().lower()] = v[1:-1]
    want = {b"name": samples[ev.attrs["name"].op[1:]].encode("utf-8")}
    if role == "file":
        want[b"filename"] = samples[ev.attrs["filename"].op[1:]].encode("utf-8")
    # a `; `-containing sample value would be split: samples avoid `;` and `"` in names
    if not okp or params != want:
        c.fail(f"{role}: Content-Disposition line {cds[0]!r} does not carry exactly {want}", out, o)
        return
    others = [l for l in lines if l is not cds[0]]
    items = ev.attrs["headers"].items or []
    if items and hn_is_cd is False:
        hn, hv = samples["HN"].encode(), samples["HV"].encode()
        hit = [l for l in others if l.split(b":", 1)[0].strip() == hn and l.split(b":", 1)[1].strip() == hv]
        if len(hit) != 1:
            c.fail(f"{role}: header ({hn!r}, {hv!r}) of the event is written as {others!r}", out, o)
            return
    elif others:
        c.fail(f"{role}: unexpected extra header lines {others!r}", out, o)
        return
    c.ok(f"{role}: {len(lines)} header line(s), Content-Disposition params {sorted(k.decode() for k in want)}")


# ---------------------------------------------------------------------
# R2.4  test client pipeline

SHARED: dict[str, t.Any] = {}


def _encoder_stub(ip: Interp, log: list) -> None:
    def make(ip_: Interp, a: list, k: dict) -> t.Any:
        enc = Scripted("encoder", cls_fq=f"{MP}.MultipartEncoder")
        enc.strict = True  # type: ignore[attr-defined]
        log.append(("init", tuple(a), dict(k)))

        def send(ip__: Interp, a_: list, k_: dict) -> t.Any:
            out = sym(f"OUT{len([x for x in log if x[0] == 'event'])}", "bytes")
            log.append(("event", a_[0], out))
            return out

        enc.methods["send_event"] = send
        return enc

    ip.stubs[f"{MP}.MultipartEncoder"] = make


def _file_value(tag: str, chunks: list) -> Scripted:
    f = Scripted(f"FILE{tag}")
    f.strict = True  # type: ignore[attr-defined]
    left = list(chunks) + [b""]
    f.attrs.update(filename=sym(f"FN{tag}", "str", True), name=sym(f"FIELDNAME{tag}", "str", True), content_type=sym(f"CT{tag}", "str", True), headers=scripted_headers(f"HF{tag}", {}))
    f.methods["read"] = lambda ip, a, k: left.pop(0) if left else b""
    return f


def _multidict(label: str, pairs: list[tuple[t.Any, t.Any]]) -> Scripted:
    md = Scripted(label, cls_fq=f"{STRUCT}.MultiDict", pytypes=(dict,))
    md.strict = True  # type: ignore[attr-defined]

    def first_only() -> list:
        seen: list = []
        out = []
        for k, v in pairs:
            if not any(k is s or k == s for s in seen):
                seen.append(k)
                out.append((k, v))
        return out

    def items(ip: Interp, a: list, k: dict) -> t.Any:
        multi = a[0] if a else k.get("multi", False)
        return list(pairs) if multi is True else first_only()

    def lists(ip: Interp, a: list, k: dict) -> t.Any:
        out: list = []
        for key, v in pairs:
            for e in out:
                if e[0] is key or e[0] == key:
                    e[1].append(v)
                    break
            else:
                out.append((key, [v]))
        return out

    md.methods.update(items=items, lists=lists, keys=lambda ip, a, k: [p[0] for p in first_only()], values=lambda ip, a, k: [p[1] for p in first_only()],
                      listvalues=lambda ip, a, k: [e[1] for e in lists(ip, [], {})], getlist=lambda ip, a, k: [v for kk, v in pairs if kk is a[0] or kk == a[0]])
    md.methods["__iter__"] = lambda ip, a, k: [p[0] for p in first_only()]
    md.methods["__len__"] = lambda ip, a, k: len(first_only())
    md.truthy = bool(pairs)
    return md


def _events_summary(log: list) -> list:
    return [e for e in log if e[0] == "event"]


def _check_event_stream(c_seq: Check, c_text: Check, c_file: Check, log: list, expected: list, o: Outcome, fallback: t.Any) -> None:
    """expected: list of ('text', key, value-term-or-bytes) / ('file', key, filename, ctype, [chunks])"""
    evs = [e[1] for e in _events_summary(log)]
    kinds = [e.ci.name if isinstance(e, Obj) else "?" for e in evs]
    if not evs or kinds[0] != "Preamble" or kinds[-1] != "Epilogue" or kinds.count("Preamble") != 1 or kinds.count("Epilogue") != 1:
        c_seq.fail(f"event stream is {kinds}: it must start with one Preamble and end with one Epilogue", None, o)
        return
    # group: part head + its Data events
    groups: list[tuple[Obj, list]] = []
    for e in evs[1:-1]:
        if e.ci.name in ("Field", "File"):
            groups.append((e, []))
        elif e.ci.name == "Data" and groups:
            groups[-1][1].append(e.attrs["data"])
        else:
            c_seq.fail(f"unexpected {e.ci.name} event between Preamble and Epilogue", None, o)
            return
    got_names = [g[0].attrs["name"] for g in groups]
    want_names = [x[1] for x in expected]
    if got_names != want_names:
        c_seq.fail(f"parts are sent for keys {fmt(got_names)}, the data has {fmt(want_names)} (order and repeated keys matter)", None, o)
        return
    c_seq.ok(f"Preamble, {len(groups)} parts in data order, Epilogue")
    for (head, datas), exp in zip(groups, expected):
        flat: list = []
        for d in datas:
            flat.extend(cat_parts(d))
        payload = H.cat(flat, "bytes")
        if exp[0] == "stream-field":
            if head.ci.name != "Field":
                c_file.fail(f"a readable value without a filename is sent as a {head.ci.name} with filename `{fmt(head.attrs.get('filename'))}`: it comes back among the files, not in the form", head.attrs.get("filename") if isinstance(head.attrs.get("filename"), T) else None, o)
            elif flat != exp[2]:
                c_file.fail(f"payload of the readable value is {fmt(flat)}, it yields {fmt(exp[2])}", None, o)
            continue
        if exp[0] == "text":
            val = exp[2]
            if head.ci.name != "Field":
                c_text.fail(f"text value {fmt(val)} is sent as a {head.ci.name}", None, o)
                continue
            if isinstance(val, T):
                if not (isinstance(payload, T) and payload.op == "enc" and payload.args[0] == val):
                    c_text.fail(f"payload of text value {fmt(val)} is `{fmt(payload)}`, expected the value encoded", alt(first_impure(payload, {"enc", "cat"}), payload), o)
                    continue
                cs = payload.args[1]
                declared = _declared_charset(head.attrs["headers"])
                if declared == "?":
                    raise AnalysisError(f"R2.4: cannot tell whether the headers `{fmt(head.attrs['headers'], 3)}` of a text part declare a charset (shape not understood)")
                eff = declared or fallback
                if cs != eff:
                    c_text.fail(f"text is encoded as {cs!r} but the parser will decode this part as {eff!r}", payload, o)
                else:
                    c_text.ok(f"text encoded as {cs}, parser decodes as {eff}")
            else:
                if payload != val:
                    c_text.fail(f"payload of value {val!r} is `{fmt(payload)}`", payload if isinstance(payload, T) else None, o)
        else:
            _, key, fn, ct, chunks = exp
            if head.ci.name != "File":
                c_file.fail(f"file value with a filename is sent as a {head.ci.name}", None, o)
                continue
            if head.attrs["filename"] != fn:
                c_file.fail(f"File.filename is `{fmt(head.attrs['filename'])}`, the value's filename is {fmt(fn)}", head.attrs["filename"], o)
                continue
            hd = head.attrs["headers"]
            got_ct = _headers_lookup(hd, "content-type")
            if got_ct != ct:
                c_file.fail(f"content type of the file part is `{fmt(got_ct)}`, the value's is {fmt(ct)}", got_ct, o)
                continue
            if flat != chunks:
                c_file.fail(f"file payload sent is {fmt(flat)}, the file yields {fmt(chunks)}", alt(first_impure(payload, {"cat"}), payload), o)
                continue
            c_file.ok(f"File(name, filename, content type) + {len(chunks)} chunk(s) as read")


def _headers_lookup(h: t.Any, key: str) -> t.Any:
    if isinstance(h, Scripted) and hasattr(h, "table"):
        return h.table.get(key)
    if isinstance(h, T) and h.op.endswith(".Headers"):
        for v in list(h.args) + [x for _, x in h.kw]:
            pairs = unwrap_list(v)
            for p_ in pairs or []:
                if isinstance(p_, tuple) and len(p_) == 2 and isinstance(p_[0], str) and p_[0].lower() == key:
                    return p_[1]
            if isinstance(v, T) and v.op == "dict":
                for k_, x in v.args:
                    if isinstance(k_, str) and k_.lower() == key:
                        return x
    return None


def _declared_charset(h: t.Any) -> str | None:
    """None = no content type declared; '?' = cannot tell"""
    if isinstance(h, T) and h.op.endswith(".Headers"):
        vals = list(h.args) + [v for _, v in h.kw]
        if all(v is None or (isinstance(v, T) and v.op == "list" and not v.args) for v in vals):
            return None
        return "?"
    if isinstance(h, Scripted) and hasattr(h, "table"):
        return None if "content-type" not in h.table else "?"
    return "?"


def _find_ops(v: t.Any, op: str) -> list[T]:
    out: list[T] = []
    if isinstance(v, T):
        if v.op == op:
            out.append(v)
        for a in v.args:
            out.extend(_find_ops(a, op))
        for _, a in v.kw:
            out.extend(_find_ops(a, op))
    elif isinstance(v, (tuple, list)):
        for a in v:
            out.extend(_find_ops(a, op))
    return out


def _parser_fallback_charset(repo: Repo, folder: Folder) -> t.Any:
    ip = Interp(repo, folder, open_modules={FP})

    def thunk(ip_: Interp) -> t.Any:
        self_ = Obj(cls_of(repo, f"{FP}.MultiPartParser"), "self")
        thunk_, info = _parse_scenario(repo, [("Field", "1", ["D1"], False)])
        v = thunk_(ip_)
        return v

    vals = set()
    for o in ip.explore(thunk):
        if o.kind == "return" and isinstance(o.value, tuple):
            fl = unwrap_list(o.value[0].args[1]) if isinstance(o.value[0], T) and len(o.value[0].args) == 2 else None
            if fl and isinstance(fl[0], tuple) and isinstance(fl[0][1], T):
                for d in _find_ops(fl[0][1], "dec"):
                    vals.add(d.args[1])
    if len(vals) != 1:
        raise AnalysisError(f"R2.4: fallback charset of the parser not determined ({vals})")
    return vals.pop()


def rule_2_4(ctx: Ctx, repo: Repo, folder: Folder) -> None:
    fi = repo.func(f"{TEST}.stream_encode_multipart")
    fe = repo.func(f"{TEST}.encode_multipart")
    ctx.saw(fi, fe)
    fallback = _parser_fallback_charset(repo, folder)
    c_run = Check(ctx, "R2.4", fi, "stream_encode_multipart completes on text, list, number and file values", "stream_encode_multipart: completes")
    c_seq = Check(ctx, "R2.4", fi, "events: Preamble, one part per (key, value) in data order (repeated keys kept), Epilogue", "stream_encode_multipart: event order")
    c_text = Check(ctx, "R2.4", fi, "a text value is sent as a Field whose payload is the value encoded with the charset the parser falls back to", "stream_encode_multipart: text payload and charset")
    c_file = Check(ctx, "R2.4", fi, "a file value is sent as a File with its filename and content type, payload = the chunks read, in order", "stream_encode_multipart: file payload")
    c_out = Check(ctx, "R2.4", fi, "every chunk send_event returns is written once, unmodified, in order; the stream is rewound; the reported length is its size; the boundary is returned", "stream_encode_multipart: output stream")
    n = 0
    for use_tempfile in (True, False):
        for shape in ("dict", "multidict"):
            log: list = []
            holder: dict[str, t.Any] = {}

            def thunk(ip_: Interp, log=log, holder=holder, shape=shape, use_tempfile=use_tempfile) -> t.Any:
                del log[:]
                _encoder_stub(ip_, log)
                k1, k2, k3, k4 = (sym(f"K{i}", "str", True) for i in (1, 2, 3, 4))
                v1, v2a, v2b = sym("V1", "str"), sym("V2a", "str"), sym("V2b", "str")
                chunks = [sym("F3a", "bytes", True), sym("F3b", "bytes", True)]
                f3 = _file_value("3", chunks)
                if shape == "dict":
                    k5 = sym("K5", "str", True)
                    chunks5 = [sym("F5a", "bytes", True)]
                    f5 = _file_value("5", chunks5)
                    f5.attrs["filename"] = None  # a stream without a file name (its .name is the field name): goes out as a plain field
                    data: t.Any = {k1: v1, k2: [v2a, v2b, v2a], k3: f3, k4: 7, k5: f5}
                    exp = [("text", k1, v1), ("text", k2, v2a), ("text", k2, v2b), ("text", k2, v2a), ("file", k3, f3.attrs["filename"], f3.attrs["content_type"], chunks), ("text", k4, b"7"), ("stream-field", k5, chunks5)]
                else:
                    data = _multidict("DATA", [(k1, v1), (k2, v2a), (k3, f3), (k2, v2b), (k2, v2a)])
                    exp = [("text", k1, v1), ("text", k2, v2a), ("file", k3, f3.attrs["filename"], f3.attrs["content_type"], chunks), ("text", k2, v2b), ("text", k2, v2a)]
                holder["exp"] = exp
                holder["bnd"] = sym("BND", "str", True)
                return ip_.call(ip_.load_name("stream_encode_multipart", Frame(fi.module)), [data], {"use_tempfile": use_tempfile, "boundary": holder["bnd"]})

            ip = Interp(repo, folder, open_modules={TEST})
            logs: list[tuple[list, dict]] = []

            def wrapped(ip_: Interp, thunk=thunk, log=log, holder=holder, logs=logs) -> t.Any:
                try:
                    return thunk(ip_)
                finally:
                    logs.append((list(log), dict(holder)))

            outs = ip.explore(wrapped)
            check_raises(c_run, outs, set())
            for o, (lg, hd) in zip(outs, logs):
                if o.kind != "return":
                    continue
                n += 1
                _check_event_stream(c_seq, c_text, c_file, lg, hd["exp"], o, fallback)
                v = o.value
                if not (isinstance(v, tuple) and len(v) == 3):
                    c_out.fail(f"returns `{fmt(v)}`, not (stream, length, boundary)", None, o)
                    continue
                stream, length, bnd = v
                outs_expected = [e[2] for e in _events_summary(lg)]
                if not isinstance(stream, FileModel):
                    c_out.fail(f"returned stream is `{fmt(stream)}`", None, o)
                    continue
                written = cat_parts(H.file_text(stream))
                if written != outs_expected:
                    c_out.fail(f"stream holds {fmt(written)}, send_event returned {fmt(outs_expected)}", first_impure(H.file_text(stream), {"cat"}), o)
                    continue
                if stream.pos != 0:
                    c_out.fail(f"returned stream is at position {fmt(stream.pos)}, not rewound", None, o)
                    continue
                size = T("size", (H.file_text(stream),), pytype="int")
                if not (isinstance(length, T) and length == size):
                    c_out.fail(f"reported length is `{fmt(length)}`, not the size of the stream", length, o)
                    continue
                if bnd is not hd["bnd"] and bnd != hd["bnd"]:
                    c_out.fail(f"returned boundary is `{fmt(bnd)}`", bnd, o)
                    continue
                init = [e for e in lg if e[0] == "init"]
                barg = init[0][1][0] if init and init[0][1] else (init[0][2].get("boundary") if init else None)
                if not (isinstance(barg, T) and barg.op == "enc" and barg.args[0] == hd["bnd"] and barg.args[1] in ("utf-8", "ascii", "latin-1")):
                    c_out.fail(f"the encoder is created with boundary `{fmt(barg)}`, the returned boundary is {fmt(hd['bnd'])}", barg, o)
                    continue
                c_out.ok(f"{len(written)} chunks written in order, rewound, length = size")
    ctx.floor("R2.4", "returning paths of the stream_encode_multipart scenarios", n, 4)
    for c in (c_run, c_seq, c_text, c_file, c_out):
        c.done()
    # encode_multipart
    c_em = Check(ctx, "R2.4", fe, "encode_multipart returns the boundary and the whole encoded body", "encode_multipart: result")
    log2: list = []
    hold2: dict[str, t.Any] = {}

    def thunk2(ip_: Interp) -> t.Any:
        del log2[:]
        _encoder_stub(ip_, log2)
        k1, k2 = sym("K1", "str", True), sym("K2", "str", True)
        hold2["bnd"] = sym("BND", "str", True)
        return ip_.call(ip_.load_name("encode_multipart", Frame(fe.module)), [{k1: sym("V1", "str"), k2: sym("V2", "str")}], {"boundary": hold2["bnd"]})

    ip2 = Interp(repo, folder, open_modules={TEST})
    outs2 = ip2.explore(thunk2)
    check_raises(c_em, outs2, set())
    for o in returns(outs2):
        v = o.value
        want = [sym(f"OUT{i}", "bytes") for i in range(6)]
        if not (isinstance(v, tuple) and len(v) == 2 and v[0] == hold2["bnd"] and cat_parts(v[1]) == want):
            c_em.fail(f"returns `{fmt(v)}`, expected (boundary, all {len(want)} chunks of the encoder)", first_impure(v[1], {"cat"}) if isinstance(v, tuple) and len(v) == 2 else None, o)
        else:
            c_em.ok("(boundary, body)")
    c_em.done()


# ---------------------------------------------------------------------
# R2.5  urlencoded writer / readers

STRUCTURAL = "&=+%# "


def _qsl_stub(ip: Interp, calls: list, result: list) -> None:
    def parse_qsl(ip_: Interp, a: list, k: dict) -> t.Any:
        calls.append((list(a), dict(k)))
        return list(result)

    ip.stubs["urllib.parse.parse_qsl"] = parse_qsl


def _check_qsl_call(c: Check, calls: list, text_atom: T, o: Outcome) -> None:
    if not calls:
        raise AnalysisError(f"R2.5: {c.fi.qualname} does not call urllib.parse.parse_qsl (a reader of its own is not modelled)")
    if len(calls) != 1:
        c.fail(f"parse_qsl is called {len(calls)} time(s)", None, o)
        return
    a, k = calls[0]
    names = ["qs", "keep_blank_values", "strict_parsing", "encoding", "errors", "max_num_fields", "separator"]
    kw = dict(k)
    for n, v in zip(names, a):
        kw[n] = v
    qs = kw.get("qs")
    if not (isinstance(qs, T) and qs.op == "dec" and qs.args[0] == text_atom and qs.args[1] == "utf-8") and not (isinstance(qs, T) and qs == text_atom and qs.pytype == "bytes"):
        c.fail(f"parse_qsl reads `{fmt(qs)}`, expected the whole of {fmt(text_atom)} decoded as UTF-8", alt(first_impure(qs, {"dec"}), qs), o)
        return
    if kw.get("keep_blank_values") is not True:
        c.fail(f"parse_qsl(keep_blank_values={fmt(kw.get('keep_blank_values', False))}): a key with an empty value is dropped", None, o)
        return
    if kw.get("strict_parsing", False) is not False:
        c.fail("parse_qsl(strict_parsing=True): an empty query string raises", None, o)
        return
    if H.norm_charset(kw.get("encoding", "utf-8")) != "utf-8":
        c.fail(f"parse_qsl(encoding={fmt(kw.get('encoding'))}): the writer percent-encodes UTF-8", None, o)
        return
    if kw.get("max_num_fields") is not None:
        c.fail(f"parse_qsl(max_num_fields={fmt(kw.get('max_num_fields'))}) refuses larger forms", None, o)
        return
    if kw.get("separator", "&") != "&":
        c.fail(f"parse_qsl(separator={fmt(kw.get('separator'))}): the writer joins with '&'", None, o)
        return
    c.ok("parse_qsl(decoded text, keep_blank_values=True), default separator / limits / UTF-8")


def rule_2_5(ctx: Ctx, repo: Repo, folder: Folder) -> None:
    # ---- writer
    fu = repo.func(f"{URLS}._urlencode")
    ctx.saw(fu)
    c_items = Check(ctx, "R2.5", fu, "_urlencode encodes every (key, value) of iter_multi_items(query) in order, dropping only None values (empty strings stay)", "_urlencode: items")
    c_safe = Check(ctx, "R2.5", fu, "_urlencode's safe set contains none of the reader's structural characters & = + % # and space; quoting is urllib's quote/quote_plus in UTF-8", "_urlencode: safe set")
    hold: dict[str, t.Any] = {}

    def thunk(ip_: Interp) -> t.Any:
        k1, k2, k3 = sym("K1", "str", True), sym("K2", "str", True), sym("K3", "str", True)
        pairs = [(k1, sym("V1", "str")), (k2, None), (k1, sym("V3", "str")), (k3, ""), (k2, sym("V5", "str", True)), (k1, sym("V1", "str"))]
        q = _multidict("QUERY", pairs)
        hold.update(pairs=pairs, q=q, imi=[])

        def imi(ip__: Interp, a: list, k: dict) -> t.Any:
            hold["imi"].append(a[0] if a else k.get("mapping"))
            return list(pairs)

        ip_.stubs[f"{STRUCT}.iter_multi_items"] = imi
        return ip_.call(ip_.load_name("_urlencode", Frame(fu.module)), [q], {})

    ip = Interp(repo, folder, open_modules={URLS})
    outs = ip.explore(thunk)
    check_raises(c_items, outs, set())
    for o in returns(outs):
        v = o.value
        if not (isinstance(v, T) and v.op == "urllib.parse.urlencode"):
            raise AnalysisError(f"R2.5: _urlencode returns `{fmt(v)}`, not a call of urllib.parse.urlencode (shape not understood)")
        names = ["query", "doseq", "safe", "encoding", "errors", "quote_via"]
        kw = dict(v.kw)
        for n, a in zip(names, v.args):
            kw[n] = a
        items = unwrap_list(kw.get("query"))
        want = [p for p in hold["pairs"] if p[1] is not None]
        if items is None:
            raise AnalysisError(f"R2.5: urlencode is applied to `{fmt(kw.get('query'))}` (shape not understood)")
        got = [tuple(x) if isinstance(x, tuple) else x for x in items]
        if got != want:
            c_items.fail(f"urlencode receives {fmt(got)}, the query has {fmt(hold['pairs'])}: only None values may be dropped and order is kept", first_impure(kw.get("query"), {"list"}), o)
        elif hold["imi"] and hold["imi"][0] is not hold["q"]:
            c_items.fail(f"iter_multi_items is applied to `{fmt(hold['imi'][0])}`, not to the query", None, o)
        else:
            c_items.ok(f"{len(want)} of {len(hold['pairs'])} pairs kept (None dropped, '' kept, repeated keys kept)")
        safe = kw.get("safe", "")
        if isinstance(safe, bytes):
            safe = safe.decode("latin-1")
        if not isinstance(safe, str):
            raise AnalysisError(f"R2.5: safe set `{fmt(safe)}` is not a constant")
        bad = sorted(set(safe) & set(STRUCTURAL))
        qv = kw.get("quote_via")
        if bad:
            c_safe.fail(f"safe set {safe!r} contains structural character(s) {bad}: a value containing one is read back as something else", None, o)
        elif qv is not None and not (isinstance(qv, H.ExtVal) and qv.fq in ("urllib.parse.quote", "urllib.parse.quote_plus")):
            raise AnalysisError(f"R2.5: urlencode(quote_via={fmt(qv)}) is not modelled")
        elif H.norm_charset(kw.get("encoding") or "utf-8") != "utf-8":
            c_safe.fail(f"urlencode(encoding={fmt(kw.get('encoding'))}): the readers decode UTF-8", None, o)
        else:
            c_safe.ok(f"safe={safe!r}")
    c_items.done()
    c_safe.done()

    # ---- iter_multi_items
    fim = repo.func(f"{STRUCT}.iter_multi_items")
    ctx.saw(fim)
    c_imi = Check(ctx, "R2.5", fim, "iter_multi_items yields every (key, value) in order: all values of a MultiDict, each element of a list/tuple value of a mapping, the pairs of an iterable", "iter_multi_items: all pairs in order")
    shapes: dict[str, t.Any] = {}

    def build(ip_: Interp, which: str) -> tuple[t.Any, list]:
        k1, k2, k3 = sym("K1", "str", True), sym("K2", "str", True), sym("K3", "str", True)
        v = [sym(f"V{i}", "str") for i in range(6)]
        if which == "multidict":
            pairs = [(k1, v[0]), (k2, v[1]), (k1, v[2])]
            return _multidict("M", pairs), pairs
        if which == "mapping":
            return {k2: v[0], k1: [v[1], v[2], v[1]], k3: (v[3], v[4])}, [(k2, v[0]), (k1, v[1]), (k1, v[2]), (k1, v[1]), (k3, v[3]), (k3, v[4])]
        pairs = [(k1, v[0]), (k2, v[1]), (k1, v[2])]
        return list(pairs), pairs

    for which in ("multidict", "mapping", "pairs"):
        def thunk3(ip_: Interp, which=which) -> t.Any:
            arg, want = build(ip_, which)
            shapes["want"] = want
            return list(ip_.iterate(ip_.call(ip_.load_name("iter_multi_items", Frame(fim.module)), [arg], {})))

        ip3 = Interp(repo, folder, open_modules={STRUCT})
        outs3 = ip3.explore(thunk3)
        check_raises(c_imi, outs3, set())
        for o in returns(outs3):
            got = [tuple(x) if isinstance(x, (tuple, list)) else x for x in o.value]
            if got != shapes["want"]:
                c_imi.fail(f"for a {which} it yields {fmt(got)}, expected {fmt(shapes['want'])}", None, o)
            else:
                c_imi.ok(f"{which}: {len(got)} pairs")
    c_imi.done()

    # ---- readers
    fpu = repo.func(f"{FP}.FormDataParser._parse_urlencoded")
    fa = repo.func(f"{SREQ}.Request.args")
    ctx.saw(fpu, fa)
    result = [(sym("QK1", "str"), sym("QV1", "str")), (sym("QK2", "str"), sym("QV2", "str")), (sym("QK1", "str"), sym("QV3", "str"))]
    for fi, label, construct in ((fpu, "FormDataParser._parse_urlencoded", "_parse_urlencoded"), (fa, "Request.args", "Request.args")):
        c_call = Check(ctx, "R2.5", fi, f"{label}: parse_qsl is applied to the whole text, keeping blank values, with default separator, limits and UTF-8", f"{construct}: parse_qsl call")
        c_res = Check(ctx, "R2.5", fi, f"{label}: the list parse_qsl returns goes to the multi-dict class unmodified (order, repeated keys)", f"{construct}: result handed over")
        calls: list = []
        h2: dict[str, t.Any] = {}

        def thunk4(ip_: Interp, fi=fi, calls=calls, h2=h2) -> t.Any:
            del calls[:]
            _qsl_stub(ip_, calls, result)
            if fi is fpu:
                self_ = Obj(cls_of(repo, f"{FP}.FormDataParser"), "self")
                body = sym("BODY", "bytes")
                stream = Scripted("stream")
                stream.strict = True  # type: ignore[attr-defined]
                stream.methods["read"] = lambda ip__, a, k: body if not a or a[0] in (None, -1) else T("read-part", (body, a[0]), pytype="bytes")
                h2.update(self=self_, text=body, cls=ip_.getattr(self_, "cls"), stream=stream)
                return ip_.call(ip_.getattr(self_, "_parse_urlencoded"), [stream, "application/x-www-form-urlencoded", sym("CL", "int"), {}], {})
            self_ = Obj(cls_of(repo, f"{SREQ}.Request"), "self")
            qs = sym("QS", "bytes")
            self_.attrs["query_string"] = qs
            h2.update(self=self_, text=qs, cls=ip_.getattr(self_, "parameter_storage_class"))
            return ip_.getattr(self_, "args")

        ip4 = Interp(repo, folder, open_modules={fi.module.name})
        snaps: list = []

        def wrapped4(ip_: Interp, thunk4=thunk4, calls=calls, h2=h2, snaps=snaps) -> t.Any:
            try:
                return thunk4(ip_)
            finally:
                snaps.append((list(calls), dict(h2)))

        outs4 = ip4.explore(wrapped4)
        check_raises(c_call, outs4)
        for o, (cl, hh) in zip(outs4, snaps):
            if o.kind != "return":
                continue
            _check_qsl_call(c_call, cl, hh["text"], o)
            v = o.value
            if fi is fpu:
                if not (isinstance(v, tuple) and len(v) == 3):
                    c_res.fail(f"returns `{fmt(v)}`, not (stream, form, files)", None, o)
                    continue
                if v[0] is not hh["stream"]:
                    c_res.fail(f"first element `{fmt(v[0])}` is not the stream", None, o)
                form = v[1]
                empty = v[2]
                if _storage_arg(empty, hh["cls"], allow_empty=True) != []:
                    c_res.fail(f"files of a urlencoded form are `{fmt(empty)}`, expected an empty self.cls()", empty, o)
            else:
                form = v
            lst = _storage_arg(form, hh["cls"])
            if lst is None:
                c_res.fail(f"result `{fmt(form)}` is not <storage class>(<list from parse_qsl>)", form if isinstance(form, T) else None, o)
            elif as_pairs(lst) != result:
                c_res.fail(f"the storage class receives {fmt(lst)}, parse_qsl returned {fmt(result)}", first_impure(form, {"list", "call"}), o)
            else:
                c_res.ok("storage class(list as returned)")
        c_call.done()
        c_res.done()


# ---------------------------------------------------------------------
# R2.6  wiring


def _mentions(v: t.Any, obj: t.Any, depth: int = 0) -> bool:
    if v is obj:
        return True
    if depth > 8:
        return False
    if isinstance(v, T):
        return any(_mentions(a, obj, depth + 1) for a in v.args) or any(_mentions(a, obj, depth + 1) for _, a in v.kw)
    if isinstance(v, (list, tuple)):
        return any(_mentions(a, obj, depth + 1) for a in v)
    return False


def _recording_multidict(label: str, cls_fq: str) -> Scripted:
    """a MultiDict / FileMultiDict created by the code under analysis: records what is stored"""
    md = Scripted(label, cls_fq=cls_fq, pytypes=(dict,))
    md.strict = True  # type: ignore[attr-defined]
    store: dict = {}
    md.store = store  # type: ignore[attr-defined]
    md.files = []  # type: ignore[attr-defined]

    def setlistdefault(ip: Interp, a: list, k: dict) -> t.Any:
        lst = store.setdefault(a[0], [])
        if len(a) > 1 and a[1] and not lst:
            lst.extend(ip.iterate(a[1]))
        return lst

    def add(ip: Interp, a: list, k: dict) -> t.Any:
        store.setdefault(a[0], []).append(a[1])
        md.files.append({"name": a[0], "file": a[1]})  # type: ignore[attr-defined]
        return None

    def setlist(ip: Interp, a: list, k: dict) -> t.Any:
        store[a[0]] = list(ip.iterate(a[1]))
        return None

    def setitem(ip: Interp, a: list, k: dict) -> t.Any:
        store[a[0]] = [a[1]]
        md.files[:] = [e for e in md.files if not (e.get("name") is a[0] or e.get("name") == a[0])]  # type: ignore[attr-defined]
        md.files.append({"name": a[0], "file": a[1]})  # type: ignore[attr-defined]
        return None

    def add_file(ip: Interp, a: list, k: dict) -> t.Any:
        names = ["name", "file", "filename", "content_type"]
        kw = dict(k)
        for n, v in zip(names, a):
            kw[n] = v
        md.files.append(kw)  # type: ignore[attr-defined]
        return None

    md.methods.update(setlistdefault=setlistdefault, add=add, setlist=setlist, add_file=add_file, getlist=lambda ip, a, k: list(store.get(a[0], [])),
                      items=lambda ip, a, k: [(kk, v) for kk, vs in store.items() for v in (vs if (a[0] if a else k.get("multi")) else vs[:1])],
                      lists=lambda ip, a, k: [(kk, list(vs)) for kk, vs in store.items()], values=lambda ip, a, k: [vs[0] for vs in store.values()])
    md.methods["__setitem__"] = setitem
    md.methods["__len__"] = lambda ip, a, k: len(store)
    md.methods["__iter__"] = lambda ip, a, k: list(store)
    md.methods["__contains__"] = lambda ip, a, k: a[0] in store
    md.truthy = None
    return md


def _builder_intake(ctx: Ctx, repo: Repo, folder: Folder) -> None:
    """EnvironBuilder(data={...}): text values go to the form (all of them, per key in order), file tuples go to files complete"""
    ebc = cls_of(repo, f"{TEST}.EnvironBuilder")
    fi = ebc.methods.get("__init__")
    if fi is None:
        raise AnalysisError("R2.6: EnvironBuilder.__init__ not found (slot)")
    ctx.saw(fi)
    c = Check(ctx, "R2.6", fi, "EnvironBuilder(data=mapping): every text value is stored in the form under its key (repeated values kept, in order), every file value reaches files.add_file with its stream, filename and content type", "EnvironBuilder.__init__: data intake")
    hold: dict[str, t.Any] = {}

    def thunk(ip_: Interp) -> t.Any:
        made: list[Scripted] = []

        def mk(fq: str, label: str) -> t.Callable:
            def make(ip__: Interp, a: list, k: dict) -> t.Any:
                m = _recording_multidict(f"{label}#{len(made)}", fq)
                made.append(m)
                for src in a[:1]:
                    for kv in ip__.iterate(src if not isinstance(src, dict) else list(src.items())):
                        m.store.setdefault(kv[0], []).append(kv[1])  # type: ignore[attr-defined]
                return m

            return make

        ip_.stubs[f"{STRUCT}.MultiDict"] = mk(f"{STRUCT}.MultiDict", "MultiDict")
        ip_.stubs["werkzeug.datastructures.file_storage.FileMultiDict"] = mk("werkzeug.datastructures.file_storage.FileMultiDict", "FileMultiDict")
        k1, k2, k3, k4 = (sym(f"K{i}", "str", True) for i in (1, 2, 3, 4))
        v1, v2a, v2b = sym("V1", "str"), sym("V2a", "str"), sym("V2b", "str")
        stream3 = Scripted("STREAM3")
        stream3.strict = True  # type: ignore[attr-defined]
        stream3.methods["read"] = lambda ip__, a, k: b""
        f4 = _file_value("4", [])
        fn3, ct3 = sym("FN3", "str", True), sym("CT3", "str", True)
        k5 = sym("K5", "str", True)
        fs_a, fs_b = _file_value("5a", []), _file_value("5b", [])
        fs_a.cls_fq = fs_b.cls_fq = "werkzeug.datastructures.file_storage.FileStorage"  # two uploads under one field name
        data = {k1: v1, k2: [v2a, v2b, v2a], k3: (stream3, fn3, ct3), k4: f4, k5: [fs_a, fs_b]}
        self_ = Obj(ebc, "self")
        hold.update(self=self_, made=made, form={k1: [v1], k2: [v2a, v2b, v2a]}, files=[{"name": k3, "file": stream3, "filename": fn3, "content_type": ct3}, {"name": k4, "file": f4}, {"name": k5, "file": fs_a}, {"name": k5, "file": fs_b}])
        ip_.call(ip_.getattr(self_, "__init__"), [], {"data": data})
        return self_

    ip = Interp(repo, folder, open_modules={TEST})
    snaps: list = []

    def wrapped(ip_: Interp) -> t.Any:
        try:
            return thunk(ip_)
        finally:
            snaps.append(dict(hold))

    outs = ip.explore(wrapped)
    check_raises(c, outs, set())
    for o, hh in zip(outs, snaps):
        if o.kind != "return":
            continue
        self_ = hh["self"]
        form, files = self_.attrs.get("_form"), self_.attrs.get("_files")
        if not (isinstance(form, Scripted) and hasattr(form, "store")):
            c.fail(f"after construction the form is `{fmt(form)}`", None, o)
            continue
        got = {k: list(v) for k, v in form.store.items()}
        if got != hh["form"]:
            c.fail(f"form holds {fmt(got)}, the data has {fmt(hh['form'])}", None, o)
            continue
        if not (isinstance(files, Scripted) and hasattr(files, "files")):
            c.fail(f"after construction files is `{fmt(files)}`", None, o)
            continue
        gotf = [{k: v for k, v in d.items() if v is not None} for d in files.files]
        if gotf != hh["files"]:
            c.fail(f"files.add_file received {fmt(gotf)}, the data has {fmt(hh['files'])}", None, o)
            continue
        c.ok("form lists and add_file arguments as given")
    c.done()


FSMOD = "werkzeug.datastructures.file_storage"


def _add_file_clause(ctx: Ctx, repo: Repo, folder: Folder) -> None:
    """FileMultiDict.add_file: what the caller gives explicitly (stream, filename, content type) is what is stored"""
    fi = repo.func(f"{FSMOD}.FileMultiDict.add_file")
    ctx.saw(fi)
    c = Check(ctx, "R2.6", fi, "FileMultiDict.add_file stores a FileStorage with the caller's stream, field name, filename and - when one is given - content type; a FileStorage value is stored as it is", "FileMultiDict.add_file: explicit values kept")
    n = 0
    for shape in ("explicit", "no-type", "storage"):
        hold: dict[str, t.Any] = {}

        def thunk(ip_: Interp, shape=shape, hold=hold) -> t.Any:
            added: list = []
            self_ = Scripted("files", cls_fq=f"{FSMOD}.FileMultiDict", pytypes=(dict,))
            self_.strict = True  # type: ignore[attr-defined]
            self_.methods["add"] = lambda ip__, a, k: added.append((a[0] if a else k.get("key"), a[1] if len(a) > 1 else k.get("value")))
            name, fn, ct = sym("NAME", "str", True), sym("FN", "str", True), sym("CT", "str", True)
            stream = Scripted("UPLOAD")
            stream.strict = True  # type: ignore[attr-defined]
            stream.methods["read"] = lambda ip__, a, k: b""
            if shape == "storage":
                stream.cls_fq = f"{FSMOD}.FileStorage"
                args: list = [name, stream]
            elif shape == "explicit":
                args = [name, stream, fn, ct]
            else:
                args = [name, stream, fn]
            hold.update(added=added, name=name, fn=fn, ct=ct, stream=stream)
            return ip_.call(H.Bound(self_, H.FuncVal(fi, fi.node, fi.module)), args, {})

        ip = Interp(repo, folder, open_modules={FSMOD}, opaque={f"{FSMOD}.FileStorage"})
        snaps: list = []

        def wrapped(ip_: Interp, thunk=thunk, hold=hold, snaps=snaps) -> t.Any:
            try:
                return thunk(ip_)
            finally:
                snaps.append(dict(hold))

        outs = ip.explore(wrapped)
        check_raises(c, outs, set())
        for o, hh in zip(outs, snaps):
            if o.kind != "return":
                continue
            n += 1
            added = hh["added"]
            if len(added) != 1 or not (isinstance(added[0][0], T) and added[0][0] == hh["name"]):
                c.fail(f"{shape}: add_file stores {fmt(added)}, expected one entry under the given name", None, o)
                continue
            v = added[0][1]
            if shape == "storage":
                if v is not hh["stream"]:
                    c.fail(f"a FileStorage value is stored as `{fmt(v)}`", None, o)
                else:
                    c.ok("FileStorage stored as it is")
                continue
            if not (isinstance(v, T) and v.op == f"{FSMOD}.FileStorage" and not v.args):
                c.fail(f"{shape}: stored value `{fmt(v)}` is not a FileStorage built from the arguments", v if isinstance(v, T) else None, o)
                continue
            kw = dict(v.kw)
            want = {"stream": hh["stream"], "filename": hh["fn"], "name": hh["name"]}
            if shape == "explicit":
                want["content_type"] = hh["ct"]
            bad = [k for k, w in want.items() if not (kw.get(k) is w or (isinstance(kw.get(k), T) and isinstance(w, T) and kw.get(k) == w))]
            if bad:
                k = bad[0]
                c.fail(f"{shape}: FileStorage {k} is `{fmt(kw.get(k))}`, the caller gave `{fmt(want[k])}`" + (" (an explicit content type must win over one guessed from the filename)" if k == "content_type" else ""), kw.get(k) if isinstance(kw.get(k), T) else v, o)
            else:
                c.ok(f"{shape}: FileStorage({', '.join(sorted(want))}) as given")
    ctx.floor("R2.6", "returning paths of the add_file scenarios", n, 3)
    c.done()


IDENTITY_ON_STR = {"os.fsdecode", "os.fspath", "str"}  # trusted: each returns a str argument as it is


def _through_identity(v: t.Any) -> t.Any:
    """v with calls that return a str argument unchanged (os.fsdecode / os.fspath / str) peeled off"""
    while isinstance(v, T) and v.op in IDENTITY_ON_STR and len(v.args) + len(v.kw) == 1:
        v = v.args[0] if v.args else v.kw[0][1]
    return v


def _peel_identity(v: t.Any) -> t.Any:
    """the term with every identity-on-str call inside it peeled off"""
    v = _through_identity(v)
    if isinstance(v, T):
        return T(v.op, tuple(_peel_identity(a) for a in v.args), tuple((k, _peel_identity(x)) for k, x in v.kw), uid=v.uid, pytype=v.pytype, src=v.src)
    if isinstance(v, tuple):
        return tuple(_peel_identity(a) for a in v)
    return v


def _file_storage_clause(ctx: Ctx, repo: Repo, folder: Folder) -> None:
    """FileStorage.__init__, the last hop on both sides (MultiPartParser.parse builds the uploaded file with it, add_file
    the file to encode): what is given explicitly - stream, filename, field name, headers / content type - is what the
    object holds.  In particular the discard of names like `<stderr>` is for names taken from the stream's `name`
    attribute, never for a filename the caller (the client) gave."""
    ci = cls_of(repo, f"{FSMOD}.FileStorage")
    _, init = repo.lookup(ci, "__init__")
    if not isinstance(init, FuncInfo) or init.module.name != FSMOD:
        raise AnalysisError("R2.6: FileStorage.__init__ is not defined in datastructures.file_storage (slot)")
    ctx.saw(init)
    c_fn = Check(ctx, "R2.6", init, "FileStorage.__init__ stores an explicitly given filename as it is (any text, also empty or of the form `<...>`), on every path", "FileStorage.__init__: explicit filename kept")
    c_rest = Check(ctx, "R2.6", init, "FileStorage.__init__ stores the given stream, field name and headers themselves; a given content type is stored as the Content-Type header", "FileStorage.__init__: stream, name, headers kept")
    n = 0
    for shape in ("parser", "builder"):
        hold: dict[str, t.Any] = {}

        def thunk(ip_: Interp, shape=shape, hold=hold) -> t.Any:
            stream = Scripted("UPLOAD", truthy=True)
            stream.strict = True  # type: ignore[attr-defined]
            fn, name, ct = sym("FN", "str", None), sym("NAME", "str", None), sym("CT", "str", None)
            hdrs = scripted_headers("HDRS", {})
            hold.update(stream=stream, fn=fn, name=name, ct=ct, hdrs=hdrs)
            if shape == "parser":
                # MultiPartParser.parse: FileStorage(container, filename, name, headers=headers)
                return ip_.instantiate(ci, [stream, fn, name], {"headers": hdrs})
            # FileMultiDict.add_file: FileStorage(file, filename, name, content_type)
            return ip_.instantiate(ci, [stream, fn, name, ct], {})

        ip = Interp(repo, folder, open_modules={FSMOD})
        snaps: list = []

        def wrapped(ip_: Interp, thunk=thunk, hold=hold, snaps=snaps) -> t.Any:
            try:
                return thunk(ip_)
            finally:
                snaps.append(dict(hold))

        outs = ip.explore(wrapped)
        for o, hh in zip(outs, snaps):
            if o.kind == "raise":
                c_rest.fail(f"{shape}: FileStorage(stream, filename, name, ...) raises {fmt(o.value)}", T("raise", (), src=o.where) if o.where else None, o)
                continue
            if not isinstance(o.value, Obj):
                raise AnalysisError(f"R2.6: FileStorage(...) evaluates to `{fmt(o.value)}` (shape not understood)")
            n += 1
            at = o.value.attrs
            got = at.get("filename")
            if _through_identity(got) == hh["fn"] and isinstance(_through_identity(got), T):
                c_fn.ok("filename = the given filename (through os.fsdecode only)")
            elif got is None:
                c_fn.fail(f"{shape}: an explicitly given filename is dropped (filename = None): such an upload comes back without its filename, and on the encoding side goes out as a plain field", None, o)
            else:
                # os.fsdecode & co. are named by this clause, so they are not "unknown functions outside the package" here
                c_fn.fail(f"{shape}: an explicitly given filename FN is stored as `{fmt(got)}`", alt(first_impure(_peel_identity(got), set()), None), o)
            if at.get("stream") is not hh["stream"]:
                c_rest.fail(f"{shape}: the given stream is stored as `{fmt(at.get('stream'))}`", at.get("stream") if isinstance(at.get("stream"), T) else None, o)
            elif not (isinstance(at.get("name"), T) and at.get("name") == hh["name"]):
                c_rest.fail(f"{shape}: the given field name is stored as `{fmt(at.get('name'))}`", at.get("name") if isinstance(at.get("name"), T) else None, o)
            elif shape == "parser":
                h = at.get("headers")
                copy_of = isinstance(h, T) and h.op.endswith(".Headers") and [*h.args, *[x for _, x in h.kw]] == [hh["hdrs"]]
                log = [e for e in getattr(hh["hdrs"], "log", []) if e and e[0] == "set"]
                if not (h is hh["hdrs"] or copy_of):
                    c_rest.fail(f"parser: the given headers are stored as `{fmt(h, 2)}`", h if isinstance(h, T) else None, o)
                elif log:
                    c_rest.fail(f"parser: the given headers are changed although no content type / length is given: {fmt(log)}", None, o)
                else:
                    c_rest.ok("parser: stream, name, headers as given")
            else:
                h = at.get("headers")
                pairs = _header_pairs(h, o) if isinstance(h, T) else None
                if pairs is None:
                    raise AnalysisError(f"R2.6: FileStorage(stream, filename, name, content_type).headers is `{fmt(h, 2)}`: not a Headers object whose entries can be read off the path (shape not understood)")
                ctp = [(k, v) for k, v in pairs if isinstance(k, str) and k.lower() == "content-type"]
                if len(ctp) == 1 and isinstance(ctp[0][1], T) and ctp[0][1] == hh["ct"] and len(pairs) == 1:
                    c_rest.ok("builder: stream, name as given, Content-Type = the given content type")
                else:
                    c_rest.fail(f"builder: the headers hold {fmt(pairs)}, expected exactly Content-Type = the given content type", None, o)
    ctx.floor("R2.6", "returning paths of the FileStorage scenarios", n, 2)
    c_fn.done()
    c_rest.done()


def rule_2_6(ctx: Ctx, repo: Repo, folder: Folder) -> None:
    fg = repo.func(f"{TEST}.EnvironBuilder.get_environ")
    ctx.saw(fg)
    c_run = Check(ctx, "R2.6", fg, "get_environ completes for a builder holding form / files / args", "get_environ: completes")
    c_mp = Check(ctx, "R2.6", fg, "multipart: form and files are encoded together; wsgi.input is the returned stream, CONTENT_LENGTH its length, CONTENT_TYPE multipart/form-data with the returned boundary", "get_environ: multipart wiring")
    c_ue = Check(ctx, "R2.6", fg, "urlencoded: wsgi.input holds _urlencode(form) encoded, rewound; CONTENT_LENGTH is its length; CONTENT_TYPE application/x-www-form-urlencoded", "get_environ: urlencoded wiring")
    c_qs = Check(ctx, "R2.6", fg, "QUERY_STRING is _urlencode(args) (through the WSGI encoding dance only)", "get_environ: query string")
    n = 0
    for mode in ("multipart", "urlencoded", "multipart-explicit"):
        hold: dict[str, t.Any] = {}

        def thunk(ip_: Interp, mode=mode, hold=hold) -> t.Any:
            ebc = cls_of(repo, f"{TEST}.EnvironBuilder")
            self_ = Obj(ebc, "self")
            form = _multidict("FORM", [(sym("K1", "str", True), sym("V1", "str"))])
            files = _multidict("FILES", [(sym("K2", "str", True), _file_value("2", []))]) if mode == "multipart" else None
            if files is not None:
                files.cls_fq = "werkzeug.datastructures.file_storage.FileMultiDict"
            args = _multidict("ARGS", [(sym("A1", "str", True), sym("AV1", "str"))])
            self_.attrs.update(
                headers=scripted_headers("HDRS", {"content-type": "multipart/form-data"} if mode == "multipart-explicit" else {}),
                _input_stream=None, _form=form, _files=files, _query_string=None, _args=args,
                environ_base=None, environ_overrides=None, closed=False,
            )
            for nm in ("request_uri", "path", "script_root", "method", "host", "url_scheme"):
                self_.attrs[nm] = sym(f"self.{nm}", "str", True)
            stream = FileModel("ENCODED")
            stream.content.append(sym("ENCODED-BODY", "bytes", True))
            hold.update(form=form, files=files, args=args, stream=stream, length=sym("LEN", "int"), bnd=sym("BND", "str", True), sem=[], ue=[])

            def sem(ip__: Interp, a: list, k: dict) -> t.Any:
                hold["sem"].append((list(a), dict(k)))
                return (stream, hold["length"], hold["bnd"])

            def ue(ip__: Interp, a: list, k: dict) -> t.Any:
                r = T(f"{URLS}._urlencode", (a[0] if a else k.get("query"),), pytype="str")
                hold["ue"].append(r)
                return r

            ip_.stubs[f"{TEST}.stream_encode_multipart"] = sem
            ip_.stubs[f"{URLS}._urlencode"] = ue
            return ip_.call(ip_.getattr(self_, "get_environ"), [], {})

        ip = Interp(repo, folder, open_modules={TEST})
        snaps: list = []

        def wrapped(ip_: Interp, thunk=thunk, hold=hold, snaps=snaps) -> t.Any:
            try:
                return thunk(ip_)
            finally:
                snaps.append(dict(hold))

        outs = ip.explore(wrapped)
        check_raises(c_run, outs, set())
        for o, hh in zip(outs, snaps):
            if o.kind != "return":
                continue
            env = o.value
            if not isinstance(env, dict):
                raise AnalysisError(f"R2.6: get_environ returns `{fmt(env)}`, not a dict built in the function (shape not understood)")
            n += 1
            qs = env.get("QUERY_STRING")
            want_ue = T(f"{URLS}._urlencode", (hh["args"],), pytype="str")
            inner = qs
            if isinstance(qs, T) and qs.op == "werkzeug._internal._wsgi_encoding_dance":
                vals = list(qs.args) + [x for _, x in qs.kw]
                inner = vals[0] if len(vals) == 1 else None
            if not (isinstance(inner, T) and inner == want_ue):
                c_qs.fail(f"QUERY_STRING is `{fmt(qs)}`, expected _urlencode(args)", alt(first_impure(qs, {"werkzeug._internal._wsgi_encoding_dance", f"{URLS}._urlencode"}), qs), o)
            else:
                c_qs.ok("QUERY_STRING = dance(_urlencode(args))")
            inp, cl, ct = env.get("wsgi.input"), env.get("CONTENT_LENGTH"), env.get("CONTENT_TYPE")
            if mode in ("multipart", "multipart-explicit"):
                if len(hh["sem"]) != 1:
                    c_mp.fail(f"stream_encode_multipart is called {len(hh['sem'])} time(s) for a builder " + ("with files" if mode == "multipart" else "whose content type is set to multipart/form-data (fields only)"), None, o)
                    continue
                a, k = hh["sem"][0]
                data = a[0] if a else k.get("data")
                if not (_mentions(data, hh["form"]) and (hh["files"] is None or _mentions(data, hh["files"]))):
                    c_mp.fail(f"the encoded data `{fmt(data, 2)}` does not contain both the form and the files", data if isinstance(data, T) else None, o)
                    continue
                if inp is not hh["stream"]:
                    c_mp.fail(f"wsgi.input is `{fmt(inp)}`, not the stream stream_encode_multipart returned", None, o)
                    continue
                if not (isinstance(cl, T) and cl == T("str", (hh["length"],), pytype="str")):
                    c_mp.fail(f"CONTENT_LENGTH is `{fmt(cl)}`, expected str(length returned by stream_encode_multipart)", cl, o)
                    continue
                try:
                    text = H.concretise(ct, {"BND": "bNd-1"})
                except H.Impure as e:
                    c_mp.fail(f"CONTENT_TYPE is `{fmt(ct)}`: {e.why}", e.term, o)
                    continue
                toks = [x.strip() for x in text.split(";")] if isinstance(text, str) else []
                params = {x.partition("=")[0].strip().lower(): x.partition("=")[2].strip() for x in toks[1:]}
                b = params.get("boundary", "")
                if b.startswith('"') and b.endswith('"') and len(b) >= 2:
                    b = b[1:-1]
                if not toks or toks[0].lower() != "multipart/form-data" or b != "bNd-1":
                    c_mp.fail(f"CONTENT_TYPE is `{fmt(ct)}`: it must be multipart/form-data with boundary = the boundary returned", ct if isinstance(ct, T) else None, o)
                    continue
                c_mp.ok("stream, str(length), multipart/form-data; boundary=<returned>")
            else:
                want_body = T(f"{URLS}._urlencode", (hh["form"],), pytype="str")
                if not isinstance(inp, FileModel):
                    c_ue.fail(f"wsgi.input is `{fmt(inp)}`", None, o)
                    continue
                body = H.file_text(inp)
                if not (isinstance(body, T) and body.op == "enc" and body.args[0] == want_body and body.args[1] in ("ascii", "utf-8", "latin-1")):
                    c_ue.fail(f"wsgi.input holds `{fmt(body)}`, expected _urlencode(form) encoded", alt(first_impure(body, {"enc", f"{URLS}._urlencode"}), body if isinstance(body, T) else None), o)
                    continue
                if inp.pos != 0:
                    c_ue.fail(f"wsgi.input is at position {fmt(inp.pos)}", None, o)
                    continue
                if not (isinstance(cl, T) and cl == T("str", (T("len", (body,), pytype="int"),), pytype="str")):
                    c_ue.fail(f"CONTENT_LENGTH is `{fmt(cl)}`, expected str(len(body))", cl if isinstance(cl, T) else None, o)
                    continue
                if not (isinstance(ct, str) and ct.split(";")[0].strip().lower() == "application/x-www-form-urlencoded"):
                    c_ue.fail(f"CONTENT_TYPE is `{fmt(ct)}`", ct if isinstance(ct, T) else None, o)
                    continue
                c_ue.ok("BytesIO(_urlencode(form).encode()), str(len), application/x-www-form-urlencoded")
    ctx.floor("R2.6", "returning paths of the get_environ scenarios", n, 2)
    for c in (c_run, c_mp, c_ue, c_qs):
        c.done()

    _builder_intake(ctx, repo, folder)
    _add_file_clause(ctx, repo, folder)
    _file_storage_clause(ctx, repo, folder)

    # ---- FormDataParser.parse dispatch
    fp = repo.func(f"{FP}.FormDataParser.parse")
    ctx.saw(fp)
    c_disp = Check(ctx, "R2.6", fp, "FormDataParser.parse (multipart): the boundary option reaches the decoder encoded, and (stream, form, files) come back in that order", "FormDataParser.parse: multipart dispatch")
    thunk, info = _parse_scenario(repo, [("Field", "1", ["D1"], False), ("File", "2", ["D2"], True)], entry="formdata")
    ip = Interp(repo, folder, open_modules={FP})
    snaps2: list = []

    def wrapped2(ip_: Interp) -> t.Any:
        try:
            return thunk(ip_)
        finally:
            snaps2.append(dict(info))

    outs = ip.explore(wrapped2)
    check_raises(c_disp, outs)
    for o, snap in zip(outs, snaps2):
        if o.kind != "return":
            continue
        v = o.value
        init = [e for e in snap["decoder"].log if e[0] == "init"]
        if not init:
            c_disp.fail("a multipart body with a boundary is not handed to the decoder", None, o)
            continue
        barg = init[0][1][0] if init[0][1] else init[0][2].get("boundary")
        if not (isinstance(barg, T) and barg.op == "enc" and barg.args[0] == snap["bnd"] and barg.args[1] in ("ascii", "utf-8", "latin-1")):
            c_disp.fail(f"the decoder is created with boundary `{fmt(barg)}`, the content type says {fmt(snap['bnd'])}", barg if isinstance(barg, T) else None, o)
            continue
        if not (isinstance(v, tuple) and len(v) == 3 and v[0] is snap["stream"]):
            c_disp.fail(f"returns `{fmt(v)}`, not (stream, form, files)", None, o)
            continue
        names = []
        for part in v[1:]:
            lst = None
            if isinstance(part, T):
                rest = [x for x in list(part.args[1:] if part.op == "call" else part.args) + [x for _, x in part.kw]]
                lst = unwrap_list(rest[0]) if len(rest) == 1 else ([] if not rest else None)
            names.append([p[0] for p in lst] if lst is not None and all(isinstance(p, tuple) and len(p) == 2 for p in lst) else None)
        want = [[m["name"] for m in snap["model"] if m["kind"] == "Field"], [m["name"] for m in snap["model"] if m["kind"] == "File"]]
        if names != want:
            c_disp.fail(f"(form, files) carry names {fmt(names)}, expected {fmt(want)}", None, o)
        else:
            c_disp.ok("decoder(boundary.encode()), (stream, form, files)")
    c_disp.done()
    c_ud = Check(ctx, "R2.6", fp, "FormDataParser.parse (urlencoded): the body goes to the urlencoded reader and its form comes back second", "FormDataParser.parse: urlencoded dispatch")
    calls: list = []
    result = [(sym("QK1", "str"), sym("QV1", "str"))]
    h3: dict[str, t.Any] = {}

    def thunk3(ip_: Interp) -> t.Any:
        del calls[:]
        _qsl_stub(ip_, calls, result)
        self_ = Obj(cls_of(repo, f"{FP}.FormDataParser"), "self")
        body = sym("BODY", "bytes")
        stream = Scripted("stream")
        stream.strict = True  # type: ignore[attr-defined]
        stream.methods["read"] = lambda ip__, a, k: body if not a or a[0] in (None, -1) else T("read-part", (body, a[0]), pytype="bytes")
        h3.update(stream=stream)
        return ip_.call(ip_.getattr(self_, "parse"), [stream, "application/x-www-form-urlencoded", sym("CL", "int"), None], {})

    ip3 = Interp(repo, folder, open_modules={FP})
    outs3 = ip3.explore(thunk3)
    check_raises(c_ud, outs3)
    for o in returns(outs3):
        v = o.value
        ok = isinstance(v, tuple) and len(v) == 3 and isinstance(v[1], T)
        lst = None
        if ok:
            rest = list(v[1].args[1:] if v[1].op == "call" else v[1].args) + [x for _, x in v[1].kw]
            lst = unwrap_list(rest[0]) if len(rest) == 1 else None
        if not ok or lst is None or as_pairs(lst) != result:
            c_ud.fail(f"returns `{fmt(v)}`: the form parsed from the body is not the second element", None, o)
        else:
            c_ud.ok("(stream, cls(parse_qsl(body)), cls())")
    c_ud.done()


# ---------------------------------------------------------------------
# R2.7  the Content-Disposition line the encoder writes, read back by parse_options_header

HTTP = "werkzeug.http"
EXCLUDED_FROM_DOMAIN = ('"', "\\", "\r", "\n", "%22")


def _delimiters_of(repo: Repo, folder: Folder, fi: FuncInfo) -> set[str]:
    """punctuation characters that occur in the string constants of the function and in the patterns of the module-level
    regexes it uses: the characters the reader gives a meaning to"""
    texts: list[str] = []
    for n in ast.walk(fi.node):
        if isinstance(n, ast.Constant) and isinstance(n.value, str) and n is not getattr(fi.node.body[0], "value", None):  # type: ignore[attr-defined]
            texts.append(n.value)
        elif isinstance(n, ast.Name) and n.id in fi.module.assigns:
            try:
                v = folder.name(fi.module, n.id)
            except AnalysisError:
                continue
            if isinstance(v, H.RegexConst) and isinstance(v.pattern, str):
                texts.append(v.pattern)
            elif isinstance(v, str):
                texts.append(v)
    return {ch for tx in texts for ch in tx if ch.isprintable() and not ch.isalnum() and ch not in EXCLUDED_FROM_DOMAIN}


def _value_family(delims: set[str]) -> list[str]:
    fam: list[str] = ["aB", "", "näme ü", "a b", " a", "a ", "a=b", "name=a", "a, b"]
    for c in sorted(delims | {";", "=", " ", "*", "'", "%", ",", ":"}):
        fam += [f"a{c}B", f"{c}a", f"a{c}"]
    # parameter look-alikes inside the quoted value, RFC 2231 look-alikes, percent escapes of characters the reader could be tempted to undo
    fam += ["who; name=else", "who; filename=else", "who;name=else", "x; name*=utf-8''y", "a*0", "a*", "utf-8''a", "a; b; c=d"]
    fam += [f"a%{h}b" for h in ("0D", "0A", "5C", "25", "3B", "20", "2F", "c3%a4")]
    out: list[str] = []
    for v in fam:
        if v not in out and not any(x in v for x in EXCLUDED_FROM_DOMAIN):
            out.append(v)
    return out


def rule_2_7(ctx: Ctx, repo: Repo, folder: Folder) -> None:
    fe = repo.func(f"{MP}.MultipartEncoder.send_event")
    fp = repo.func(f"{HTTP}.parse_options_header")
    ctx.saw(fe, fp)
    # the line the encoder writes, with the name and the filename symbolic
    ipe = Interp(repo, folder, open_modules={MP})

    def enc_thunk(ip_: Interp) -> t.Any:
        enc = ip_.instantiate(cls_of(repo, f"{MP}.MultipartEncoder"), [SAMPLE_BOUNDARY], {})
        ip_.call(ip_.getattr(enc, "send_event"), [event(ip_, repo, "Preamble", data=b"")], {})
        return ip_.call(ip_.getattr(enc, "send_event"), [event(ip_, repo, "File", name=sym("N1", "str", True), filename=sym("F1", "str", True), headers=scripted_headers("H0", {}))], {})

    heads = [o.value for o in returns(ipe.explore(enc_thunk))]
    if not heads:
        raise AnalysisError("R2.7: the encoder produced no output for a File event (shape not understood)")
    delims = _delimiters_of(repo, folder, fp)
    ctx.floor("R2.7", "delimiter characters found as constants in parse_options_header", len(delims), 3)
    family = _value_family(delims)
    c = Check(ctx, "R2.7", fp, "parse_options_header reads the Content-Disposition line the encoder writes back as exactly ('form-data', {name, filename}) for every value of the family", "parse_options_header: encoder's Content-Disposition line")
    ipp = Interp(repo, folder, open_modules={HTTP}, max_loop=2000)
    n = 0
    unknown: list[str] = []
    for head in heads:
        for i, val in enumerate(family):
            other = family[(i * 7 + 3) % len(family)]
            for nm, fn in ((val, "plain.txt"), ("field", val), (val, other)):
                try:
                    wire = H.concretise(head, {"N1": nm, "F1": fn})
                except H.Impure:
                    continue  # reported by R2.3
                if not isinstance(wire, bytes):
                    continue
                lines = [l for l in wire.split(b"\r\n") if l.split(b":", 1)[0].strip().lower() == b"content-disposition"]
                if len(lines) != 1:
                    continue  # reported by R2.3
                try:
                    text = lines[0].split(b":", 1)[1].strip().decode("utf-8")
                except UnicodeDecodeError:
                    continue  # the encoder did not write utf-8: reported by R2.3

                def thunk(ip_: Interp, text=text) -> t.Any:
                    return ip_.call(ip_.load_name("parse_options_header", Frame(fp.module)), [text], {})

                outs = ipp.explore(thunk, limit=50)
                n += 1
                want = ("form-data", {"name": nm, "filename": fn})
                for o in outs:
                    if o.kind == "raise":
                        c.fail(f"`{text}` makes parse_options_header raise {fmt(o.value)}", None, o)
                    elif o.kind == "return":
                        got = o.value
                        if H._has_term(got):
                            unknown.append(f"parse_options_header({text!r}) did not evaluate to constants: {fmt(got)}")
                        elif not (isinstance(got, tuple) and len(got) == 2 and got[0] == want[0] and got[1] == want[1]):
                            c.fail(f"the encoder writes `{text}` for name={nm!r}, filename={fn!r}; parse_options_header returns {got!r}", None, o if o.run.doubt else None)
                        else:
                            c.ok(f"{len(family)} values x 3 positions read back")
    ctx.floor("R2.7", "header lines evaluated", n, 30)
    if unknown and not c.bad:
        raise AnalysisError("R2.7: " + unknown[0])
    c.done()
