"""Path-wise symbolic execution of small functions (used by the C20 rules).

The C20 rules are statements about *values and paths* ("which values can reach
`return True`", "which decisions precede the evaluation of console code on every
path, also through helpers", "the counter is tested before the PIN is compared").
They are decided here on the meaning of the code, not on its spelling:

* a function is executed symbolically, one path at a time.  Values are terms
  (hashable tuples) built from the parameters; locals, flags, tuple unpacking,
  conditional expressions, `and`/`or` in value position, early returns, split or
  merged conditions and if/else flips all disappear because only the resulting
  terms and the ordered list of *decisions* (canonical atom -> truth value) remain;
* calls to private helpers (functions of the same module, methods of the same
  class) that are not in the caller-supplied ``opaque`` set are inlined, so a
  guard in the caller covers an operation in a helper and vice versa;
* `for` loops over an unknown iterable are unrolled 0, 1 and 2 times with
  distinct element terms (so state leaking from one iteration into the next is
  seen); `any(...)` / `all(...)` over one generator are treated the same way;
* selected library calls may raise (the idna codec -> UnicodeError, int() ->
  ValueError): the exceptional continuation is explored through the enclosing
  try statements of the whole inlined call stack;
* every path is enumerated by re-running a deterministic interpreter under an
  explicit choice sequence (depth-first over the choice tree).

Nothing of the analysed program is executed: the interpreter only builds terms.
"""

from __future__ import annotations

import ast
import typing as t

from ..loader import AnalysisError, FuncInfo, dotted

Term = tuple

NONE: Term = ("const", "NoneType", None)
TRUE: Term = ("const", "bool", True)
FALSE: Term = ("const", "bool", False)

_CMP = {ast.Eq: "eq", ast.NotEq: "ne", ast.Is: "is", ast.IsNot: "isnot", ast.In: "in", ast.NotIn: "notin", ast.Lt: "lt", ast.Gt: "gt", ast.LtE: "le", ast.GtE: "ge"}
_BIN = {ast.Add: "+", ast.Sub: "-", ast.Mult: "*", ast.Div: "/", ast.FloorDiv: "//", ast.Mod: "%", ast.BitAnd: "&", ast.BitOr: "|", ast.BitXor: "^", ast.LShift: "<<", ast.RShift: ">>", ast.Pow: "**", ast.MatMult: "@"}

# exception name -> names a handler may use to catch it
_EXC_BASES = {
    "UnicodeError": ["UnicodeError", "ValueError", "Exception", "BaseException"],
    "UnicodeEncodeError": ["UnicodeEncodeError", "UnicodeError", "ValueError", "Exception", "BaseException"],
    "UnicodeDecodeError": ["UnicodeDecodeError", "UnicodeError", "ValueError", "Exception", "BaseException"],
    "ValueError": ["ValueError", "Exception", "BaseException"],
    "KeyError": ["KeyError", "LookupError", "Exception", "BaseException"],
    "IndexError": ["IndexError", "LookupError", "Exception", "BaseException"],
    "SecurityError": ["SecurityError", "BadRequest", "HTTPException", "Exception", "BaseException"],
}


def const(v: t.Any) -> Term:
    return ("const", type(v).__name__, v)


def is_const(x: Term) -> bool:
    return x[0] == "const"


def mentions(x: t.Any, sub: Term) -> bool:
    if x == sub:
        return True
    if isinstance(x, tuple):
        return any(mentions(y, sub) for y in x)
    return False


def subst(x: t.Any, old: Term, new: Term) -> t.Any:
    if x == old:
        return new
    if isinstance(x, tuple):
        return tuple(subst(y, old, new) for y in x)
    return x


def subterms(x: t.Any) -> t.Iterator[Term]:
    if isinstance(x, tuple):
        if x and isinstance(x[0], str):
            yield x
        for y in x:
            yield from subterms(y)


def show(x: t.Any) -> str:
    """readable pseudo-source of a term (for facts; never compared)."""
    if not isinstance(x, tuple) or not x:
        return repr(x)
    k = x[0]
    if k == "const":
        return repr(x[2])
    if k == "param" or k == "name":
        return x[1]
    if k == "attr":
        return f"{show(x[1])}.{x[2]}"
    if k == "call":
        args = [show(a) for a in x[2]] + [f"{n}={show(v)}" for n, v in x[3]]
        return f"{show(x[1])}({', '.join(args)})"
    if k == "sub":
        return f"{show(x[1])}[{show(x[2])}]"
    if k == "slice":
        return ":".join("" if p == NONE else show(p) for p in x[1:3])
    if k == "cmp":
        op = {"eq": "==", "ne": "!=", "is": "is", "isnot": "is not", "in": "in", "notin": "not in", "lt": "<", "gt": ">", "le": "<=", "ge": ">="}[x[1]]
        return f"{show(x[2])} {op} {show(x[3])}"
    if k == "not":
        return f"not ({show(x[1])})"
    if k == "binop":
        return f"({show(x[2])} {x[1]} {show(x[3])})"
    if k == "concat":
        return " + ".join(show(p) for p in x[1])
    if k == "elem":
        return f"<item {x[2]} of {show(x[1])}>"
    if k in ("head", "tail", "sep", "rhead", "rtail", "rsep"):
        return f"<{k} of {show(x[1])} at {show(x[2])}>"
    if k in ("tuple", "list", "set"):
        return k + "(" + ", ".join(show(p) for p in x[1]) + ")"
    if k == "dict":
        return "{" + ", ".join(f"{show(a)}: {show(b)}" for a, b in x[1]) + "}"
    if k == "opaque":
        return f"<{x[1]}>"
    if k == "enter":
        return f"<entered {show(x[1])}>"
    if k == "fmt":
        return f"format({show(x[1])})"
    return "<" + " ".join(show(p) if isinstance(p, tuple) else str(p) for p in x) + ">"


def canon_atom(x: Term) -> tuple[Term, bool]:
    """(key, positive): the term is truthy iff the key's truth value == positive."""
    pol = True
    while True:
        if x[0] == "not":
            x, pol = x[1], not pol
            continue
        if x[0] == "call" and x[1] == ("name", "bool") and len(x[2]) == 1 and not x[3]:
            x = x[2][0]
            continue
        break
    if x[0] == "sep" or x[0] == "rsep":
        return ("cmp", "in", x[2], x[1]), pol
    if x[0] == "cmp":
        op, a, b = x[1], x[2], x[3]
        if op in ("eq", "ne"):
            for p, q in ((a, b), (b, a)):
                sp = _split_once(p[2][0]) if p[0] == "call" and p[1] == ("name", "len") and len(p[2]) == 1 else None
                if sp is not None and is_const(q) and q[2] in (1, 2) and q[1] == "int":
                    return ("cmp", "in", sp[1], sp[0]), ((q[2] == 2) == (op == "eq")) == pol
                if p[0] in ("sep", "rsep") and is_const(q):
                    key = ("cmp", "in", p[2], p[1])
                    if q[2] == "":
                        return key, (op == "ne") == pol
                    if q == p[2]:
                        return key, (op == "eq") == pol
            a, b = sorted((a, b), key=repr)
            return ("cmp", "eq", a, b), (op == "eq") == pol
        if op in ("is", "isnot"):
            if a == NONE or (b != NONE and repr(b) < repr(a)):
                a, b = b, a
            return ("cmp", "is", a, b), (op == "is") == pol
        if op in ("in", "notin"):
            return ("cmp", "in", a, b), (op == "in") == pol
        if op == "lt":
            return ("cmp", "lt", a, b), pol
        if op == "gt":
            return ("cmp", "lt", b, a), pol
        if op == "le":
            return ("cmp", "lt", b, a), not pol
        if op == "ge":
            return ("cmp", "lt", a, b), not pol
    return x, pol


def _split_once(x: Term) -> tuple[Term, Term] | None:
    """x is V.split(S, 1) / V.rsplit(S, 1): (V, S)."""
    if x[0] == "call" and x[1][0] == "attr" and x[1][2] in ("split", "rsplit") and x[2]:
        ms = x[2][1] if len(x[2]) > 1 else dict(x[3]).get("maxsplit")
        if ms == const(1):
            return x[1][1], x[2][0]
    return None


def int_gt(key: Term, value: bool, subject: Term) -> int | None:
    """read a decided canonical `<` atom about the integer ``subject`` as `subject > c`: returns c when the
    decision (key == value) means exactly `subject > c`, None when it is not such a statement."""
    if key[0] != "cmp" or key[1] != "lt":
        return None
    a, b = key[2], key[3]
    if a[0] == "const" and a[1] == "int" and b == subject:  # c < s
        return a[2] if value else None
    if b[0] == "const" and b[1] == "int" and a == subject:  # s < c  ; false: s >= c  == s > c-1
        return None if value else b[2] - 1
    return None


def int_le(key: Term, value: bool, subject: Term) -> int | None:
    """the decision means exactly `subject <= c`."""
    if key[0] != "cmp" or key[1] != "lt":
        return None
    a, b = key[2], key[3]
    if a[0] == "const" and a[1] == "int" and b == subject:  # c < s false: s <= c
        return None if value else a[2]
    if b[0] == "const" and b[1] == "int" and a == subject:  # s < c true: s <= c-1
        return b[2] - 1 if value else None
    return None


def infer(pc: t.Sequence[tuple[Term, bool]], key: Term) -> bool | None:
    """truth value of the canonical atom ``key`` given the decisions ``pc`` (None: not determined).  Besides the
    decision itself a few implications between atoms about the same value are applied."""
    if key[0] == "const":
        return bool(key[2])
    if key[0] in ("list", "tuple", "set", "dict"):
        return bool(key[1])
    if key[0] == "concat":
        if any(is_const(p) and p[2] for p in key[1]):
            return True
    if key[0] == "cmp" and key[1] == "eq" and key[2] == key[3]:
        return True
    if key[0] == "cmp" and key[1] in ("eq", "is") and is_const(key[2]) and is_const(key[3]):
        return key[2] == key[3]
    for k, v in pc:
        if k == key:
            return v
    if key[0] == "cmp" and key[1] == "is" and is_const(key[3]) and key[3][2] in (None, True, False):
        x, c = key[2], key[3][2]
        for k, v in pc:
            if k == x and (v is True) and c in (None, False):
                return False  # truthy: neither None nor False
            if k == x and (v is False) and c is True:
                return False
            if v and k[0] == "cmp" and k[1] == "is" and k[2] == x and is_const(k[3]) and k[3] != key[3]:
                return False  # it is another singleton
            if v and k[0] == "cmp" and k[1] == "eq" and c is None and ((k[2] == x and is_const(k[3]) and k[3] != NONE) or (k[3] == x and is_const(k[2]) and k[2] != NONE)):
                return False
        if c is None:
            if x[0] in ("concat", "list", "tuple", "set", "dict", "cmp", "not", "head", "tail", "sep", "rhead", "rtail", "rsep"):
                return False
            if x[0] == "call" and x[1][0] in ("name", "attr") and x[1][-1][:1].isupper():
                return False  # a class instantiation
    if key[0] == "cmp" and key[1] == "eq":
        for x, c in ((key[2], key[3]), (key[3], key[2])):
            if is_const(c):
                for k, v in pc:
                    if v and k[0] == "cmp" and k[1] == "eq" and k != key:
                        for x2, c2 in ((k[2], k[3]), (k[3], k[2])):
                            if x2 == x and is_const(c2) and c2 != c:
                                return False
                    if v and k == ("cmp", "is", x, NONE) and c != NONE:
                        return False
    for k, v in pc:
        if v and k[0] == "cmp" and k[1] == "is" and k[2] == key and is_const(k[3]) and k[3][2] in (None, True, False):
            return k[3][2] is True  # `x is None` / `x is False`: falsy; `x is True`: truthy
    return None


class Decided(dict):
    """the decisions of a path prefix; ``get`` also answers atoms that follow from them."""

    def get(self, k, default=None):  # type: ignore[override]
        v = infer(list(self.items()), k)
        return default if v is None else v


class Ev(t.NamedTuple):
    kind: str  # call | store | setitem | with | load
    term: Term
    value: Term | None
    pc_len: int
    withs: tuple[tuple[int, Term], ...]
    fn: str
    node: ast.AST | None
    depth: int


class Path:
    def __init__(self, outcome: str, value: Term | None, exc: str | None, pc: list[tuple[Term, bool]], events: list[Ev], node: ast.AST | None, truthy: bool | None):
        self.outcome = outcome  # return | raise | cut
        self.value = value
        self.exc = exc
        self.pc = pc
        self.events = events
        self.node = node
        self.truthy = truthy  # truth value of the returned value (decided on this path), when asked for

    def decided(self, upto: int | None = None) -> Decided:
        return Decided(self.pc[: len(self.pc) if upto is None else upto])

    def index_of(self, key: Term) -> int | None:
        for i, (k, _) in enumerate(self.pc):
            if k == key:
                return i
        return None

    def describe(self) -> str:
        return " & ".join(("" if v else "not ") + "(" + show(k) + ")" for k, v in self.pc) or "(unconditional)"


class _Return(Exception):
    def __init__(self, value: Term, node: ast.AST | None):
        self.value = value
        self.node = node


class _Raise(Exception):
    def __init__(self, exc: str, term: Term | None, node: ast.AST | None):
        self.exc = exc
        self.term = term
        self.node = node


class _Break(Exception):
    pass


class _Continue(Exception):
    pass


class _Cut(Exception):
    def __init__(self, why: str, node: ast.AST | None = None):
        self.why = why
        self.node = node


class Run:
    """one deterministic run under a forced choice prefix."""

    def __init__(self, prefix: list[int]):
        self.prefix = prefix
        self.trace: list[tuple[int, int]] = []

    def choose(self, n: int) -> int:
        i = len(self.trace)
        c = self.prefix[i] if i < len(self.prefix) else 0
        self.trace.append((c, n))
        return c


def default_raiser(call: Term) -> str | None:
    f = call[1]
    if f[0] == "attr" and f[2] == "encode" and call[2] and call[2][0] == const("idna"):
        return "UnicodeError"
    if f == ("name", "int") and call[2]:
        return "ValueError"
    return None


class _Frame:
    def __init__(self, fi: FuncInfo, env: dict[str, Term], depth: int):
        self.fi = fi
        self.env = env
        self.depth = depth


class Interp:
    def __init__(self, fi: FuncInfo, run: Run, opaque: t.Collection[str], raiser: t.Callable[[Term], str | None] = default_raiser, watch: t.Callable[[Term], bool] | None = None, unroll: int = 2, max_depth: int = 5):
        self.top = fi
        self.run = run
        self.opaque = set(opaque)
        self.raiser = raiser
        self.watch = watch
        self.unroll = unroll
        self.max_depth = max_depth
        self.pc: list[tuple[Term, bool]] = []
        self.events: list[Ev] = []
        self.heap: dict[Term, Term] = {}
        self.withs: list[tuple[int, Term]] = []
        self.with_ids = 0
        self.frames: list[_Frame] = []
        self.handling: list[_Raise] = []
        self.inlined: set[str] = set()
        self.steps = 0

    # ------------------------------------------------------------------ truth
    def known(self, key: Term) -> bool | None:
        return infer(self.pc, key)

    def truth(self, x: Term) -> bool:
        key, pol = canon_atom(x)
        v = self.known(key)
        if v is None:
            v = bool(self.run.choose(2))
            self.pc.append((key, v))
        return v == pol

    # ------------------------------------------------------------------ events
    def emit(self, kind: str, term: Term, value: Term | None, node: ast.AST | None) -> None:
        fr = self.frames[-1]
        self.events.append(Ev(kind, term, value, len(self.pc), tuple(self.withs), fr.fi.qualname, node, fr.depth))

    # ------------------------------------------------------------------ running
    def run_top(self, want_truth: bool = False) -> Path:
        fi = self.top
        env = {p: ("param", p) for p in fi.params}
        self.frames.append(_Frame(fi, env, 0))
        try:
            try:
                self.block(fi.node.body)  # type: ignore[attr-defined]
                val, node = NONE, None
            except _Return as r:
                val, node = r.value, r.node
            tv = self.truth(val) if want_truth else None
            return Path("return", val, None, self.pc, self.events, node, tv)
        except _Raise as r:
            return Path("raise", r.term, r.exc, self.pc, self.events, r.node, None)
        except _Cut as c:
            return Path("cut", ("opaque", c.why), None, self.pc, self.events, c.node, None)
        except RecursionError:
            raise AnalysisError(f"symbolic execution of {fi.qualname} recursed too deep")

    def tick(self, node: ast.AST) -> None:
        self.steps += 1
        if self.steps > 20000:
            raise _Cut("step budget exhausted", node)

    @property
    def env(self) -> dict[str, Term]:
        return self.frames[-1].env

    # ------------------------------------------------------------------ statements
    def block(self, stmts: list[ast.stmt]) -> None:
        for st in stmts:
            self.stmt(st)

    def stmt(self, st: ast.stmt) -> None:
        self.tick(st)
        if isinstance(st, ast.Expr):
            self.ev(st.value)
        elif isinstance(st, ast.Assign):
            v = self.ev(st.value)
            for tg in st.targets:
                self.bind(tg, v, st)
        elif isinstance(st, ast.AnnAssign):
            if st.value is not None:
                self.bind(st.target, self.ev(st.value), st)
        elif isinstance(st, ast.AugAssign):
            cur = self.ev(_as_load(st.target))
            v = self.binop(_BIN.get(type(st.op), "?"), cur, self.ev(st.value))
            self.bind(st.target, v, st)
        elif isinstance(st, ast.If):
            if self.truth(self.ev(st.test)):
                self.block(st.body)
            else:
                self.block(st.orelse)
        elif isinstance(st, (ast.For, ast.AsyncFor)):
            self.for_(st)
        elif isinstance(st, ast.While):
            n = 0
            broke = False
            while True:
                if not self.truth(self.ev(st.test)):
                    break
                n += 1
                if n > self.unroll + 1:
                    raise _Cut("while loop not exhausted by unrolling", st)
                try:
                    self.block(st.body)
                except _Break:
                    broke = True
                    break
                except _Continue:
                    continue
            if not broke:
                self.block(st.orelse)
        elif isinstance(st, ast.Try):
            self.try_(st)
        elif isinstance(st, (ast.With, ast.AsyncWith)):
            pushed = 0
            try:
                for it in st.items:
                    c = self.ev(it.context_expr)
                    self.with_ids += 1
                    self.emit("with", c, None, st)
                    self.withs.append((self.with_ids, c))
                    pushed += 1
                    if it.optional_vars is not None:
                        self.bind(it.optional_vars, ("enter", c), st)
                self.block(st.body)
            finally:
                for _ in range(pushed):
                    self.withs.pop()
        elif isinstance(st, ast.Return):
            raise _Return(self.ev(st.value) if st.value is not None else NONE, st)
        elif isinstance(st, ast.Raise):
            if st.exc is None:
                if self.handling:
                    raise self.handling[-1]
                raise _Raise("RuntimeError", None, st)
            x = self.ev(st.exc)
            f = x[1] if x[0] == "call" else x
            name = f[1] if f[0] == "name" else (f[2] if f[0] == "attr" else "Exception")
            raise _Raise(name, x, st)
        elif isinstance(st, ast.Break):
            raise _Break()
        elif isinstance(st, ast.Continue):
            raise _Continue()
        elif isinstance(st, ast.Assert):
            self.ev(st.test)
        elif isinstance(st, ast.Delete):
            for tg in st.targets:
                if isinstance(tg, ast.Name):
                    self.env.pop(tg.id, None)
        elif isinstance(st, (ast.FunctionDef, ast.AsyncFunctionDef, ast.ClassDef)):
            self.env[st.name] = ("opaque", f"def {st.name}")
        elif isinstance(st, (ast.Import, ast.ImportFrom)):
            for a in st.names:
                nm = (a.asname or a.name).split(".")[0]
                self.env[nm] = ("name", nm)
        elif isinstance(st, (ast.Pass, ast.Global, ast.Nonlocal)):
            pass
        else:
            raise AnalysisError(f"statement {type(st).__name__} is not modelled by the symbolic executor")

    def for_(self, st: ast.For | ast.AsyncFor) -> None:
        it = self.ev(st.iter)
        if it[0] in ("list", "tuple"):
            items = list(it[1])
        else:
            n = self.run.choose(self.unroll + 1)
            items = [("elem", it, k + 1) for k in range(n)]
        broke = False
        for x in items:
            self.bind(st.target, x, st)
            try:
                self.block(st.body)
            except _Break:
                broke = True
                break
            except _Continue:
                continue
        if not broke:
            self.block(st.orelse)

    def try_(self, st: ast.Try) -> None:
        try:
            try:
                self.block(st.body)
            except _Raise as r:
                h = self.handler_for(st, r.exc)
                if h is None:
                    raise
                if h.name:
                    self.env[h.name] = r.term if r.term is not None else ("opaque", r.exc)
                self.handling.append(r)
                try:
                    self.block(h.body)
                finally:
                    self.handling.pop()
                return
            self.block(st.orelse)
        finally:
            if st.finalbody:
                self.block(st.finalbody)

    @staticmethod
    def handler_for(st: ast.Try, exc: str) -> ast.ExceptHandler | None:
        chain = _EXC_BASES.get(exc, [exc, "Exception", "BaseException"])
        for h in st.handlers:
            if h.type is None:
                return h
            types = h.type.elts if isinstance(h.type, ast.Tuple) else [h.type]
            for ty in types:
                d = dotted(ty) or ""
                if d.rsplit(".", 1)[-1] in chain:
                    return h
        return None

    def bind(self, tg: ast.AST, v: Term, st: ast.AST) -> None:
        if isinstance(tg, ast.Name):
            self.env[tg.id] = v
        elif isinstance(tg, (ast.Tuple, ast.List)):
            n = len(tg.elts)
            sp = _split_once(v)
            if sp is not None and n == 2 and not self.truth(("cmp", "in", sp[1], sp[0])):
                # `a, b = s.split(sep, 1)` without the separator: one value to unpack
                raise _Raise("ValueError", ("opaque", "ValueError: not enough values to unpack"), st)
            for i, e in enumerate(tg.elts):
                if isinstance(e, ast.Starred):
                    self.bind(e.value, ("opaque", "starred"), st)
                elif v[0] in ("tuple", "list") and len(v[1]) == n:
                    self.bind(e, v[1][i], st)
                else:
                    self.bind(e, self.item(v, const(i)), st)
        elif isinstance(tg, ast.Attribute):
            base = self.ev(tg.value)
            target = ("attr", base, tg.attr)
            self.heap[target] = v
            self.emit("store", target, v, st)
        elif isinstance(tg, ast.Subscript):
            base = self.ev(tg.value)
            idx = self.ev(tg.slice)
            self.emit("setitem", ("sub", base, idx), v, st)
        else:
            raise AnalysisError(f"assignment target {type(tg).__name__} is not modelled")

    # ------------------------------------------------------------------ expressions
    def item(self, base: Term, idx: Term) -> Term:
        if base[0] == "dict" and base[1] and all(is_const(k) for k, _ in base[1]) and not is_const(idx):
            for k, v in base[1]:
                if self.truth(self.cmp("eq", idx, k)):
                    return v
            raise _Raise("KeyError", ("opaque", "KeyError"), None)
        if base[0] in ("tuple", "list") and is_const(idx) and isinstance(idx[2], int) and -len(base[1]) <= idx[2] < len(base[1]):
            return base[1][idx[2]]
        if base[0] == "call" and base[1][0] == "attr" and is_const(idx) and isinstance(idx[2], int) and base[2]:
            meth, recv, args, kw = base[1][2], base[1][1], base[2], dict(base[3])
            i = idx[2]
            if meth in ("partition", "rpartition") and len(args) == 1:
                pre = "" if meth == "partition" else "r"
                names = {0: pre + "head", 1: pre + "sep", 2: pre + "tail", -3: pre + "head", -2: pre + "sep", -1: pre + "tail"}
                if i in names:
                    return (names[i], recv, args[0])
            if meth in ("split", "rsplit"):
                ms = args[1] if len(args) > 1 else kw.get("maxsplit")
                if ms == const(1) and i in (0, 1):
                    pre = "" if meth == "split" else "r"
                    return ((pre + "head") if i == 0 else (pre + "tail"), recv, args[0])
        return ("sub", base, idx)

    def binop(self, op: str, a: Term, b: Term) -> Term:
        if op == "+":
            sa = a[0] == "concat" or (is_const(a) and isinstance(a[2], str))
            sb = b[0] == "concat" or (is_const(b) and isinstance(b[2], str))
            if sa or sb:
                return self.concat([a, b])
            if is_const(a) and is_const(b) and isinstance(a[2], int) and isinstance(b[2], int):
                return const(a[2] + b[2])
            if is_const(a) and not is_const(b):
                a, b = b, a  # commutative on numbers: constant second
            return ("binop", "+", a, b)
        if op == "%" and is_const(a) and isinstance(a[2], str) and a[2].count("%") == 1 and "%s" in a[2] and b[0] not in ("tuple", "dict"):
            pre, _, post = a[2].partition("%s")
            return self.concat([const(pre), b, const(post)])
        if op == "%" and is_const(a) and isinstance(a[2], str) and b[0] == "tuple":
            # "...%s...%d..." % (x, y): a concatenation when every directive is a plain %s / %d / %%
            pieces = _percent_pieces(a[2])
            if pieces is not None and sum(1 for k, _ in pieces if k == "slot") == len(b[1]):
                vals = iter(b[1])
                return self.concat([const(txt) if k == "text" else _as_text(next(vals)) for k, txt in pieces])
        if op == "-" and is_const(a) and is_const(b) and isinstance(a[2], int) and isinstance(b[2], int):
            return const(a[2] - b[2])
        return ("binop", op, a, b)

    @staticmethod
    def concat(parts: list[Term]) -> Term:
        flat: list[Term] = []
        for p in parts:
            for q in p[1] if p[0] == "concat" else [p]:
                if is_const(q) and isinstance(q[2], str):
                    if q[2] == "":
                        continue
                    if flat and is_const(flat[-1]) and isinstance(flat[-1][2], str):
                        flat[-1] = const(flat[-1][2] + q[2])
                        continue
                flat.append(q)
        if not flat:
            return const("")
        if len(flat) == 1:
            return flat[0]
        return ("concat", tuple(flat))

    def ev(self, e: ast.AST | None) -> Term:
        if e is None:
            return NONE
        self.tick(e)
        if isinstance(e, ast.Constant):
            return const(e.value)
        if isinstance(e, ast.Name):
            v = self.env.get(e.id)
            return v if v is not None else ("name", e.id)
        if isinstance(e, ast.Attribute):
            base = self.ev(e.value)
            return self.attr(base, e.attr, e)
        if isinstance(e, ast.Subscript):
            base = self.ev(e.value)
            idx = self.ev(e.slice)
            return self.item(base, idx)
        if isinstance(e, ast.Slice):
            return ("slice", self.ev(e.lower), self.ev(e.upper), self.ev(e.step))
        if isinstance(e, ast.Call):
            return self.call(e)
        if isinstance(e, ast.BoolOp):
            is_and = isinstance(e.op, ast.And)
            v = NONE
            for i, x in enumerate(e.values):
                v = self.ev(x)
                if i == len(e.values) - 1:
                    break
                tv = self.truth(v)
                if tv != is_and:
                    break
            return v
        if isinstance(e, ast.UnaryOp):
            v = self.ev(e.operand)
            if isinstance(e.op, ast.Not):
                if is_const(v):
                    return const(not v[2])
                return ("not", v)
            if isinstance(e.op, ast.USub) and is_const(v) and isinstance(v[2], (int, float)):
                return const(-v[2])
            return ("unop", type(e.op).__name__, v)
        if isinstance(e, ast.Compare):
            left = self.ev(e.left)
            res: Term = TRUE
            for i, (op, c) in enumerate(zip(e.ops, e.comparators)):
                right = self.ev(c)
                opn = _CMP[type(op)]
                if opn in ("in", "notin") and right[0] in ("tuple", "list", "set", "dict") and right[1] and not is_const(left):
                    members = [m[0] if right[0] == "dict" else m for m in right[1]]
                    if all(is_const(m) for m in members):
                        found = any(self.truth(self.cmp("eq", left, m)) for m in members)
                        res = const(found == (opn == "in"))
                        if i < len(e.ops) - 1 and not res[2]:
                            return res
                        left = right
                        continue
                res = self.cmp(opn, left, right)
                if i < len(e.ops) - 1 and not self.truth(res):
                    return res
                left = right
            return res
        if isinstance(e, ast.IfExp):
            return self.ev(e.body) if self.truth(self.ev(e.test)) else self.ev(e.orelse)
        if isinstance(e, ast.BinOp):
            return self.binop(_BIN.get(type(e.op), "?"), self.ev(e.left), self.ev(e.right))
        if isinstance(e, ast.JoinedStr):
            parts = []
            for v in e.values:
                if isinstance(v, ast.FormattedValue):
                    x = self.ev(v.value)
                    if v.conversion != -1 or v.format_spec is not None:
                        x = ("fmt", x, v.conversion, _spec_text(v.format_spec))
                    parts.append(x)
                else:
                    parts.append(self.ev(v))
            return self.concat(parts) if parts else const("")
        if isinstance(e, (ast.Tuple, ast.List, ast.Set)):
            if any(isinstance(x, ast.Starred) for x in e.elts):
                return self.opaque(e)
            kind = {ast.Tuple: "tuple", ast.List: "list", ast.Set: "set"}[type(e)]
            return (kind, tuple(self.ev(x) for x in e.elts))
        if isinstance(e, ast.Dict):
            if any(k is None for k in e.keys):
                return self.opaque(e)
            return ("dict", tuple((self.ev(k), self.ev(v)) for k, v in zip(e.keys, e.values)))
        if isinstance(e, ast.NamedExpr):
            v = self.ev(e.value)
            self.env[e.target.id] = v
            return v
        return self.opaque(e)

    def opaque(self, e: ast.AST) -> Term:
        free = sorted({n.id for n in ast.walk(e) if isinstance(n, ast.Name) and n.id in self.env})
        return ("opaque", " ".join(ast.unparse(e).split()), tuple((nm, self.env[nm]) for nm in free))

    def attr(self, base: Term, name: str, node: ast.AST | None) -> Term:
        x = ("attr", base, name)
        if name == "environ" and base[0] == "call" and base[1] == ("name", "Request") and len(base[2]) == 1 and not base[3]:
            return base[2][0]  # Request(environ).environ is environ (wrappers.Request keeps the dict it is given)
        if self.watch is not None and self.watch(x):
            self.emit("load", x, self.heap.get(x), node)
        return self.heap.get(x, x)

    @staticmethod
    def cmp(op: str, a: Term, b: Term) -> Term:
        if is_const(a) and is_const(b):
            if op == "eq":
                return const(a[2] == b[2])
            if op == "ne":
                return const(a[2] != b[2])
            if op == "is":
                return const(a == b)
            if op == "isnot":
                return const(a != b)
        return ("cmp", op, a, b)

    # ------------------------------------------------------------------ calls
    def resolve(self, f: Term, fnode: ast.AST) -> tuple[FuncInfo, Term | None] | None:
        """the function a call goes to, when it is a private helper we may inline: (callee, receiver)."""
        fr = self.frames[-1]
        if isinstance(fnode, ast.Name) and f == ("name", fnode.id):
            fi = fr.fi.module.functions.get(fnode.id)
            if fi is not None:
                return fi, None
            return None
        if isinstance(fnode, ast.Attribute) and f[0] == "attr":
            recv = f[1]
            cls = fr.fi.cls
            params = fr.fi.params
            if cls is not None and params and fr.env.get(params[0]) == recv and isinstance(fnode.value, ast.Name) and fnode.value.id == params[0]:
                fi = cls.methods.get(f[2])
                if fi is not None and not any(d.endswith(("property", "staticmethod", "classmethod")) for d in fi.decorators):
                    return fi, recv
        return None

    def call(self, e: ast.Call) -> Term:
        # any(...) / all(...) over one generator: unrolled like a loop
        if isinstance(e.func, ast.Name) and e.func.id in ("any", "all") and e.func.id not in self.env and len(e.args) == 1 and not e.keywords and isinstance(e.args[0], (ast.GeneratorExp, ast.ListComp)) and len(e.args[0].generators) == 1:
            return self.quantifier(e.func.id == "any", e.args[0])
        f = self.ev(e.func)
        if any(isinstance(a, ast.Starred) for a in e.args) or any(k.arg is None for k in e.keywords):
            args = tuple(self.ev(a.value if isinstance(a, ast.Starred) else a) for a in e.args)
            x = ("call", f, args, (("**", ("opaque", "star-args")),))
            self.emit("call", x, None, e)
            return x
        args = tuple(self.ev(a) for a in e.args)
        kws = tuple(sorted(((k.arg, self.ev(k.value)) for k in e.keywords), key=lambda p: p[0]))
        # typing.cast(T, x) is x
        if f in (("attr", ("name", "t"), "cast"), ("attr", ("name", "typing"), "cast"), ("name", "cast")) and len(args) == 2 and not kws:
            return args[1]
        if f == ("name", "getattr") and len(args) == 2 and not kws and is_const(args[1]) and isinstance(args[1][2], str):
            return self.attr(args[0], args[1][2], e)
        # "...{}...".format(x) with one plain slot is a concatenation
        if f[0] == "attr" and f[2] == "format" and is_const(f[1]) and isinstance(f[1][2], str) and len(args) == 1 and not kws and f[1][2].count("{") == 1 and ("{}" in f[1][2] or "{0}" in f[1][2]):
            pre, _, post = f[1][2].partition("{}" if "{}" in f[1][2] else "{0}")
            return self.concat([const(pre), args[0], const(post)])
        # lookup in a literal table with constant keys: decided key by key
        if f[0] == "attr" and f[2] == "get" and f[1][0] == "dict" and all(is_const(k) for k, _ in f[1][1]) and 1 <= len(args) <= 2 and not kws:
            for k, v in f[1][1]:
                if self.truth(self.cmp("eq", args[0], k)):
                    return v
            return args[1] if len(args) == 2 else NONE
        # "{}...{}".format(x, y) with plain auto-numbered slots, and "sep".join([x, y]) over a literal sequence
        if f[0] == "attr" and f[2] == "format" and is_const(f[1]) and isinstance(f[1][2], str) and len(args) > 1 and not kws:
            chunks = f[1][2].split("{}")
            if len(chunks) == len(args) + 1 and not any("{" in c or "}" in c for c in chunks):
                parts = [const(chunks[0])]
                for a_, c in zip(args, chunks[1:]):
                    parts += [a_, const(c)]
                return self.concat(parts)
        if f[0] == "attr" and f[2] == "join" and is_const(f[1]) and isinstance(f[1][2], str) and len(args) == 1 and not kws and args[0][0] in ("list", "tuple") and args[0][1]:
            parts = []
            for i, a_ in enumerate(args[0][1]):
                parts += ([const(f[1][2])] if i else []) + [a_]
            return self.concat(parts)
        tgt = self.resolve(f, e.func)
        if tgt is not None:
            fi, recv = tgt
            if fi.name not in self.opaque and len(self.frames) <= self.max_depth and all(fr.fi is not fi for fr in self.frames) and not any(isinstance(n, (ast.Yield, ast.YieldFrom)) for n in ast.walk(fi.node)):
                env = self.bind_args(fi, recv, args, kws)
                if env is not None:
                    return self.inline(fi, env, e)
        x = ("call", f, args, kws)
        self.emit("call", x, None, e)
        exc = self.raiser(x)
        if exc is not None and self.run.choose(2) == 1:
            raise _Raise(exc, ("opaque", f"{exc} raised by {show(x)}"), e)
        return x

    def bind_args(self, fi: FuncInfo, recv: Term | None, args: tuple[Term, ...], kws: tuple[tuple[str, Term], ...]) -> dict[str, Term] | None:
        a = fi.node.args  # type: ignore[attr-defined]
        if a.vararg or a.kwarg:
            return None
        pos = [x.arg for x in a.posonlyargs + a.args]
        env: dict[str, Term] = {}
        given = list(args)
        if recv is not None:
            given = [recv] + given
        if len(given) > len(pos):
            return None
        for nm, v in zip(pos, given):
            env[nm] = v
        names = pos + [x.arg for x in a.kwonlyargs]
        for k, v in kws:
            if k not in names or k in env:
                return None
            env[k] = v
        defaults = dict(zip(pos[len(pos) - len(a.defaults) :], a.defaults))
        for x, d in zip(a.kwonlyargs, a.kw_defaults):
            if d is not None:
                defaults[x.arg] = d
        for nm in names:
            if nm not in env:
                d = defaults.get(nm)
                if d is None:
                    return None
                env[nm] = const(d.value) if isinstance(d, ast.Constant) else ("opaque", "default " + ast.unparse(d))
        return env

    def inline(self, fi: FuncInfo, env: dict[str, Term], site: ast.AST) -> Term:
        self.inlined.add(fi.qualname)
        self.frames.append(_Frame(fi, env, len(self.frames)))
        saved = self.withs
        try:
            self.block(fi.node.body)  # type: ignore[attr-defined]
            return NONE
        except _Return as r:
            return r.value
        finally:
            self.withs = saved
            self.frames.pop()

    def quantifier(self, is_any: bool, comp: ast.GeneratorExp | ast.ListComp) -> Term:
        g = comp.generators[0]
        it = self.ev(g.iter)
        if it[0] in ("list", "tuple"):
            items = list(it[1])
        else:
            items = [("elem", it, k + 1) for k in range(self.run.choose(self.unroll + 1))]
        saved = dict(self.env)
        try:
            for x in items:
                self.bind(g.target, x, comp)
                if not all(self.truth(self.ev(c)) for c in g.ifs):
                    continue
                tv = self.truth(self.ev(comp.elt))
                if tv == is_any:
                    return const(is_any)
            return const(not is_any)
        finally:
            names = {n.id for n in ast.walk(g.target) if isinstance(n, ast.Name)}
            for nm in names:
                if nm in saved:
                    self.env[nm] = saved[nm]
                else:
                    self.env.pop(nm, None)


def _as_text(x: Term) -> Term:
    """a constant number formatted into a string is its text."""
    if is_const(x) and isinstance(x[2], int) and not isinstance(x[2], bool):
        return const(str(x[2]))
    return x


def _spec_text(spec: ast.AST | None) -> str:
    """the format spec of an f-string slot: its literal text when it is a literal ("d", ".2f"), else its source."""
    if spec is None:
        return ""
    if isinstance(spec, ast.JoinedStr) and all(isinstance(v, ast.Constant) and isinstance(v.value, str) for v in spec.values):
        return "".join(v.value for v in spec.values)  # type: ignore[attr-defined]
    return ast.unparse(spec)


def _percent_pieces(fmt: str) -> list[tuple[str, str]] | None:
    """a %-format string as [("text", s) | ("slot", directive)], None when a directive other than %s / %d / %% occurs."""
    out: list[tuple[str, str]] = []
    i = 0
    buf = ""
    while i < len(fmt):
        ch = fmt[i]
        if ch != "%":
            buf += ch
            i += 1
            continue
        nxt = fmt[i + 1 : i + 2]
        if nxt == "%":
            buf += "%"
        elif nxt in ("s", "d"):
            out.append(("text", buf))
            out.append(("slot", nxt))
            buf = ""
        else:
            return None
        i += 2
    out.append(("text", buf))
    return out


def _as_load(tg: ast.AST) -> ast.AST:
    x = ast.parse(ast.unparse(tg), mode="eval").body
    return ast.copy_location(x, tg)


class Exploration:
    def __init__(self, fi: FuncInfo, paths: list[Path], inlined: set[str]):
        self.fi = fi
        self.paths = paths
        self.inlined = inlined


def explore(fi: FuncInfo, opaque: t.Collection[str] = (), want_truth: bool = False, limit: int = 40000, **kw: t.Any) -> Exploration:
    """all paths of ``fi`` (helpers inlined).  A path that could not be followed to its end (`cut`) makes the
    function undecidable for the rules: AnalysisError."""
    paths: list[Path] = []
    inlined: set[str] = set()
    stack: list[list[int]] = [[]]
    while stack:
        prefix = stack.pop()
        run = Run(prefix)
        ip = Interp(fi, run, opaque, **kw)
        p = ip.run_top(want_truth)
        inlined |= ip.inlined
        if p.outcome == "cut":
            raise AnalysisError(f"{fi.qualname}: {p.value[1]} (line {getattr(p.node, 'lineno', '?')})")
        paths.append(p)
        if len(paths) > limit:
            raise AnalysisError(f"{fi.qualname}: more than {limit} paths")
        choices = [c for c, _ in run.trace]
        for i in range(len(prefix), len(run.trace)):
            for alt in range(1, run.trace[i][1]):
                stack.append(choices[:i] + [alt])
    return Exploration(fi, paths, inlined)
