"""helpers of the C03 rules that decide on *meaning* rather than on statement shapes.

* ``Walker``: path-wise symbolic walk over a CFG region.  Along every path it keeps, for each local name, the
  expression the name stands for (over the values the free names had when the walk started), decides branch
  conditions on the substituted expressions (three-valued: a condition the valuation does not decide forks the
  path, consistently for repeated tests of the same atom), resolves conditional expressions and follows private
  helpers (value returned / exception raised by the helper).  The rule then asks *which value leaves the region
  under which valuation* - whether it was raised per branch, selected into a local first, chosen by a conditional
  expression or produced by a helper makes no difference.
* ``truthy_polarity``: the spellings of "this collection is (non-)empty".
* ``StateFlow``: a small abstract evaluation of "which successor states does this expression yield", used to decide
  that a traversal (recursive or work-list) reaches the static and the dynamic successors of every state.
"""

from __future__ import annotations

import ast
import re as _re
import typing as t

from .. import astq, guards
from ..cfg import CFG, Node
from ..loader import AnalysisError, FuncInfo, dotted, norm, walk_no_nested

# ----------------------------------------------------------------------
# expressions


def reparse(e: ast.AST) -> ast.AST:
    """a private copy of an expression (the loader hangs `_parent` links on its nodes: never deepcopy them)."""
    return ast.parse(ast.unparse(e), mode="eval").body


def _bound_inside(e: ast.AST) -> set[str]:
    """names bound by comprehensions / lambdas inside e (they are not the function's locals)."""
    out: set[str] = set()
    for x in ast.walk(e):
        if isinstance(x, (ast.ListComp, ast.SetComp, ast.GeneratorExp, ast.DictComp)):
            for g in x.generators:
                out |= {n.id for n in ast.walk(g.target) if isinstance(n, ast.Name)}
        elif isinstance(x, ast.Lambda):
            a = x.args
            out |= {p.arg for p in [*a.posonlyargs, *a.args, *a.kwonlyargs]}
    return out


def subst(e: ast.AST, env: t.Mapping[str, ast.AST]) -> ast.AST:
    """e with every loaded local name replaced by the expression it stands for (single pass: the values in env are
    already closed over the initial names)."""
    fresh = reparse(e)
    skip = _bound_inside(fresh)

    class T(ast.NodeTransformer):
        def visit_Name(self, n: ast.Name) -> ast.AST:  # noqa: N802
            if isinstance(n.ctx, ast.Load) and n.id in env and n.id not in skip:
                return reparse(env[n.id])
            return n

    return ast.fix_missing_locations(T().visit(fresh))


_COLLECTION_WRAPPERS = ("list", "tuple", "sorted", "set", "frozenset", "bool", "len")


def _unwrap_collection(e: ast.AST) -> ast.AST:
    """`list(x)`, `sorted(x)`, `len(x)`, `bool(x)` ... are truthy exactly when x is."""
    while isinstance(e, ast.Call) and isinstance(e.func, ast.Name) and e.func.id in _COLLECTION_WRAPPERS and len(e.args) == 1 and not e.keywords:
        e = e.args[0]
    return e


def _is_empty_collection(e: ast.AST) -> bool:
    if isinstance(e, (ast.List, ast.Tuple, ast.Set)) and not e.elts:
        return True
    if isinstance(e, ast.Dict) and not e.keys:
        return True
    return isinstance(e, ast.Call) and isinstance(e.func, ast.Name) and e.func.id in ("set", "frozenset", "list", "tuple") and not e.args and not e.keywords


def _mirror(op: ast.cmpop) -> type:
    return {ast.Gt: ast.Lt, ast.Lt: ast.Gt, ast.GtE: ast.LtE, ast.LtE: ast.GtE}.get(type(op), type(op))


def truthy_polarity(atom: ast.AST, target: str) -> bool | None:
    """True: the atom is true exactly when the collection `target` is non-empty (a flag: set); False: exactly when
    it is empty; None: the atom does not decide it."""
    if isinstance(atom, ast.UnaryOp) and isinstance(atom.op, ast.Not):
        p = truthy_polarity(atom.operand, target)
        return None if p is None else not p
    if isinstance(atom, ast.NamedExpr):
        return truthy_polarity(atom.value, target)
    if norm(_unwrap_collection(atom)) == target:
        return True
    cp = astq.cmp_parts(atom)
    if cp is None:
        return None
    left, op, right = cp
    for a, b, flip in ((left, right, False), (right, left, True)):
        is_t = norm(_unwrap_collection(a)) == target
        if not is_t:
            continue
        if _is_empty_collection(b):
            if isinstance(op, ast.Eq):
                return False
            if isinstance(op, ast.NotEq):
                return True
        if not isinstance(b, ast.Constant):
            continue
        plain = norm(a) == target or (isinstance(a, ast.Call) and isinstance(a.func, ast.Name) and a.func.id == "bool")
        if plain and isinstance(b.value, bool):
            if isinstance(op, (ast.Is, ast.Eq)):
                return b.value
            if isinstance(op, (ast.IsNot, ast.NotEq)):
                return not b.value
        is_len = isinstance(a, ast.Call) and isinstance(a.func, ast.Name) and a.func.id == "len"
        if is_len and isinstance(b.value, int) and not isinstance(b.value, bool):
            o = _mirror(op) if flip else type(op)
            if (o, b.value) in ((ast.Gt, 0), (ast.NotEq, 0), (ast.GtE, 1)):
                return True
            if (o, b.value) in ((ast.Eq, 0), (ast.Lt, 1), (ast.LtE, 0)):
                return False
    return None


# ----------------------------------------------------------------------
# binding a call's arguments to a function's parameters


def bind_call(fn: ast.AST, call: ast.Call, skip_first: bool) -> dict[str, ast.AST] | None:
    """parameter name -> argument expression (defaults filled in); None when the call cannot be mapped."""
    a = fn.args  # type: ignore[attr-defined]
    if a.vararg or a.kwarg or any(isinstance(x, ast.Starred) for x in call.args) or any(k.arg is None for k in call.keywords):
        return None
    pa = [*a.posonlyargs, *a.args]
    pos = [x.arg for x in pa]
    if skip_first:
        pos = pos[1:]
    defaults: dict[str, ast.AST] = {}
    for x, d in zip(pa[len(pa) - len(a.defaults):], a.defaults):
        defaults[x.arg] = d
    for x, d in zip(a.kwonlyargs, a.kw_defaults):
        if d is not None:
            defaults[x.arg] = d
    if len(call.args) > len(pos):
        return None
    bound: dict[str, ast.AST] = dict(zip(pos, call.args))
    names = set(pos) | {x.arg for x in a.kwonlyargs}
    for k in call.keywords:
        if k.arg not in names or k.arg in bound:
            return None
        bound[k.arg] = k.value  # type: ignore[index]
    for nm in names:
        if nm not in bound:
            if nm not in defaults:
                return None
            bound[nm] = defaults[nm]
    return bound


class HelperResolver:
    """the function a call expression runs, when that is a private piece of the code under analysis: a closure of the
    function, a method reached through self / cls / the class name, a function of the module."""

    def __init__(self, repo: t.Any, fi: FuncInfo):
        self.repo = repo
        self.fi = fi
        self.closures = {n.name: n for n in ast.walk(fi.node) if n is not fi.node and isinstance(n, (ast.FunctionDef, ast.AsyncFunctionDef))}
        self.li = fi.module.local_imports(fi.node)
        self._cfgs: dict[int, CFG] = {}
        self.typed: dict[str, t.Any] = {}  # local name -> ClassInfo, for locals whose class the rule knows

    def resolve(self, call: ast.Call) -> tuple[ast.AST, bool] | None:
        """(function node, whether the first parameter is the implicit receiver)."""
        r = self.resolve_info(call)
        return (r[0].node, r[1]) if isinstance(r, tuple) and isinstance(r[0], FuncInfo) else r  # type: ignore[return-value]

    def resolve_info(self, call: ast.Call) -> tuple[t.Any, bool] | None:
        """like resolve, but the FuncInfo where there is one (a closure has none: its node is returned)."""
        f = call.func
        if isinstance(f, ast.Name):
            if f.id in self.closures:
                return self.closures[f.id], False
            fq = self.repo.resolve(self.fi.module, f.id, self.li)
            h = self.repo.try_func(fq) if fq and fq.startswith("werkzeug") else None
            return (h, False) if h is not None else None
        if isinstance(f, ast.Attribute) and isinstance(f.value, ast.Name):
            owner = None
            through_class = False
            if self.fi.cls is not None and f.value.id in ("self", "cls"):
                owner = self.fi.cls
                through_class = f.value.id == "cls"
            elif f.value.id in self.typed:
                owner = self.typed[f.value.id]  # a local whose class is known (`except NoMatch as e`)
            else:
                fq = self.repo.resolve(self.fi.module, f.value.id, self.li)
                owner = self.repo.try_cls(fq) if fq and fq.startswith("werkzeug") else None  # `Weighting.from_weights(...)`
                through_class = owner is not None
            if owner is None:
                return None
            _, what = self.repo.lookup(owner, f.attr)
            if isinstance(what, FuncInfo):
                static = any(d.endswith("staticmethod") for d in what.decorators)
                clsm = any(d.endswith("classmethod") for d in what.decorators)
                if through_class and not static and not clsm:
                    return None  # unbound call: the receiver is an explicit argument
                return what, not static
        return None

    def cfg(self, fn: ast.AST) -> CFG:
        c = self._cfgs.get(id(fn))
        if c is None:
            c = self._cfgs[id(fn)] = CFG(fn)
        return c


# ----------------------------------------------------------------------
# the walker


class Exit(t.NamedTuple):
    kind: str  # raise | return | fall | loop | caught
    node: Node | None  # the statement of the walked function at which the region is left
    value: ast.AST | None  # the raised / returned expression over the initial names (conditional expressions resolved)
    asm: tuple[tuple[str, bool], ...]  # what the path assumed about atoms the valuation left open
    passed: tuple[Node, ...]


_OPAQUE = "__opaque_"


def is_opaque(e: ast.AST | None) -> bool:
    return e is None or any(isinstance(x, ast.Name) and x.id.startswith(_OPAQUE) for x in ast.walk(e))


def _assigned_names(stmts: t.Iterable[ast.AST]) -> set[str]:
    out: set[str] = set()
    for st in stmts:
        for x in ast.walk(st):
            if isinstance(x, ast.Name) and isinstance(x.ctx, (ast.Store, ast.Del)):
                out.add(x.id)
    return out


class Walker:
    def __init__(self, cfg: CFG, decide: t.Callable[[ast.AST], bool | None], helpers: HelperResolver | None = None, depth: int = 0, limit: int = 6000):
        self.cfg = cfg
        self.decide = decide
        self.helpers = helpers
        self.depth = depth
        self.limit = limit
        self.attr_stores: list[str] = []

    # -- conditions and values ----------------------------------------
    def cond(self, e: ast.AST, asm: dict[str, bool]) -> list[tuple[bool, dict[str, bool]]]:
        """possible truth values of a (substituted) condition with the assumptions each needs; short-circuit order."""
        if isinstance(e, ast.BoolOp):
            is_and = isinstance(e.op, ast.And)
            done: list[tuple[bool, dict[str, bool]]] = []
            live = [asm]
            for v in e.values:
                nxt: list[dict[str, bool]] = []
                for a in live:
                    for b, a2 in self.cond(v, a):
                        if b == is_and:
                            nxt.append(a2)
                        else:
                            done.append((b, a2))
                live = nxt
            return done + [(is_and, a) for a in live]
        if isinstance(e, ast.UnaryOp) and isinstance(e.op, ast.Not):
            return [(not b, a) for b, a in self.cond(e.operand, asm)]
        if isinstance(e, ast.IfExp):
            out: list[tuple[bool, dict[str, bool]]] = []
            for b, a in self.cond(e.test, asm):
                out.extend(self.cond(e.body if b else e.orelse, a))
            return out
        if isinstance(e, ast.Constant):
            return [(bool(e.value), asm)]
        if isinstance(e, ast.NamedExpr):
            return self.cond(e.value, asm)
        if isinstance(e, ast.Call) and isinstance(e.func, ast.Name) and e.func.id == "bool" and len(e.args) == 1 and not e.keywords:
            return self.cond(e.args[0], asm)
        d = self.decide(e)
        if d is not None:
            return [(d, asm)]
        k, p = guards.canon(e)
        if k in asm:
            return [(asm[k] == p, asm)]
        return [(True, {**asm, k: p}), (False, {**asm, k: not p})]

    def values(self, e: ast.AST | None, asm: dict[str, bool]) -> list[tuple[ast.AST | None, dict[str, bool]]]:
        """the expression with conditional expressions / typing.cast resolved."""
        if isinstance(e, ast.IfExp):
            out: list[tuple[ast.AST | None, dict[str, bool]]] = []
            for b, a in self.cond(e.test, asm):
                out.extend(self.values(e.body if b else e.orelse, a))
            return out
        if isinstance(e, ast.Call) and (dotted(e.func) or "").rsplit(".", 1)[-1] == "cast" and len(e.args) == 2:
            return self.values(e.args[1], asm)
        if isinstance(e, ast.Call) and isinstance(e.func, ast.Lambda) and not e.args and not e.keywords:
            a = e.func.args
            if not (a.posonlyargs or a.args or a.kwonlyargs or a.vararg or a.kwarg):
                return self.values(e.func.body, asm)  # `(lambda: X)()` is X
        first = self._first_of(e, asm)
        if first is not None:
            return first
        return [(e, asm)]

    def _first_of(self, e: ast.AST | None, asm: dict[str, bool]) -> list[tuple[ast.AST | None, dict[str, bool]]] | None:
        """`next(<elt> for <target> in (<item>, ...) if <cond>)` over a written-out sequence: the element expression for
        the first item whose condition holds (an ordered dispatch table), decided item by item under the valuation."""
        if not (isinstance(e, ast.Call) and isinstance(e.func, ast.Name) and e.func.id == "next" and 1 <= len(e.args) <= 2 and not e.keywords and isinstance(e.args[0], (ast.GeneratorExp, ast.ListComp))):
            return None
        g = e.args[0]
        if isinstance(g, ast.ListComp) or len(g.generators) != 1:
            return None
        gen = g.generators[0]
        if not isinstance(gen.iter, (ast.Tuple, ast.List)) or any(isinstance(x, ast.Starred) for x in gen.iter.elts):
            return None

        def match(tg: ast.AST, item: ast.AST, into: dict[str, ast.AST]) -> bool:
            if isinstance(tg, ast.Name):
                into[tg.id] = item
                return True
            if isinstance(tg, (ast.Tuple, ast.List)) and isinstance(item, (ast.Tuple, ast.List)) and len(tg.elts) == len(item.elts) and not any(isinstance(x, ast.Starred) for x in [*tg.elts, *item.elts]):
                return all(match(t_, i_, into) for t_, i_ in zip(tg.elts, item.elts))
            return False

        def put(x: ast.AST, binding: dict[str, ast.AST]) -> ast.AST:
            class T(ast.NodeTransformer):
                def visit_Name(self, n: ast.Name) -> ast.AST:  # noqa: N802
                    return reparse(binding[n.id]) if isinstance(n.ctx, ast.Load) and n.id in binding else n

            return ast.fix_missing_locations(T().visit(reparse(x)))

        out: list[tuple[ast.AST | None, dict[str, bool]]] = []
        live = [asm]
        for item in gen.iter.elts:
            binding: dict[str, ast.AST] = {}
            if not match(gen.target, item, binding):
                return None
            nxt: list[dict[str, bool]] = []
            for a in live:
                states = [(True, a)]
                for c in gen.ifs:
                    new_states = []
                    for ok, a1 in states:
                        if not ok:
                            new_states.append((False, a1))
                        else:
                            new_states.extend(self.cond(put(c, binding), a1))
                    states = new_states
                for ok, a2 in states:
                    if ok:
                        out.extend(self.values(put(g.elt, binding), a2))
                    else:
                        nxt.append(a2)
            live = nxt
        for a in live:
            if len(e.args) == 2:
                out.extend(self.values(e.args[1], a))
            else:
                out.append((None, a))  # StopIteration: nothing the rule can name
        return out

    def _call_outcomes(self, e: ast.AST | None, asm: dict[str, bool]) -> list[tuple[str, ast.AST | None, dict[str, bool]]] | None:
        """when e is a call of a private helper: what the call amounts to - ('value', returned expression) or
        ('raise', raised expression); None when e is not such a call."""
        if self.helpers is None or not isinstance(e, ast.Call) or self.depth >= 3:
            return None
        r = self.helpers.resolve(e)
        if r is None:
            return None
        fn, skip = r
        bound = bind_call(fn, e, skip)
        if bound is None:
            return None
        if skip and isinstance(e.func, ast.Attribute) and fn.args.args:  # type: ignore[attr-defined]
            bound[fn.args.args[0].arg] = e.func.value  # the receiver: `e.http_error()` runs with self = e  # type: ignore[attr-defined]
        sub = Walker(self.helpers.cfg(fn), self.decide, self.helpers, self.depth + 1, self.limit)
        out: list[tuple[str, ast.AST | None, dict[str, bool]]] = []
        for x in sub.run(sub.cfg.entry, dict(bound), asm):
            a = dict(x.asm)
            if x.kind == "raise":
                out.append(("raise", x.value, a))
            elif x.kind == "return":
                out.append(("value", x.value if x.value is not None else ast.Constant(value=None), a))
            elif x.kind == "fall":
                out.append(("value", ast.Constant(value=None), a))
            else:
                out.append(("unknown", None, a))
        self.attr_stores.extend(sub.attr_stores)
        return out

    # -- the walk ------------------------------------------------------
    def run(self, start: Node, env: dict[str, ast.AST], asm: dict[str, bool] | None = None, skip_start: bool = False) -> list[Exit]:
        cfg = self.cfg
        out: list[Exit] = []
        stack: list[tuple[Node, dict[str, ast.AST], dict[str, bool], tuple[Node, ...], frozenset[int], bool]] = [(start, env, dict(asm or {}), (), frozenset(), skip_start)]
        steps = 0

        def frz(a: dict[str, bool]) -> tuple[tuple[str, bool], ...]:
            return tuple(sorted(a.items()))

        while stack:
            n, env, asm_, passed, seen, skip = stack.pop()
            steps += 1
            if steps > self.limit:
                raise AnalysisError("symbolic walk did not terminate")
            if n is cfg.exit:
                out.append(Exit("fall", passed[-1] if passed else None, None, frz(asm_), passed))
                continue
            if n is cfg.raise_exit:
                out.append(Exit("raise", passed[-1] if passed else None, None, frz(asm_), passed))
                continue
            if n.id in seen:
                out.append(Exit("loop", n, None, frz(asm_), passed))
                continue
            seen2 = seen | {n.id}
            passed2 = passed + (n,)
            a = n.ast

            def go(targets: t.Iterable[Node], env_: dict[str, ast.AST], asm2: dict[str, bool]) -> None:
                for s in targets:
                    stack.append((s, env_, asm2, passed2, seen2, False))

            normal = [s for s, l in n.succs if l not in ("exc", "raise")]
            if n.kind == "test":
                env2 = env
                for w in ast.walk(a):  # type: ignore[arg-type]
                    if isinstance(w, ast.NamedExpr):
                        env2 = {**env2, w.target.id: subst(w.value, env)}
                for b, a2 in self.cond(subst(a, env), asm_):  # type: ignore[arg-type]
                    go(cfg.succ(n, "T" if b else "F"), env2, a2)
                continue
            if n.kind in ("loop", "join") and isinstance(a, (ast.For, ast.AsyncFor, ast.While)):
                # whatever the loop assigns is unknown at its head and after it
                env2 = dict(env)
                for nm in _assigned_names([*a.body, *(a.orelse or [])] + ([a.target] if not isinstance(a, ast.While) else [])):
                    env2[nm] = ast.Name(id=f"{_OPAQUE}{nm}_L{n.lineno}", ctx=ast.Load())
                go(normal, env2, asm_)
                continue
            if n.kind == "handler":
                env2 = dict(env)
                if not skip and isinstance(a, ast.ExceptHandler) and a.name:
                    env2[a.name] = ast.Name(id=f"{_OPAQUE}{a.name}_L{n.lineno}", ctx=ast.Load())
                go(normal, env2, asm_)
                continue
            if n.kind == "with":
                env2 = dict(env)
                for nm in _assigned_names([i.optional_vars for i in a.items if i.optional_vars is not None]):  # type: ignore[union-attr]
                    env2[nm] = ast.Name(id=f"{_OPAQUE}{nm}_L{n.lineno}", ctx=ast.Load())
                go(normal, env2, asm_)
                continue
            if n.kind != "stmt" or a is None:
                go(normal, env, asm_)
                continue
            if not normal and not isinstance(a, (ast.Return, ast.Raise)):
                # a statement that never completes normally (call of a NoReturn function)
                out.append(Exit("raise", n, None, frz(asm_), passed2))
                continue
            if isinstance(a, (ast.Return, ast.Raise)):
                kind = "return" if isinstance(a, ast.Return) else "raise"
                if kind == "raise" and any(l == "exc" for _, l in n.succs):
                    out.append(Exit("caught", n, None, frz(asm_), passed2))
                    continue
                raw = a.value if isinstance(a, ast.Return) else a.exc
                if raw is None:
                    out.append(Exit(kind, n, None, frz(asm_), passed2))
                    continue
                for v, a2 in self.values(subst(raw, env), asm_):
                    co = self._call_outcomes(v, a2)
                    if co is None:
                        out.append(Exit(kind, n, v, frz(a2), passed2))
                        continue
                    for k, v2, a3 in co:
                        if k == "unknown":
                            out.append(Exit("loop", n, None, frz(a3), passed2))
                        elif k == "raise":
                            out.append(Exit("raise", n, v2, frz(a3), passed2))
                        else:
                            for v3, a4 in self.values(v2, a3):
                                out.append(Exit(kind, n, v3, frz(a4), passed2))
                continue
            if isinstance(a, ast.Expr):
                co = self._call_outcomes(subst(a.value, env), asm_) if isinstance(a.value, ast.Call) else None
                if co is None:
                    go(normal, env, asm_)
                    continue
                for k, v2, a3 in co:
                    if k == "raise":
                        out.append(Exit("raise", n, v2, frz(a3), passed2))
                    elif k == "unknown":
                        out.append(Exit("loop", n, None, frz(a3), passed2))
                    else:
                        go(normal, env, a3)
                continue
            # bindings
            if isinstance(a, (ast.Assign, ast.AnnAssign)):
                if a.value is None:
                    go(normal, env, asm_)
                    continue
                tgs = a.targets if isinstance(a, ast.Assign) else [a.target]
                for tg in tgs:
                    if isinstance(tg, (ast.Attribute, ast.Subscript)):
                        self.attr_stores.append(norm(tg))
                branches: list[tuple[dict[str, ast.AST], dict[str, bool]]] = []
                for v, a2 in self.values(subst(a.value, env), asm_):
                    co = self._call_outcomes(v, a2)
                    alts: list[tuple[ast.AST | None, dict[str, bool]]] = []
                    if co is None:
                        alts.append((v, a2))
                    else:
                        for k, v2, a3 in co:
                            if k == "raise":
                                out.append(Exit("raise", n, v2, frz(a3), passed2))
                            elif k == "unknown":
                                alts.append((None, a3))
                            else:
                                alts.extend(self.values(v2, a3))
                    for v2, a3 in alts:
                        env2 = dict(env)
                        for tg in tgs:
                            self._bind(env2, tg, v2, n)
                        branches.append((env2, a3))
                for env2, a3 in branches:
                    go(normal, env2, a3)
                continue
            env2 = dict(env)
            for nm in _assigned_names([a]):
                env2[nm] = ast.Name(id=f"{_OPAQUE}{nm}_L{n.lineno}", ctx=ast.Load())
            if isinstance(a, (ast.FunctionDef, ast.AsyncFunctionDef, ast.ClassDef)):
                env2[a.name] = ast.Name(id=f"{_OPAQUE}{a.name}_L{n.lineno}", ctx=ast.Load())
            go(normal, env2, asm_)
        return out

    def _bind(self, env: dict[str, ast.AST], tg: ast.AST, v: ast.AST | None, n: Node) -> None:
        if isinstance(tg, ast.Name):
            env[tg.id] = v if v is not None else ast.Name(id=f"{_OPAQUE}{tg.id}_L{n.lineno}", ctx=ast.Load())
        elif isinstance(tg, (ast.Tuple, ast.List)):
            if isinstance(v, (ast.Tuple, ast.List)) and len(v.elts) == len(tg.elts) and not any(isinstance(x, ast.Starred) for x in [*v.elts, *tg.elts]):
                for t_, v_ in zip(tg.elts, v.elts):
                    self._bind(env, t_, v_, n)
            elif v is not None and not is_opaque(v) and not any(isinstance(x, ast.Starred) for x in tg.elts) and isinstance(v, (ast.Name, ast.Attribute, ast.Subscript)):
                # `part, state = entry`: the i-th target is entry[i]
                for i, t_ in enumerate(tg.elts):
                    self._bind(env, t_, ast.Subscript(value=reparse(v), slice=ast.Constant(value=i), ctx=ast.Load()), n)
            else:
                for nm in _assigned_names([tg]):
                    env[nm] = ast.Name(id=f"{_OPAQUE}{nm}_L{n.lineno}", ctx=ast.Load())


# ----------------------------------------------------------------------
# which states does a traversal feed itself with


Val = t.FrozenSet[t.Any]  # shapes: "S" static successor, "D" dynamic successor, "P" part, "K" key, "X" the state itself,
#                           "root", "?", ("iter", Val), ("tuple", (Val, ...))
_ORDER_FREE_WRAPPERS = ("list", "tuple", "iter", "reversed", "sorted", "set", "frozenset", "deque", "collections.deque")
_CHAINS = ("chain", "itertools.chain")
UNKNOWN: Val = frozenset(["?"])


class StateFlow:
    def __init__(self, state_var: str, part_index: int, width: int, root_of: t.Callable[[ast.AST], bool], scope: ast.AST | None = None):
        self.x = state_var
        self.idx = part_index
        self.width = width
        self.root_of = root_of
        self.scope = scope  # the function whose plain local assignments may be looked through
        self._busy: set[str] = set()
        # local name -> (statement, successor kinds it contributes): where the content of a local that stands between
        # the state and the place that hands its successors on comes from (`todo = list(x.static.values())`,
        # `todo += [...]`, `todo.append(t)` ...); the rule asks that such a statement is passed on every traversal step
        self.contrib: dict[str, list[tuple[ast.AST, set[str]]]] = {}
        self.drops: list[str] = []  # filtered iterations that leave out a successor with transitions below it

    def _keeps(self, cond: ast.AST, names: list[str]) -> bool | None:
        """a filter over successor states: True - it lets every successor through whose .static or .dynamic is
        non-empty (it only drops leaf states, below which there is nothing to sort); False - it drops one that has
        transitions; None - it tests something else."""
        def tri(e: ast.AST, leaf: t.Callable[[ast.AST], bool | None]) -> bool | None:
            if isinstance(e, ast.BoolOp):
                vals = [tri(v, leaf) for v in e.values]
                dom = not isinstance(e.op, ast.And)  # the value that decides the operation
                if any(v is dom for v in vals):
                    return dom
                return None if any(v is None for v in vals) else (not dom)
            if isinstance(e, ast.UnaryOp) and isinstance(e.op, ast.Not):
                v = tri(e.operand, leaf)
                return None if v is None else not v
            if isinstance(e, ast.Constant):
                return bool(e.value)
            return leaf(e)

        for dyn, stat in ((True, False), (False, True), (True, True)):
            def leaf(e: ast.AST, dyn: bool = dyn, stat: bool = stat) -> bool | None:
                for nm in names:
                    for a, v in (("dynamic", dyn), ("static", stat)):
                        pol = truthy_polarity(e, f"{nm}.{a}")
                        if pol is not None:
                            return pol == v
                return None

            r = tri(cond, leaf)
            if r is not True:
                return r
        return True

    _PUT_ONE = ("append", "appendleft", "add", "insert")  # the element is the last argument
    _PUT_MANY = ("extend", "extendleft", "update")

    def _local(self, name: str, env: dict[str, Val]) -> Val | None:
        """what a local of the scope may hold: the union of the values it is bound to and - for a container - of what
        is put into it afterwards (`+=` / `|=`, append / extend / add / update / insert ...), each evaluated under the
        loop bindings of its own statement.  None: some binding of the name is not understood."""
        assert self.scope is not None
        binds = astq.assigns_to(self.scope, name)
        if not binds:
            return None
        acc: set[t.Any] = set()
        notes: list[tuple[ast.AST, set[str]]] = []

        def note(site: ast.AST, v: Val) -> None:
            acc.update(v)
            notes.append((site, (flat(v) | flat(self.elems(v))) & {"S", "D"}))

        for st, v in binds:
            here = {**env, **self.env_at(st, self.scope)}
            if v is not None:
                note(st, self.ev(v, here))
            elif isinstance(st, ast.AugAssign) and isinstance(st.op, (ast.Add, ast.BitOr)):
                note(st, frozenset([("iter", self.elems(self.ev(st.value, here)))]))
            else:
                return None
        for c in walk_no_nested(self.scope):
            if isinstance(c, ast.Call) and isinstance(c.func, ast.Attribute) and astq.is_name(c.func.value, name) and c.args and not c.keywords:
                here = {**env, **self.env_at(c, self.scope)}
                if c.func.attr in self._PUT_ONE:
                    note(c, frozenset([("iter", self.ev(c.args[-1], here))]))
                elif c.func.attr in self._PUT_MANY:
                    note(c, frozenset([("iter", self.elems(self.ev(c.args[0], here)))]))
        self.contrib[name] = notes
        return frozenset(acc)

    def elems(self, v: Val) -> Val:
        out: set[t.Any] = set()
        for s in v:
            if isinstance(s, tuple) and s[0] == "iter":
                out |= s[1]
            else:
                out.add("?")
        return frozenset(out)

    def _dyn_entry(self) -> t.Any:
        return ("tuple", tuple(frozenset(["P"]) if i == self.idx else frozenset(["D"]) for i in range(self.width)))

    def bind(self, env: dict[str, Val], tg: ast.AST, v: Val) -> None:
        if isinstance(tg, ast.Name):
            env[tg.id] = v
        elif isinstance(tg, (ast.Tuple, ast.List)):
            for i, e in enumerate(tg.elts):
                parts: set[t.Any] = set()
                for s in v:
                    if isinstance(s, tuple) and s[0] == "tuple" and len(s[1]) == len(tg.elts):
                        parts |= s[1][i]
                    else:
                        parts.add("?")
                self.bind(env, e, frozenset(parts))

    def ev(self, e: ast.AST, env: dict[str, Val]) -> Val:
        x = self.x
        if self.root_of(e):
            return frozenset(["root"])
        if isinstance(e, ast.Name):
            if e.id == x:
                return frozenset(["X"])
            if e.id in env:
                return env[e.id]
            if self.scope is not None and e.id not in self._busy:
                # a local that holds an expression over the state (`children = [*state.static.values(), ...]`), or a
                # container that is filled with its successors step by step
                self._busy.add(e.id)
                try:
                    got = self._local(e.id, env)
                finally:
                    self._busy.discard(e.id)
                if got is not None:
                    return got
            return UNKNOWN
        txt = norm(e)
        if txt == f"{x}.static.values()":
            return frozenset([("iter", frozenset(["S"]))])
        if txt == f"{x}.static.items()":
            return frozenset([("iter", frozenset([("tuple", (frozenset(["K"]), frozenset(["S"])))]))])
        if txt in (f"{x}.static", f"{x}.static.keys()"):
            return frozenset([("iter", frozenset(["K"]))])
        if txt == f"{x}.dynamic":
            return frozenset([("iter", frozenset([self._dyn_entry()]))])
        if isinstance(e, ast.Subscript):
            if norm(e.value) == f"{x}.static":
                return frozenset(["S"])
            base = self.ev(e.value, env)
            if isinstance(e.slice, ast.Constant) and isinstance(e.slice.value, int):
                out: set[t.Any] = set()
                for s in base:
                    if isinstance(s, tuple) and s[0] == "tuple" and -len(s[1]) <= e.slice.value < len(s[1]):
                        out |= s[1][e.slice.value]
                    elif isinstance(s, tuple) and s[0] == "iter":
                        out |= s[1]
                    else:
                        out.add("?")
                return frozenset(out)
            return UNKNOWN
        if isinstance(e, ast.Call):
            d = dotted(e.func) or ""
            if isinstance(e.func, ast.Attribute) and e.func.attr == "get" and norm(e.func.value) == f"{x}.static":
                return frozenset(["S"])
            if d in _ORDER_FREE_WRAPPERS and len(e.args) >= 1:
                return frozenset([("iter", self.elems(self.ev(e.args[0], env)))])
            if d in _CHAINS:
                acc: set[t.Any] = set()
                for a in e.args:
                    acc |= self.elems(self.ev(a, env))
                return frozenset([("iter", frozenset(acc))])
            return UNKNOWN
        if isinstance(e, (ast.List, ast.Tuple, ast.Set)):
            if isinstance(e, ast.Tuple) and not any(isinstance(a, ast.Starred) for a in e.elts):
                tup = ("tuple", tuple(self.ev(a, env) for a in e.elts))
                acc2: set[t.Any] = set()
                for a in e.elts:
                    acc2 |= self.ev(a, env)
                return frozenset([tup, ("iter", frozenset(acc2))])
            acc3: set[t.Any] = set()
            for a in e.elts:
                if isinstance(a, ast.Starred):
                    acc3 |= self.elems(self.ev(a.value, env))
                else:
                    acc3 |= self.ev(a, env)
            return frozenset([("iter", frozenset(acc3))])
        if isinstance(e, ast.BinOp) and isinstance(e.op, ast.Add):
            return frozenset([("iter", self.elems(self.ev(e.left, env)) | self.elems(self.ev(e.right, env)))])
        if isinstance(e, (ast.GeneratorExp, ast.ListComp, ast.SetComp)):
            env2 = dict(env)
            for g in e.generators:
                self.bind(env2, g.target, self.elems(self.ev(g.iter, env2)))
                if g.ifs:
                    # a filter may drop states: harmless only when it drops none that has transitions of its own
                    succ = [n.id for n in ast.walk(g.target) if isinstance(n, ast.Name) and flat(env2.get(n.id, frozenset())) & {"S", "D"}]
                    verdicts = [self._keeps(c, succ) for c in g.ifs] if succ else [None]
                    if any(v is None for v in verdicts):
                        return UNKNOWN
                    if not all(verdicts) and norm(e) not in self.drops:
                        self.drops.append(norm(e))
            return frozenset([("iter", self.ev(e.elt, env2))])
        if isinstance(e, ast.Starred):
            return self.ev(e.value, env)
        return UNKNOWN

    def env_at(self, node: ast.AST, stop: ast.AST) -> dict[str, Val]:
        """bindings made by the for loops / comprehensions that enclose node (inside stop)."""
        chain: list[ast.AST] = []
        cur = astq.parent(node)
        child = node
        while cur is not None and cur is not stop:
            if isinstance(cur, (ast.For, ast.AsyncFor)) and (child in cur.body or any(child is s for s in cur.body)):
                chain.append(cur)
            elif isinstance(cur, (ast.GeneratorExp, ast.ListComp, ast.SetComp)):
                chain.append(cur)
            child = cur
            cur = astq.parent(cur)
        env: dict[str, Val] = {}
        for c in reversed(chain):
            if isinstance(c, (ast.For, ast.AsyncFor)):
                self.bind(env, c.target, self.elems(self.ev(c.iter, env)))
            else:
                for g in c.generators:  # type: ignore[union-attr]
                    self.bind(env, g.target, self.elems(self.ev(g.iter, env)) if not g.ifs else UNKNOWN)
        return env


def flat(v: Val) -> set[str]:
    """the plain tags in a value (what a single state expression may be)."""
    return {s for s in v if isinstance(s, str)}


# ----------------------------------------------------------------------
# what does a string end with, on every path: abstract execution of the function(s) that build rule parts
#
# Values: ("b", bool) a known flag; ("s", exact, tail) a string of which the last characters are known (exact: the whole
# text); DATA a run-time value the analysis does not follow (input); TOP a value the analysis lost (a call it cannot
# look into was handed a followed string).  A state maps local names to values (absent = DATA); per CFG node the *set*
# of states that reach it is kept, so a flag and the text it goes with stay correlated (`if not static: content +=
# anchor` ... `RulePart(content, static=static)`).  Tails are cut to KEEP characters, which makes the domain finite.

KEEP = 16
_RUN = _re.compile(r"(.)\1{3,}(?!.*(.)\2{3,})", _re.S)
TOP: t.Any = ("?",)
DATA: t.Any = ("d",)
PURE_CALLS = {"len", "str", "repr", "int", "float", "tuple", "list", "set", "frozenset", "dict", "sorted", "enumerate", "zip", "range", "min", "max",
              "isinstance", "getattr", "hasattr", "iter", "next", "print", "id", "type", "abs", "sum", "any", "all", "map", "filter", "reversed"}


def vb(b: bool) -> t.Any:
    return ("b", bool(b))


def vs(exact: bool, tail: str) -> t.Any:
    """a string value; the known end is cut to KEEP characters and to at most three repetitions of one character (a
    shorter known end is still a known end), which keeps the set of values finite and small."""
    mrun = _RUN.search(tail)
    if mrun is not None:
        exact, tail = False, tail[mrun.end() - 3:]
    if len(tail) > KEEP:
        return ("s", False, tail[-KEEP:])
    return ("s", bool(exact), tail)


def is_s(v: t.Any) -> bool:
    return v[0] == "s"


def is_l(v: t.Any) -> bool:
    """a list of string pieces, described by the end of the concatenation of its elements."""
    return v[0] == "l"


L_EMPTY: t.Any = ("l", True, "")
L_UNKNOWN: t.Any = ("l", False, "")


def l_text(v: t.Any) -> t.Any:
    return ("s", v[1], v[2])


def l_add(cur: t.Any, v: t.Any) -> t.Any:
    """the list value after one more element (a string value, or input) was put at its end."""
    if v == TOP or cur == TOP:
        return TOP
    if is_l(v) or v[0] == "b":
        return L_UNKNOWN
    c = concat(l_text(cur), v if is_s(v) else vs(False, ""))
    return ("l", c[1], c[2]) if is_s(c) else TOP


def l_cat(cur: t.Any, other: t.Any) -> t.Any:
    if cur == TOP or other == TOP:
        return TOP
    if not (is_l(cur) and is_l(other)):
        return L_UNKNOWN
    c = concat(l_text(cur), l_text(other))
    return ("l", c[1], c[2]) if is_s(c) else TOP


def show(v: t.Any) -> str:
    if v[0] == "b":
        return str(v[1])
    if v[0] in ("s", "l"):
        return f"`{v[2]}`" if v[1] else ("<text>" if not v[2] else f"<text>`{v[2]}`")
    return "<input>" if v is DATA or v == DATA else "<lost>"


def concat(a: t.Any, b: t.Any) -> t.Any:
    if a == TOP or b == TOP:
        return TOP
    if a[0] in ("b", "l") or b[0] in ("b", "l"):
        return TOP
    if a == DATA and b == DATA:
        return DATA
    if is_s(b):
        if b[1]:
            if is_s(a):
                return vs(a[1], a[2] + b[2])
            return vs(False, b[2])
        return vs(False, b[2])
    return vs(False, "")  # <string> + <input>: a string whose end is input


def join_values(vals: t.Iterable[t.Any]) -> t.Any:
    vals = list(vals)
    if not vals:
        return DATA
    out = vals[0]
    for v in vals[1:]:
        if v == out:
            continue
        if out == TOP or v == TOP:
            return TOP
        if is_s(out) and is_s(v):
            a, b = out[2], v[2]
            i = 0
            while i < min(len(a), len(b)) and a[-1 - i] == b[-1 - i]:
                i += 1
            out = vs(False, a[len(a) - i:])
        else:
            out = DATA
    return out


def truth(v: t.Any) -> bool | None:
    if v[0] == "b":
        return v[1]
    if is_s(v):
        if v[1]:
            return bool(v[2])
        return True if v[2] else None
    if is_l(v):
        return True if v[2] else None  # ('' may be the concatenation of [''] as well as of [])
    return None


class PartSite(t.NamedTuple):
    call: ast.Call
    where: t.Any  # FuncInfo of the function the construction is written in (or the enclosing one for a closure)
    fields: tuple[tuple[str, t.Any], ...]
    murky: tuple[str, ...]  # conditions on followed values that were met on the way and that the evaluator could not read


class TailFlow:
    def __init__(self, repo: t.Any, fields: list[str], is_ctor: t.Callable[[ast.AST | None, ast.Call], bool], limit: int = 60000):
        self.repo = repo
        self.fields = fields
        self.is_ctor = is_ctor
        self.sites: list[PartSite] = []
        self._seen_sites: set[tuple[int, tuple[tuple[str, t.Any], ...], tuple[str, ...]]] = set()
        self.limit = limit
        self.steps = 0
        self._stack: list[int] = []
        self._memo: dict[t.Any, tuple[t.Any, list[dict[str, t.Any]]]] = {}
        self.analysed: list[t.Any] = []
        self._consts: dict[tuple[int, str], t.Any] = {}
        self._pieces: dict[str, set[str]] = {}

    # -- a local list of string pieces that is joined into the text later ----------------------------------
    # Value ("l", exact, tail): a list of strings, described by what the concatenation of its elements ends in (so
    # `pieces.append(x)` is `content += x`, `"".join(pieces)` is `content`).  Only names that are the argument of a
    # `.join(...)` somewhere in their module are followed that way (everything else stays DATA: no extra states).
    def piece_names(self, module: t.Any) -> set[str]:
        got = self._pieces.get(module.name)
        if got is None:
            got = set()
            for x in ast.walk(module.tree):
                if isinstance(x, ast.Call) and isinstance(x.func, ast.Attribute) and x.func.attr == "join" and len(x.args) == 1:
                    a = x.args[0]
                    if isinstance(a, ast.Name):
                        got.add(a.id)
                    elif isinstance(a, (ast.GeneratorExp, ast.ListComp)) and len(a.generators) == 1 and isinstance(a.generators[0].iter, ast.Name):
                        got.add(a.generators[0].iter.id)
            self._pieces[module.name] = got
        return got

    # -- functions -----------------------------------------------------
    def run(self, fi: FuncInfo) -> None:
        hr = HelperResolver(self.repo, fi)
        self._function(fi.node, fi, hr, {}, ())

    def _function(self, fn: ast.AST, where: t.Any, hr: HelperResolver, env: dict[str, t.Any], murky: tuple[str, ...]) -> tuple[t.Any, list[dict[str, t.Any]]]:
        env = {k: v for k, v in env.items() if v != DATA}
        key = (id(fn), tuple(sorted(env.items())), murky)
        if key in self._memo:
            return self._memo[key]
        if id(fn) in self._stack or len(self._stack) >= 8:
            return TOP, []
        if where not in self.analysed:
            self.analysed.append(where)
        self._stack.append(id(fn))
        try:
            cfg = hr.cfg(fn)
            seen: dict[int, set[t.Any]] = {}
            rets: list[t.Any] = []
            exits: list[dict[str, t.Any]] = []
            work: list[tuple[Node, dict[str, t.Any], tuple[str, ...]]] = [(cfg.entry, dict(env), murky)]
            while work:
                n, st, mk = work.pop()
                st = {k: v for k, v in st.items() if v != DATA}
                fz = (tuple(sorted(st.items())), mk)
                bucket = seen.setdefault(n.id, set())
                if fz in bucket:
                    continue
                bucket.add(fz)
                self.steps += 1
                if self.steps > self.limit:
                    raise AnalysisError("abstract execution of the rule-part builders did not settle")
                if n is cfg.exit:
                    exits.append(st)
                    continue
                if n is cfg.raise_exit:
                    continue
                for succ, st2, mk2 in self._transfer(cfg, n, st, mk, fn, where, hr, rets):
                    work.append((succ, st2, mk2))
            is_gen = any(isinstance(x, (ast.Yield, ast.YieldFrom)) for x in _own_nodes(fn))
            rv = DATA if is_gen else join_values(rets) if rets else DATA
            out = (rv, exits)
        finally:
            self._stack.pop()
        self._memo[key] = out
        return out

    # -- one CFG node --------------------------------------------------
    def _transfer(self, cfg: CFG, n: Node, st: dict[str, t.Any], mk: tuple[str, ...], fn: ast.AST, where: t.Any, hr: HelperResolver, rets: list[t.Any]) -> list[tuple[Node, dict[str, t.Any], tuple[str, ...]]]:
        a = n.ast
        normal = [s for s, l in n.succs if l != "exc"]
        excs = [s for s, l in n.succs if l == "exc"]
        out: list[tuple[Node, dict[str, t.Any], tuple[str, ...]]] = [(s, st, mk) for s in excs]
        ev = lambda e, env: self.ev(e, env, mk, fn, where, hr)  # noqa: E731
        if a is None or n.kind in ("entry", "join"):
            return out + [(s, st, mk) for s in normal]
        if n.kind == "test":
            for pre in self._forks(a, st):
                env = dict(pre)
                for w in ast.walk(a):
                    if isinstance(w, ast.NamedExpr):
                        env[w.target.id] = ev(w.value, env)
                scratch = dict(env)
                ev(a, scratch)  # constructions / helper calls inside the condition
                d, murk = self.decide(a, env, mk, fn, where, hr)
                for label, val in (("T", True), ("F", False)):
                    if d is not None and d != val:
                        continue
                    env2 = dict(env)
                    mk2 = mk
                    if d is None:
                        if isinstance(a, ast.Name):
                            cur = env2.get(a.id, DATA)
                            if is_l(cur):
                                env2[a.id] = cur if val else L_EMPTY
                            else:
                                env2[a.id] = vb(val) if not is_s(cur) else (cur if val else vs(True, ""))
                        if murk:
                            mk2 = tuple(sorted(set(mk) | {norm(a)[:60]}))
                    out.extend((s, env2, mk2) for s in cfg.succ(n, label))
            return out
        if n.kind == "loop":
            env = dict(st)
            ev(a.iter, env)  # type: ignore[union-attr]
            envT = dict(env)
            for nm in _assigned_names([a.target]):  # type: ignore[union-attr]
                envT[nm] = DATA
            return out + [(s, envT, mk) for s in cfg.succ(n, "T")] + [(s, env, mk) for s in cfg.succ(n, "F")]
        if n.kind == "with":
            env = dict(st)
            for it in a.items:  # type: ignore[union-attr]
                ev(it.context_expr, env)
                if it.optional_vars is not None:
                    for nm in _assigned_names([it.optional_vars]):
                        env[nm] = DATA
            return out + [(s, env, mk) for s in normal]
        if n.kind == "handler":
            env = dict(st)
            if isinstance(a, ast.ExceptHandler) and a.name:
                env[a.name] = DATA
            return out + [(s, env, mk) for s in normal]
        # statements
        for pre in self._forks(a, st):
            env = dict(pre)
            if isinstance(a, (ast.Assign, ast.AnnAssign)):
                if a.value is not None:
                    tgs = a.targets if isinstance(a, ast.Assign) else [a.target]
                    if len(tgs) == 1 and isinstance(tgs[0], (ast.Tuple, ast.List)) and isinstance(a.value, (ast.Tuple, ast.List)) and len(tgs[0].elts) == len(a.value.elts) \
                            and not any(isinstance(x, ast.Starred) for x in [*tgs[0].elts, *a.value.elts]):
                        vals = [ev(x, env) for x in a.value.elts]
                        for tg, v, src in zip(tgs[0].elts, vals, a.value.elts):
                            self._bind(tg, self._kept(tg, v, src, env, hr), env, ev)
                    else:
                        v = ev(a.value, env)
                        for tg in tgs:
                            self._bind(tg, self._kept(tg, v, a.value, env, hr), env, ev)
            elif isinstance(a, ast.AugAssign):
                v = ev(a.value, env)
                if isinstance(a.target, ast.Name):
                    cur = env.get(a.target.id, DATA)
                    if is_l(cur):
                        env[a.target.id] = l_cat(cur, v) if isinstance(a.op, ast.Add) else L_UNKNOWN
                    else:
                        env[a.target.id] = concat(cur, v) if isinstance(a.op, ast.Add) else (TOP if is_s(cur) else DATA)
                elif isinstance(a.target, ast.Subscript) and isinstance(a.target.value, ast.Name) and is_l(env.get(a.target.value.id, DATA)):
                    env[a.target.value.id] = L_UNKNOWN  # `pieces[-1] += x`: an element changed in place
                else:
                    if isinstance(a.target, ast.Attribute) and a.target.attr in self.fields:
                        raise AnalysisError(f"`{norm(a)[:70]}`: a rule part's field is changed after the part was built")
                    ev(a.target, env)
            elif isinstance(a, ast.Return):
                rets.append(ev(a.value, env) if a.value is not None else DATA)
            elif isinstance(a, (ast.FunctionDef, ast.AsyncFunctionDef, ast.ClassDef)):
                env[a.name] = DATA
            elif isinstance(a, (ast.Import, ast.ImportFrom, ast.Global, ast.Nonlocal, ast.Pass, ast.Break, ast.Continue)):
                pass
            elif isinstance(a, ast.Delete):
                for nm in _assigned_names([a]):
                    env[nm] = DATA
            else:
                for ch in ast.iter_child_nodes(a):
                    if isinstance(ch, ast.expr):
                        ev(ch, env)
            out.extend((s, env, mk) for s in normal)
        return out

    def _kept(self, tg: ast.AST, v: t.Any, src: ast.AST, env: dict[str, t.Any], hr: HelperResolver) -> t.Any:
        """a list value is followed only in a name that is joined somewhere; a second name for the same list object
        (`other = pieces`) would let it change behind the analysis: both are given up."""
        if not is_l(v):
            return v
        if isinstance(src, ast.Name) and is_l(env.get(src.id, DATA)):
            env[src.id] = TOP
            return TOP
        if isinstance(tg, ast.Name) and tg.id in self.piece_names(hr.fi.module):
            return v
        return DATA

    def _bind(self, tg: ast.AST, v: t.Any, env: dict[str, t.Any], ev: t.Callable[[ast.AST, dict[str, t.Any]], t.Any]) -> None:
        if isinstance(tg, ast.Name):
            env[tg.id] = v
        elif isinstance(tg, (ast.Tuple, ast.List, ast.Starred)):
            for nm in _assigned_names([tg]):
                env[nm] = DATA if v != TOP else TOP
        elif isinstance(tg, ast.Attribute):
            if tg.attr in self.fields and not (isinstance(tg.value, ast.Name) and tg.value.id in ("self", "cls")):
                raise AnalysisError(f"`{norm(tg)} = ...`: a rule part's field is changed after the part was built")
            ev(tg.value, env)
        elif isinstance(tg, ast.Subscript):
            if isinstance(tg.value, ast.Name) and is_l(env.get(tg.value.id, DATA)):
                env[tg.value.id] = L_UNKNOWN  # `pieces[i] = x`
            ev(tg.value, env)
            ev(tg.slice, env)

    def _forks(self, a: ast.AST, st: dict[str, t.Any]) -> list[dict[str, t.Any]]:
        """conditional expressions / `and`-`or` values inside one statement that test a flag of unknown value: the state
        is split on the flag first, so that the value chosen stays tied to the flag."""
        names: list[str] = []
        for x in ast.walk(a):
            tests: list[ast.AST] = []
            if isinstance(x, ast.IfExp):
                tests.append(x.test)
            elif isinstance(x, ast.BoolOp):
                tests.extend(x.values)
            for tst in tests:
                while isinstance(tst, ast.UnaryOp) and isinstance(tst.op, ast.Not):
                    tst = tst.operand
                if isinstance(tst, ast.Name) and truth(st.get(tst.id, DATA)) is None and not is_s(st.get(tst.id, DATA)) and not is_l(st.get(tst.id, DATA)) and st.get(tst.id, DATA) != TOP and tst.id not in names:
                    names.append(tst.id)
        states = [st]
        for nm in names[:4]:
            states = [{**s, nm: vb(b)} for s in states for b in (True, False)]
        return states

    # -- conditions ----------------------------------------------------
    def _tracked(self, e: ast.AST, env: dict[str, t.Any]) -> bool:
        return any(isinstance(x, ast.Name) and isinstance(x.ctx, ast.Load) and env.get(x.id, DATA)[0] in ("b", "s", "l", "?") for x in ast.walk(e))

    def decide(self, e: ast.AST, env: dict[str, t.Any], mk: tuple[str, ...], fn: ast.AST, where: t.Any, hr: HelperResolver) -> tuple[bool | None, bool]:
        """(truth value or None, whether an undecided condition is one over followed values whose form is not read)."""
        ev = lambda x: self.ev(x, dict(env), mk, fn, where, hr)  # noqa: E731
        rec = lambda x: self.decide(x, env, mk, fn, where, hr)  # noqa: E731
        if isinstance(e, ast.Constant):
            return bool(e.value), False
        if isinstance(e, ast.NamedExpr):
            return rec(e.value)
        if isinstance(e, ast.UnaryOp) and isinstance(e.op, ast.Not):
            d, m = rec(e.operand)
            return (None if d is None else not d), m
        if isinstance(e, ast.BoolOp):
            is_and = isinstance(e.op, ast.And)
            unknown = False
            murk = False
            for v in e.values:
                d, m = rec(v)
                if d is None:
                    unknown, murk = True, murk or m
                elif d != is_and:
                    return d, False
            return (None, murk) if unknown else (is_and, False)
        if isinstance(e, ast.Compare) and len(e.ops) == 1:
            l, r = ev(e.left), ev(e.comparators[0])
            op = e.ops[0]
            if isinstance(op, (ast.Eq, ast.NotEq, ast.Is, ast.IsNot)):
                neg = isinstance(op, (ast.NotEq, ast.IsNot))
                known = lambda v: v[0] == "b" or (is_s(v) and v[1])  # noqa: E731
                if known(l) and known(r):
                    same = l == r
                    return (same != neg), False
                if isinstance(op, (ast.Eq, ast.NotEq)) and is_s(l) and is_s(r):
                    # a string whose end is known against a constant: different ends decide it
                    a, b = l[2], r[2]
                    k = min(len(a), len(b))
                    if k and a[len(a) - k:] != b[len(b) - k:]:
                        return neg, False
                    return None, False
                for x, y in ((l, e.comparators[0]), (r, e.left)):
                    if isinstance(y, ast.Constant) and y.value is None and (x[0] in ("b", "s", "l")):
                        return neg, False  # a flag / string is not None
                if is_s(l) or is_s(r):
                    return None, False
            return None, self._tracked(e, env)
        if isinstance(e, ast.Call) and isinstance(e.func, ast.Attribute) and e.func.attr in ("endswith", "startswith") and len(e.args) == 1 and not e.keywords:
            recv, arg = ev(e.func.value), ev(e.args[0])
            if is_s(recv) and is_s(arg) and arg[1]:
                c = arg[2]
                if recv[1]:
                    return (recv[2].endswith(c) if e.func.attr == "endswith" else recv[2].startswith(c)), False
                if e.func.attr == "endswith":
                    tail = recv[2]
                    if len(tail) >= len(c):
                        return tail.endswith(c), False
                    if tail and not c.endswith(tail):
                        return False, False
                return None, False
            return None, self._tracked(e, env)
        if isinstance(e, ast.Call) and isinstance(e.func, ast.Name) and e.func.id == "bool" and len(e.args) == 1 and not e.keywords:
            return rec(e.args[0])
        v = ev(e)
        d = truth(v)
        if d is not None:
            return d, False
        if isinstance(e, ast.Name) or is_s(v):
            return None, False
        return None, self._tracked(e, env)

    # -- expressions ---------------------------------------------------
    def ev(self, e: ast.AST | None, env: dict[str, t.Any], mk: tuple[str, ...], fn: ast.AST, where: t.Any, hr: HelperResolver) -> t.Any:
        rec = lambda x: self.ev(x, env, mk, fn, where, hr)  # noqa: E731
        if e is None:
            return DATA
        if isinstance(e, ast.Constant):
            if isinstance(e.value, bool):
                return vb(e.value)
            if isinstance(e.value, str):
                return vs(True, e.value)
            return DATA
        if isinstance(e, ast.Name):
            if e.id in env:
                return env[e.id]
            return self._module_constant(e.id, fn, hr)
        if isinstance(e, ast.NamedExpr):
            v = rec(e.value)
            env[e.target.id] = v
            return v
        if isinstance(e, ast.JoinedStr):
            acc = vs(True, "")
            for part in e.values:
                if isinstance(part, ast.Constant) and isinstance(part.value, str):
                    acc = concat(acc, vs(True, part.value))
                elif isinstance(part, ast.FormattedValue):
                    inner = rec(part.value)
                    if part.format_spec is not None:
                        rec(part.format_spec)
                    plain = part.conversion == -1 and part.format_spec is None and is_s(inner)
                    acc = concat(acc, inner if plain else (TOP if inner == TOP else DATA))
                    if acc == DATA:
                        acc = vs(False, "")
            return acc
        if isinstance(e, ast.BinOp):
            l, r = rec(e.left), rec(e.right)
            if isinstance(e.op, ast.Add):
                if is_l(l) or is_l(r):
                    return l_cat(l, r)
                return concat(l, r)
            if isinstance(e.op, ast.Mod) and is_s(l) and l[1]:
                return self._percent(l[2], e.right, r, rec)
            return TOP if (is_s(l) or is_s(r) or TOP in (l, r)) and not isinstance(e.op, ast.Mult) else DATA
        if isinstance(e, ast.IfExp):
            d, murk = self.decide(e.test, env, mk, fn, where, hr)
            rec(e.test)
            if d is True:
                return rec(e.body)
            if d is False:
                return rec(e.orelse)
            v = join_values([rec(e.body), rec(e.orelse)])
            return TOP if murk else v
        if isinstance(e, ast.BoolOp):
            is_and = isinstance(e.op, ast.And)
            last: t.Any = DATA
            for x in e.values:
                last = rec(x)
                d, _ = self.decide(x, env, mk, fn, where, hr)
                if d is None:
                    for y in e.values[e.values.index(x) + 1:]:
                        rec(y)
                    return DATA
                if d != is_and:
                    return last if last[0] == "b" else (vb(d) if not is_s(last) else last)
            return last if last[0] in ("b", "s") else DATA
        if isinstance(e, ast.UnaryOp) and isinstance(e.op, ast.Not):
            rec(e.operand)
            d, _ = self.decide(e.operand, env, mk, fn, where, hr)
            return DATA if d is None else vb(not d)
        if isinstance(e, ast.Compare):
            for x in [e.left, *e.comparators]:
                rec(x)
            d, _ = self.decide(e, env, mk, fn, where, hr)
            return DATA if d is None else vb(d)
        if isinstance(e, (ast.List, ast.Tuple)) and isinstance(e.ctx, ast.Load):
            acc: t.Any = L_EMPTY
            for x in e.elts:
                if isinstance(x, ast.Starred):
                    v = rec(x.value)
                    acc = l_cat(acc, v) if is_l(v) or v == TOP else L_UNKNOWN
                else:
                    acc = l_add(acc, rec(x))
            return acc
        if isinstance(e, ast.Subscript):
            base = rec(e.value)
            rec(e.slice)
            if is_l(base):
                whole = isinstance(e.slice, ast.Slice) and e.slice.lower is None and e.slice.upper is None and e.slice.step is None
                return base if whole else DATA
            if is_s(base):
                return self._slice(base, e.slice)
            return TOP if base == TOP else DATA
        if isinstance(e, ast.Call):
            return self._call(e, env, mk, fn, where, hr)
        if isinstance(e, (ast.Lambda, ast.ListComp, ast.SetComp, ast.DictComp, ast.GeneratorExp)):
            for x in ast.walk(e):
                if isinstance(x, ast.Call) and self.is_ctor(fn, x):
                    raise AnalysisError(f"`{norm(x)[:60]}`: a rule part built inside a comprehension / lambda is not followed")
            return DATA
        if isinstance(e, (ast.Yield, ast.YieldFrom, ast.Await, ast.Starred)):
            rec(e.value)
            return DATA
        if isinstance(e, ast.Attribute):
            rec(e.value)
            return DATA
        for ch in ast.iter_child_nodes(e):
            if isinstance(ch, ast.expr):
                rec(ch)
        return DATA

    def _module_constant(self, name: str, fn: ast.AST, hr: HelperResolver) -> t.Any:
        """a name that is not a local of the function (nor of the function a closure sits in): a module-level string /
        flag constant, folded."""
        key = (id(fn), name)
        if key in self._consts:
            return self._consts[key]
        val: t.Any = DATA
        scopes = [fn, hr.fi.node]
        local = any(isinstance(x, ast.Name) and x.id == name and isinstance(x.ctx, (ast.Store, ast.Del)) for sc in scopes for x in ast.walk(sc)) \
            or any(name in {p.arg for p in [*sc.args.posonlyargs, *sc.args.args, *sc.args.kwonlyargs, *filter(None, [sc.args.vararg, sc.args.kwarg])]} for sc in scopes if hasattr(sc, "args"))
        if not local and name in hr.fi.module.assigns:
            try:
                from ..fold import Folder

                c = Folder(self.repo).name(hr.fi.module, name)
                if isinstance(c, bool):
                    val = vb(c)
                elif isinstance(c, str):
                    val = vs(True, c)
            except AnalysisError:
                val = DATA
        self._consts[key] = val
        return val

    @staticmethod
    def _slice(base: t.Any, sl: ast.AST) -> t.Any:
        def const_int(x: ast.AST | None) -> int | None:
            if x is None:
                return None
            if isinstance(x, ast.Constant) and isinstance(x.value, int) and not isinstance(x.value, bool):
                return x.value
            if isinstance(x, ast.UnaryOp) and isinstance(x.op, ast.USub) and isinstance(x.operand, ast.Constant) and isinstance(x.operand.value, int):
                return -x.operand.value
            return None

        _, exact, tail = base
        if isinstance(sl, ast.Slice):
            lo, hi, step = const_int(sl.lower), const_int(sl.upper), const_int(sl.step)
            if (sl.lower is not None and lo is None) or (sl.upper is not None and hi is None) or sl.step is not None and step != 1:
                return vs(False, "")
            if exact:
                return vs(True, tail[lo:hi])
            if lo is None and hi is not None and hi < 0 and len(tail) >= -hi:
                return vs(False, tail[:hi])
            if hi is None and lo is not None and lo < 0 and len(tail) >= -lo:
                return vs(True, tail[lo:])
            if hi is None and (lo is None or lo >= 0):
                return vs(False, tail)
            return vs(False, "")
        i = const_int(sl)
        if i is None:
            return vs(False, "")
        if exact:
            return vs(True, tail[i]) if -len(tail) <= i < len(tail) else TOP
        if i < 0 and len(tail) >= -i:
            return vs(True, tail[i])
        return vs(False, "")

    def _percent(self, fmt: str, right: ast.AST, rv: t.Any, rec: t.Callable[[ast.AST], t.Any]) -> t.Any:
        """`fmt % right`: the literal text and the values, in order (a value that is not a followed string is input)."""
        specs = list(_re.finditer(r"%(?:\([^)]*\))?[-#0 +]*\d*(?:\.\d+)?[sdrfi%]", fmt))
        if not specs:
            return vs(True, fmt)
        elts = list(right.elts) if isinstance(right, ast.Tuple) else [right]
        acc = vs(True, "")
        pos = k = 0
        for sp in specs:
            acc = concat(acc, vs(True, fmt[pos:sp.start()]))
            pos = sp.end()
            g = sp.group()
            if g == "%%":
                acc = concat(acc, vs(True, "%"))
                continue
            v: t.Any = DATA
            if "(" not in g and k < len(elts) and not isinstance(elts[k], ast.Starred):
                v = rv if not isinstance(right, ast.Tuple) else rec(elts[k])
            k += 1
            if v == TOP:
                return TOP
            acc = concat(acc, v) if g == "%s" and is_s(v) else vs(False, "")
        return concat(acc, vs(True, fmt[pos:]))

    def _call(self, e: ast.Call, env: dict[str, t.Any], mk: tuple[str, ...], fn: ast.AST, where: t.Any, hr: HelperResolver) -> t.Any:
        rec = lambda x: self.ev(x, env, mk, fn, where, hr)  # noqa: E731
        f = e.func
        d = dotted(f) or ""
        if self.is_ctor(fn, e):
            if any(isinstance(a, ast.Starred) for a in e.args) or any(k.arg is None for k in e.keywords) or len(e.args) > len(self.fields):
                raise AnalysisError(f"cannot map the arguments of `{norm(e)[:70]}` onto the fields of a rule part")
            vals: dict[str, t.Any] = {}
            for i, a in enumerate(e.args):
                vals[self.fields[i]] = rec(a)
            for k in e.keywords:
                vals[k.arg] = rec(k.value)  # type: ignore[index]
            rec_ = (id(e), tuple(sorted(vals.items())), mk)
            if rec_ not in self._seen_sites:
                self._seen_sites.add(rec_)
                self.sites.append(PartSite(e, where, tuple(sorted(vals.items())), mk))
            return DATA
        last = d.rsplit(".", 1)[-1]
        if last == "cast" and len(e.args) == 2:
            rec(e.args[0])
            return rec(e.args[1])
        if isinstance(f, ast.Attribute) and isinstance(f.value, ast.Name) and is_l(env.get(f.value.id, DATA)):
            nm, cur = f.value.id, env[f.value.id]
            args = [rec(a.value if isinstance(a, ast.Starred) else a) for a in e.args] + [rec(k.value) for k in e.keywords]
            plain = not e.keywords and not any(isinstance(a, ast.Starred) for a in e.args)
            if f.attr == "append" and plain and len(args) == 1:
                env[nm] = l_add(cur, args[0])
            elif f.attr == "extend" and plain and len(args) == 1:
                env[nm] = l_cat(cur, args[0]) if is_l(args[0]) or args[0] == TOP else L_UNKNOWN
            elif f.attr == "insert" and plain and len(args) == 2 and isinstance(e.args[0], ast.Constant) and e.args[0].value == 0:
                first = l_add(L_EMPTY, args[1])
                env[nm] = l_cat(first, cur)
            elif f.attr == "clear" and not args:
                env[nm] = L_EMPTY
            elif f.attr == "copy" and not args:
                return cur
            elif f.attr in ("count", "index", "__len__", "__contains__"):
                return DATA
            else:
                env[nm] = L_UNKNOWN  # pop / remove / reverse / sort / ...: the end of the text is no longer known
            return DATA
        if isinstance(f, ast.Attribute) and not (isinstance(f.value, ast.Name) and f.value.id in ("self", "cls")):
            recv_is_const = isinstance(f.value, (ast.Constant, ast.JoinedStr))
            recv = rec(f.value) if (recv_is_const or isinstance(f.value, ast.Name) and is_s(env.get(f.value.id, DATA)) or isinstance(f.value, (ast.Subscript, ast.BinOp))) else None
            if recv is not None and is_s(recv):
                args = [rec(a) for a in e.args] + [rec(k.value) for k in e.keywords]
                if f.attr in ("endswith", "startswith"):
                    dd, _ = self.decide(e, env, mk, fn, where, hr)
                    return DATA if dd is None else vb(dd)
                if f.attr == "join" and len(e.args) == 1 and not e.keywords and not isinstance(e.args[0], (ast.List, ast.Tuple)):
                    a0 = e.args[0]
                    if isinstance(a0, (ast.GeneratorExp, ast.ListComp)) and len(a0.generators) == 1 and not a0.generators[0].ifs and isinstance(a0.generators[0].target, ast.Name) \
                            and astq_is_name(a0.elt, a0.generators[0].target.id):
                        a0 = a0.generators[0].iter  # `"".join(p for p in pieces)`
                    lv = args[0] if a0 is e.args[0] else rec(a0)
                    if is_l(lv):
                        if recv[1] and recv[2] == "":
                            return l_text(lv)
                        return vs(False, "")  # a separator between pieces whose boundaries are not followed
                    if lv == TOP:
                        return TOP
                    return vs(False, "")
                if f.attr == "join" and recv[1] and len(e.args) == 1 and isinstance(e.args[0], (ast.List, ast.Tuple)) and not any(isinstance(x, ast.Starred) for x in e.args[0].elts):
                    acc = vs(True, "")
                    for i, x in enumerate(e.args[0].elts):
                        if i:
                            acc = concat(acc, recv)
                        acc = concat(acc, rec(x))
                        if acc == DATA:
                            acc = vs(False, "")
                    return acc
                if f.attr == "format" and recv[1]:
                    return self._format(recv[2], e, rec)
                if TOP in args:
                    return TOP
                if f.attr == "lstrip" and not recv[1]:
                    return vs(False, recv[2])
                return vs(False, "")  # some other string built from it: its end is not known
        rr = re_function(self.repo, hr.fi, e, hr.li)
        if rr == "escape" and len(e.args) == 1:
            v = rec(e.args[0])
            if is_s(v) and v[1]:
                return vs(True, _re.escape(v[2]))
            return TOP if v == TOP else vs(False, "")
        if isinstance(f, ast.Name) and f.id == "bool" and len(e.args) == 1:
            rec(e.args[0])
            dd, _ = self.decide(e.args[0], env, mk, fn, where, hr)
            return DATA if dd is None else vb(dd)
        if isinstance(f, ast.Name) and f.id == "str" and len(e.args) == 1:
            v = rec(e.args[0])
            return v if is_s(v) or v == TOP else DATA
        if isinstance(f, ast.Name) and f.id in ("list", "tuple") and len(e.args) == 1 and not e.keywords and f.id not in env:
            v = rec(e.args[0])
            return v if is_l(v) or v == TOP else DATA
        r = hr.resolve_info(e)
        if r is not None:
            return self._helper(e, r, env, mk, fn, where, hr)
        given = [a.value if isinstance(a, ast.Starred) else a for a in e.args] + [k.value for k in e.keywords]
        argv = [v for a, v in ((a, rec(a)) for a in given) if not isinstance(a, ast.Constant)]  # a literal handed over is not a followed value
        if not isinstance(f, ast.Name):
            rec(f)
        if last in PURE_CALLS and isinstance(f, ast.Name):
            return DATA
        for a in given:
            if isinstance(a, ast.Name) and is_l(env.get(a.id, DATA)):
                env[a.id] = TOP  # a callee the analysis cannot look into may change the list
        if any(is_s(v) or v == TOP for v in argv):
            return TOP  # what an unknown callee makes of a followed string is not known
        return DATA

    def _format(self, fmt: str, e: ast.Call, rec: t.Callable[[ast.AST], t.Any]) -> t.Any:
        """`fmt.format(...)`: the literal text and the fields, in order (a field that is not a followed string handed
        over as it is - conversion, format spec, attribute / index lookup - is input)."""
        import string

        given: dict[int, t.Any] = {}

        def val(a: ast.AST) -> t.Any:
            if id(a) not in given:
                given[id(a)] = rec(a)
            return given[id(a)]

        for a in e.args:
            val(a)
        for k in e.keywords:
            val(k.value)
        try:
            fields = list(string.Formatter().parse(fmt))
        except ValueError:
            return vs(False, "")
        if any(isinstance(a, ast.Starred) for a in e.args) or any(k.arg is None for k in e.keywords):
            lit = fields[-1][0] if fields and fields[-1][1] is None else ""
            return vs(False, lit)
        acc = vs(True, "")
        auto = 0
        for literal, field, spec, conv in fields:
            acc = concat(acc, vs(True, literal))
            if field is None:
                continue
            arg: ast.AST | None = None
            if field == "":
                arg = e.args[auto] if auto < len(e.args) else None
                auto += 1
            elif field.isdigit():
                arg = e.args[int(field)] if int(field) < len(e.args) else None
            elif field.isidentifier():
                arg = next((k.value for k in e.keywords if k.arg == field), None)
            v = val(arg) if arg is not None else DATA
            if v == TOP:
                return TOP
            acc = concat(acc, v) if is_s(v) and not spec and conv is None else vs(False, "")
        return acc

    def _helper(self, e: ast.Call, r: tuple[t.Any, bool], env: dict[str, t.Any], mk: tuple[str, ...], fn: ast.AST, where: t.Any, hr: HelperResolver) -> t.Any:
        target, skip = r
        rec = lambda x: self.ev(x, env, mk, fn, where, hr)  # noqa: E731
        hnode = target.node if isinstance(target, FuncInfo) else target
        bound = bind_call(hnode, e, skip)
        argv = [rec(a.value if isinstance(a, ast.Starred) else a) for a in e.args] + [rec(k.value) for k in e.keywords]
        if bound is None:
            return TOP if any(is_s(v) or v == TOP for v in argv) else DATA
        if isinstance(target, FuncInfo):
            henv: dict[str, t.Any] = {}
            hhr = HelperResolver(self.repo, target)
            hwhere: t.Any = target
        else:
            henv = {k: v for k, v in env.items()}
            hhr = hr
            hwhere = where
        given = {id(a) for a in e.args} | {id(k.value) for k in e.keywords}
        for p, a in bound.items():
            v = rec(a) if id(a) in given else (self.ev(a, {}, mk, fn, where, hr) if isinstance(a, ast.Constant) else DATA)
            if v != DATA or p in henv:
                henv[p] = v
        if skip and hnode.args.args:  # type: ignore[attr-defined]
            henv.pop(hnode.args.args[0].arg, None)  # type: ignore[attr-defined]
        rv, exits = self._function(hnode, hwhere, hhr, henv, mk)
        for p, a in bound.items():
            if isinstance(a, ast.Name) and id(a) in given and is_l(env.get(a.id, DATA)) and _changes_list(hnode, p):
                # the helper changes the caller's list in place: what it holds when the helper is left, if that is one
                # value on every way out and the parameter is never rebound to another list; not followed otherwise
                after = {s.get(p, DATA) for s in exits}
                rebound = any(isinstance(x, ast.Name) and x.id == p and not isinstance(x.ctx, ast.Load) for x in ast.walk(hnode))
                is_gen = any(isinstance(x, (ast.Yield, ast.YieldFrom)) for x in _own_nodes(hnode))
                one = next(iter(after)) if len(after) == 1 else TOP
                env[a.id] = one if is_l(one) and not rebound and not is_gen else TOP
        if not isinstance(target, FuncInfo):
            nl = {nm for x in _own_nodes(hnode) if isinstance(x, ast.Nonlocal) for nm in x.names}
            is_gen = any(isinstance(x, (ast.Yield, ast.YieldFrom)) for x in _own_nodes(hnode))
            for nm in nl:
                env[nm] = TOP if is_gen or not exits else join_values([s.get(nm, DATA) for s in exits])
        return rv


def astq_is_name(e: ast.AST, name: str) -> bool:
    return isinstance(e, ast.Name) and e.id == name


def _changes_list(fn: ast.AST, p: str) -> bool:
    """the function may change the list its parameter p is bound to (a method other than the reading ones is called on
    it, an element / slice of it is stored, it is extended in place, or it is handed on)."""
    READS = ("copy", "count", "index", "__len__", "__contains__", "__iter__")
    for x in ast.walk(fn):
        if isinstance(x, ast.Name) and x.id == p and isinstance(x.ctx, ast.Load):
            continue
        if isinstance(x, ast.Name) and x.id == p:
            return True
    for x in ast.walk(fn):
        if isinstance(x, ast.Attribute) and astq_is_name(x.value, p) and x.attr not in READS:
            return True
        if isinstance(x, ast.Subscript) and astq_is_name(x.value, p) and isinstance(x.ctx, (ast.Store, ast.Del)):
            return True
        if isinstance(x, ast.AugAssign) and astq_is_name(x.target, p):
            return True
        if isinstance(x, ast.Call) and not (isinstance(x.func, ast.Attribute) and x.func.attr == "join") and not (isinstance(x.func, ast.Name) and x.func.id in PURE_CALLS) \
                and any(astq_is_name(a.value if isinstance(a, ast.Starred) else a, p) for a in [*x.args, *[k.value for k in x.keywords]]):
            return True
    return False


def _own_nodes(fn: ast.AST) -> t.Iterator[ast.AST]:
    stack = list(ast.iter_child_nodes(fn))
    while stack:
        n = stack.pop()
        yield n
        if isinstance(n, (ast.FunctionDef, ast.AsyncFunctionDef, ast.ClassDef, ast.Lambda)):
            continue
        stack.extend(ast.iter_child_nodes(n))


def re_function(repo: t.Any, fi: FuncInfo, call: ast.Call, li: dict[str, str] | None = None) -> str | None:
    """`match` / `fullmatch` / `search` / `compile` / `escape` ... when the call is that function of the `re` module."""
    d = dotted(call.func)
    if not d:
        return None
    try:
        fq = repo.resolve(fi.module, d, li if li is not None else fi.module.local_imports(fi.node))
    except Exception:
        return None
    if fq and fq.startswith("re."):
        return fq[3:]
    return None
