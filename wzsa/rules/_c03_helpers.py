"""helpers of the C03 rules that decide on *meaning* rather than on statement shapes.

* ``Walker``: path-wise symbolic walk over a CFG region.  Along every path it keeps, for each local name, the
  expression the name stands for (over the values the free names had when the walk started), decides branch
  conditions on the substituted expressions (three-valued: a condition the valuation does not decide forks the
  path, consistently for repeated tests of the same atom), resolves conditional expressions and follows private
  helpers (value returned / exception raised by the helper).  The rule then asks *which value leaves the region
  under which valuation* - whether it was raised per branch, selected into a local first, chosen by a conditional
  expression or produced by a helper makes no difference.
* ``truthy_polarity``: the spellings of "this collection is (non-)empty".
* ``StateFlow``: a small abstract evaluation of "which successor states does this expression yield", used to decide
  that a traversal (recursive or work-list) reaches the static and the dynamic successors of every state.
"""

from __future__ import annotations

import ast
import typing as t

from .. import astq, guards
from ..cfg import CFG, Node
from ..loader import AnalysisError, FuncInfo, dotted, norm

# ----------------------------------------------------------------------
# expressions


def reparse(e: ast.AST) -> ast.AST:
    """a private copy of an expression (the loader hangs `_parent` links on its nodes: never deepcopy them)."""
    return ast.parse(ast.unparse(e), mode="eval").body


def _bound_inside(e: ast.AST) -> set[str]:
    """names bound by comprehensions / lambdas inside e (they are not the function's locals)."""
    out: set[str] = set()
    for x in ast.walk(e):
        if isinstance(x, (ast.ListComp, ast.SetComp, ast.GeneratorExp, ast.DictComp)):
            for g in x.generators:
                out |= {n.id for n in ast.walk(g.target) if isinstance(n, ast.Name)}
        elif isinstance(x, ast.Lambda):
            a = x.args
            out |= {p.arg for p in [*a.posonlyargs, *a.args, *a.kwonlyargs]}
    return out


def subst(e: ast.AST, env: t.Mapping[str, ast.AST]) -> ast.AST:
    """e with every loaded local name replaced by the expression it stands for (single pass: the values in env are
    already closed over the initial names)."""
    fresh = reparse(e)
    skip = _bound_inside(fresh)

    class T(ast.NodeTransformer):
        def visit_Name(self, n: ast.Name) -> ast.AST:  # noqa: N802
            if isinstance(n.ctx, ast.Load) and n.id in env and n.id not in skip:
                return reparse(env[n.id])
            return n

    return ast.fix_missing_locations(T().visit(fresh))


_COLLECTION_WRAPPERS = ("list", "tuple", "sorted", "set", "frozenset", "bool", "len")


def _unwrap_collection(e: ast.AST) -> ast.AST:
    """`list(x)`, `sorted(x)`, `len(x)`, `bool(x)` ... are truthy exactly when x is."""
    while isinstance(e, ast.Call) and isinstance(e.func, ast.Name) and e.func.id in _COLLECTION_WRAPPERS and len(e.args) == 1 and not e.keywords:
        e = e.args[0]
    return e


def _is_empty_collection(e: ast.AST) -> bool:
    if isinstance(e, (ast.List, ast.Tuple, ast.Set)) and not e.elts:
        return True
    if isinstance(e, ast.Dict) and not e.keys:
        return True
    return isinstance(e, ast.Call) and isinstance(e.func, ast.Name) and e.func.id in ("set", "frozenset", "list", "tuple") and not e.args and not e.keywords


def _mirror(op: ast.cmpop) -> type:
    return {ast.Gt: ast.Lt, ast.Lt: ast.Gt, ast.GtE: ast.LtE, ast.LtE: ast.GtE}.get(type(op), type(op))


def truthy_polarity(atom: ast.AST, target: str) -> bool | None:
    """True: the atom is true exactly when the collection `target` is non-empty (a flag: set); False: exactly when
    it is empty; None: the atom does not decide it."""
    if isinstance(atom, ast.UnaryOp) and isinstance(atom.op, ast.Not):
        p = truthy_polarity(atom.operand, target)
        return None if p is None else not p
    if isinstance(atom, ast.NamedExpr):
        return truthy_polarity(atom.value, target)
    if norm(_unwrap_collection(atom)) == target:
        return True
    cp = astq.cmp_parts(atom)
    if cp is None:
        return None
    left, op, right = cp
    for a, b, flip in ((left, right, False), (right, left, True)):
        is_t = norm(_unwrap_collection(a)) == target
        if not is_t:
            continue
        if _is_empty_collection(b):
            if isinstance(op, ast.Eq):
                return False
            if isinstance(op, ast.NotEq):
                return True
        if not isinstance(b, ast.Constant):
            continue
        plain = norm(a) == target or (isinstance(a, ast.Call) and isinstance(a.func, ast.Name) and a.func.id == "bool")
        if plain and isinstance(b.value, bool):
            if isinstance(op, (ast.Is, ast.Eq)):
                return b.value
            if isinstance(op, (ast.IsNot, ast.NotEq)):
                return not b.value
        is_len = isinstance(a, ast.Call) and isinstance(a.func, ast.Name) and a.func.id == "len"
        if is_len and isinstance(b.value, int) and not isinstance(b.value, bool):
            o = _mirror(op) if flip else type(op)
            if (o, b.value) in ((ast.Gt, 0), (ast.NotEq, 0), (ast.GtE, 1)):
                return True
            if (o, b.value) in ((ast.Eq, 0), (ast.Lt, 1), (ast.LtE, 0)):
                return False
    return None


# ----------------------------------------------------------------------
# binding a call's arguments to a function's parameters


def bind_call(fn: ast.AST, call: ast.Call, skip_first: bool) -> dict[str, ast.AST] | None:
    """parameter name -> argument expression (defaults filled in); None when the call cannot be mapped."""
    a = fn.args  # type: ignore[attr-defined]
    if a.vararg or a.kwarg or any(isinstance(x, ast.Starred) for x in call.args) or any(k.arg is None for k in call.keywords):
        return None
    pa = [*a.posonlyargs, *a.args]
    pos = [x.arg for x in pa]
    if skip_first:
        pos = pos[1:]
    defaults: dict[str, ast.AST] = {}
    for x, d in zip(pa[len(pa) - len(a.defaults):], a.defaults):
        defaults[x.arg] = d
    for x, d in zip(a.kwonlyargs, a.kw_defaults):
        if d is not None:
            defaults[x.arg] = d
    if len(call.args) > len(pos):
        return None
    bound: dict[str, ast.AST] = dict(zip(pos, call.args))
    names = set(pos) | {x.arg for x in a.kwonlyargs}
    for k in call.keywords:
        if k.arg not in names or k.arg in bound:
            return None
        bound[k.arg] = k.value  # type: ignore[index]
    for nm in names:
        if nm not in bound:
            if nm not in defaults:
                return None
            bound[nm] = defaults[nm]
    return bound


class HelperResolver:
    """the function a call expression runs, when that is a private piece of the code under analysis: a closure of the
    function, a method reached through self / cls / the class name, a function of the module."""

    def __init__(self, repo: t.Any, fi: FuncInfo):
        self.repo = repo
        self.fi = fi
        self.closures = {n.name: n for n in ast.walk(fi.node) if n is not fi.node and isinstance(n, (ast.FunctionDef, ast.AsyncFunctionDef))}
        self.li = fi.module.local_imports(fi.node)
        self._cfgs: dict[int, CFG] = {}
        self.typed: dict[str, t.Any] = {}  # local name -> ClassInfo, for locals whose class the rule knows

    def resolve(self, call: ast.Call) -> tuple[ast.AST, bool] | None:
        """(function node, whether the first parameter is the implicit receiver)."""
        r = self.resolve_info(call)
        return (r[0].node, r[1]) if isinstance(r, tuple) and isinstance(r[0], FuncInfo) else r  # type: ignore[return-value]

    def resolve_info(self, call: ast.Call) -> tuple[t.Any, bool] | None:
        """like resolve, but the FuncInfo where there is one (a closure has none: its node is returned)."""
        f = call.func
        if isinstance(f, ast.Name):
            if f.id in self.closures:
                return self.closures[f.id], False
            fq = self.repo.resolve(self.fi.module, f.id, self.li)
            h = self.repo.try_func(fq) if fq and fq.startswith("werkzeug") else None
            return (h, False) if h is not None else None
        if isinstance(f, ast.Attribute) and isinstance(f.value, ast.Name):
            owner = None
            through_class = False
            if self.fi.cls is not None and f.value.id in ("self", "cls"):
                owner = self.fi.cls
                through_class = f.value.id == "cls"
            elif f.value.id in self.typed:
                owner = self.typed[f.value.id]  # a local whose class is known (`except NoMatch as e`)
            else:
                fq = self.repo.resolve(self.fi.module, f.value.id, self.li)
                owner = self.repo.try_cls(fq) if fq and fq.startswith("werkzeug") else None  # `Weighting.from_weights(...)`
                through_class = owner is not None
            if owner is None:
                return None
            _, what = self.repo.lookup(owner, f.attr)
            if isinstance(what, FuncInfo):
                static = any(d.endswith("staticmethod") for d in what.decorators)
                clsm = any(d.endswith("classmethod") for d in what.decorators)
                if through_class and not static and not clsm:
                    return None  # unbound call: the receiver is an explicit argument
                return what, not static
        return None

    def cfg(self, fn: ast.AST) -> CFG:
        c = self._cfgs.get(id(fn))
        if c is None:
            c = self._cfgs[id(fn)] = CFG(fn)
        return c


# ----------------------------------------------------------------------
# the walker


class Exit(t.NamedTuple):
    kind: str  # raise | return | fall | loop | caught
    node: Node | None  # the statement of the walked function at which the region is left
    value: ast.AST | None  # the raised / returned expression over the initial names (conditional expressions resolved)
    asm: tuple[tuple[str, bool], ...]  # what the path assumed about atoms the valuation left open
    passed: tuple[Node, ...]


_OPAQUE = "__opaque_"


def is_opaque(e: ast.AST | None) -> bool:
    return e is None or any(isinstance(x, ast.Name) and x.id.startswith(_OPAQUE) for x in ast.walk(e))


def _assigned_names(stmts: t.Iterable[ast.AST]) -> set[str]:
    out: set[str] = set()
    for st in stmts:
        for x in ast.walk(st):
            if isinstance(x, ast.Name) and isinstance(x.ctx, (ast.Store, ast.Del)):
                out.add(x.id)
    return out


class Walker:
    def __init__(self, cfg: CFG, decide: t.Callable[[ast.AST], bool | None], helpers: HelperResolver | None = None, depth: int = 0, limit: int = 6000):
        self.cfg = cfg
        self.decide = decide
        self.helpers = helpers
        self.depth = depth
        self.limit = limit
        self.attr_stores: list[str] = []

    # -- conditions and values ----------------------------------------
    def cond(self, e: ast.AST, asm: dict[str, bool]) -> list[tuple[bool, dict[str, bool]]]:
        """possible truth values of a (substituted) condition with the assumptions each needs; short-circuit order."""
        if isinstance(e, ast.BoolOp):
            is_and = isinstance(e.op, ast.And)
            done: list[tuple[bool, dict[str, bool]]] = []
            live = [asm]
            for v in e.values:
                nxt: list[dict[str, bool]] = []
                for a in live:
                    for b, a2 in self.cond(v, a):
                        if b == is_and:
                            nxt.append(a2)
                        else:
                            done.append((b, a2))
                live = nxt
            return done + [(is_and, a) for a in live]
        if isinstance(e, ast.UnaryOp) and isinstance(e.op, ast.Not):
            return [(not b, a) for b, a in self.cond(e.operand, asm)]
        if isinstance(e, ast.IfExp):
            out: list[tuple[bool, dict[str, bool]]] = []
            for b, a in self.cond(e.test, asm):
                out.extend(self.cond(e.body if b else e.orelse, a))
            return out
        if isinstance(e, ast.Constant):
            return [(bool(e.value), asm)]
        if isinstance(e, ast.NamedExpr):
            return self.cond(e.value, asm)
        if isinstance(e, ast.Call) and isinstance(e.func, ast.Name) and e.func.id == "bool" and len(e.args) == 1 and not e.keywords:
            return self.cond(e.args[0], asm)
        d = self.decide(e)
        if d is not None:
            return [(d, asm)]
        k, p = guards.canon(e)
        if k in asm:
            return [(asm[k] == p, asm)]
        return [(True, {**asm, k: p}), (False, {**asm, k: not p})]

    def values(self, e: ast.AST | None, asm: dict[str, bool]) -> list[tuple[ast.AST | None, dict[str, bool]]]:
        """the expression with conditional expressions / typing.cast resolved."""
        if isinstance(e, ast.IfExp):
            out: list[tuple[ast.AST | None, dict[str, bool]]] = []
            for b, a in self.cond(e.test, asm):
                out.extend(self.values(e.body if b else e.orelse, a))
            return out
        if isinstance(e, ast.Call) and (dotted(e.func) or "").rsplit(".", 1)[-1] == "cast" and len(e.args) == 2:
            return self.values(e.args[1], asm)
        if isinstance(e, ast.Call) and isinstance(e.func, ast.Lambda) and not e.args and not e.keywords:
            a = e.func.args
            if not (a.posonlyargs or a.args or a.kwonlyargs or a.vararg or a.kwarg):
                return self.values(e.func.body, asm)  # `(lambda: X)()` is X
        first = self._first_of(e, asm)
        if first is not None:
            return first
        return [(e, asm)]

    def _first_of(self, e: ast.AST | None, asm: dict[str, bool]) -> list[tuple[ast.AST | None, dict[str, bool]]] | None:
        """`next(<elt> for <target> in (<item>, ...) if <cond>)` over a written-out sequence: the element expression for
        the first item whose condition holds (an ordered dispatch table), decided item by item under the valuation."""
        if not (isinstance(e, ast.Call) and isinstance(e.func, ast.Name) and e.func.id == "next" and 1 <= len(e.args) <= 2 and not e.keywords and isinstance(e.args[0], (ast.GeneratorExp, ast.ListComp))):
            return None
        g = e.args[0]
        if isinstance(g, ast.ListComp) or len(g.generators) != 1:
            return None
        gen = g.generators[0]
        if not isinstance(gen.iter, (ast.Tuple, ast.List)) or any(isinstance(x, ast.Starred) for x in gen.iter.elts):
            return None

        def match(tg: ast.AST, item: ast.AST, into: dict[str, ast.AST]) -> bool:
            if isinstance(tg, ast.Name):
                into[tg.id] = item
                return True
            if isinstance(tg, (ast.Tuple, ast.List)) and isinstance(item, (ast.Tuple, ast.List)) and len(tg.elts) == len(item.elts) and not any(isinstance(x, ast.Starred) for x in [*tg.elts, *item.elts]):
                return all(match(t_, i_, into) for t_, i_ in zip(tg.elts, item.elts))
            return False

        def put(x: ast.AST, binding: dict[str, ast.AST]) -> ast.AST:
            class T(ast.NodeTransformer):
                def visit_Name(self, n: ast.Name) -> ast.AST:  # noqa: N802
                    return reparse(binding[n.id]) if isinstance(n.ctx, ast.Load) and n.id in binding else n

            return ast.fix_missing_locations(T().visit(reparse(x)))

        out: list[tuple[ast.AST | None, dict[str, bool]]] = []
        live = [asm]
        for item in gen.iter.elts:
            binding: dict[str, ast.AST] = {}
            if not match(gen.target, item, binding):
                return None
            nxt: list[dict[str, bool]] = []
            for a in live:
                states = [(True, a)]
                for c in gen.ifs:
                    new_states = []
                    for ok, a1 in states:
                        if not ok:
                            new_states.append((False, a1))
                        else:
                            new_states.extend(self.cond(put(c, binding), a1))
                    states = new_states
                for ok, a2 in states:
                    if ok:
                        out.extend(self.values(put(g.elt, binding), a2))
                    else:
                        nxt.append(a2)
            live = nxt
        for a in live:
            if len(e.args) == 2:
                out.extend(self.values(e.args[1], a))
            else:
                out.append((None, a))  # StopIteration: nothing the rule can name
        return out

    def _call_outcomes(self, e: ast.AST | None, asm: dict[str, bool]) -> list[tuple[str, ast.AST | None, dict[str, bool]]] | None:
        """when e is a call of a private helper: what the call amounts to - ('value', returned expression) or
        ('raise', raised expression); None when e is not such a call."""
        if self.helpers is None or not isinstance(e, ast.Call) or self.depth >= 3:
            return None
        r = self.helpers.resolve(e)
        if r is None:
            return None
        fn, skip = r
        bound = bind_call(fn, e, skip)
        if bound is None:
            return None
        if skip and isinstance(e.func, ast.Attribute) and fn.args.args:  # type: ignore[attr-defined]
            bound[fn.args.args[0].arg] = e.func.value  # the receiver: `e.http_error()` runs with self = e  # type: ignore[attr-defined]
        sub = Walker(self.helpers.cfg(fn), self.decide, self.helpers, self.depth + 1, self.limit)
        out: list[tuple[str, ast.AST | None, dict[str, bool]]] = []
        for x in sub.run(sub.cfg.entry, dict(bound), asm):
            a = dict(x.asm)
            if x.kind == "raise":
                out.append(("raise", x.value, a))
            elif x.kind == "return":
                out.append(("value", x.value if x.value is not None else ast.Constant(value=None), a))
            elif x.kind == "fall":
                out.append(("value", ast.Constant(value=None), a))
            else:
                out.append(("unknown", None, a))
        self.attr_stores.extend(sub.attr_stores)
        return out

    # -- the walk ------------------------------------------------------
    def run(self, start: Node, env: dict[str, ast.AST], asm: dict[str, bool] | None = None, skip_start: bool = False) -> list[Exit]:
        cfg = self.cfg
        out: list[Exit] = []
        stack: list[tuple[Node, dict[str, ast.AST], dict[str, bool], tuple[Node, ...], frozenset[int], bool]] = [(start, env, dict(asm or {}), (), frozenset(), skip_start)]
        steps = 0

        def frz(a: dict[str, bool]) -> tuple[tuple[str, bool], ...]:
            return tuple(sorted(a.items()))

        while stack:
            n, env, asm_, passed, seen, skip = stack.pop()
            steps += 1
            if steps > self.limit:
                raise AnalysisError("symbolic walk did not terminate")
            if n is cfg.exit:
                out.append(Exit("fall", passed[-1] if passed else None, None, frz(asm_), passed))
                continue
            if n is cfg.raise_exit:
                out.append(Exit("raise", passed[-1] if passed else None, None, frz(asm_), passed))
                continue
            if n.id in seen:
                out.append(Exit("loop", n, None, frz(asm_), passed))
                continue
            seen2 = seen | {n.id}
            passed2 = passed + (n,)
            a = n.ast

            def go(targets: t.Iterable[Node], env_: dict[str, ast.AST], asm2: dict[str, bool]) -> None:
                for s in targets:
                    stack.append((s, env_, asm2, passed2, seen2, False))

            normal = [s for s, l in n.succs if l not in ("exc", "raise")]
            if n.kind == "test":
                env2 = env
                for w in ast.walk(a):  # type: ignore[arg-type]
                    if isinstance(w, ast.NamedExpr):
                        env2 = {**env2, w.target.id: subst(w.value, env)}
                for b, a2 in self.cond(subst(a, env), asm_):  # type: ignore[arg-type]
                    go(cfg.succ(n, "T" if b else "F"), env2, a2)
                continue
            if n.kind in ("loop", "join") and isinstance(a, (ast.For, ast.AsyncFor, ast.While)):
                # whatever the loop assigns is unknown at its head and after it
                env2 = dict(env)
                for nm in _assigned_names([*a.body, *(a.orelse or [])] + ([a.target] if not isinstance(a, ast.While) else [])):
                    env2[nm] = ast.Name(id=f"{_OPAQUE}{nm}_L{n.lineno}", ctx=ast.Load())
                go(normal, env2, asm_)
                continue
            if n.kind == "handler":
                env2 = dict(env)
                if not skip and isinstance(a, ast.ExceptHandler) and a.name:
                    env2[a.name] = ast.Name(id=f"{_OPAQUE}{a.name}_L{n.lineno}", ctx=ast.Load())
                go(normal, env2, asm_)
                continue
            if n.kind == "with":
                env2 = dict(env)
                for nm in _assigned_names([i.optional_vars for i in a.items if i.optional_vars is not None]):  # type: ignore[union-attr]
                    env2[nm] = ast.Name(id=f"{_OPAQUE}{nm}_L{n.lineno}", ctx=ast.Load())
                go(normal, env2, asm_)
                continue
            if n.kind != "stmt" or a is None:
                go(normal, env, asm_)
                continue
            if not normal and not isinstance(a, (ast.Return, ast.Raise)):
                # a statement that never completes normally (call of a NoReturn function)
                out.append(Exit("raise", n, None, frz(asm_), passed2))
                continue
            if isinstance(a, (ast.Return, ast.Raise)):
                kind = "return" if isinstance(a, ast.Return) else "raise"
                if kind == "raise" and any(l == "exc" for _, l in n.succs):
                    out.append(Exit("caught", n, None, frz(asm_), passed2))
                    continue
                raw = a.value if isinstance(a, ast.Return) else a.exc
                if raw is None:
                    out.append(Exit(kind, n, None, frz(asm_), passed2))
                    continue
                for v, a2 in self.values(subst(raw, env), asm_):
                    co = self._call_outcomes(v, a2)
                    if co is None:
                        out.append(Exit(kind, n, v, frz(a2), passed2))
                        continue
                    for k, v2, a3 in co:
                        if k == "unknown":
                            out.append(Exit("loop", n, None, frz(a3), passed2))
                        elif k == "raise":
                            out.append(Exit("raise", n, v2, frz(a3), passed2))
                        else:
                            for v3, a4 in self.values(v2, a3):
                                out.append(Exit(kind, n, v3, frz(a4), passed2))
                continue
            if isinstance(a, ast.Expr):
                co = self._call_outcomes(subst(a.value, env), asm_) if isinstance(a.value, ast.Call) else None
                if co is None:
                    go(normal, env, asm_)
                    continue
                for k, v2, a3 in co:
                    if k == "raise":
                        out.append(Exit("raise", n, v2, frz(a3), passed2))
                    elif k == "unknown":
                        out.append(Exit("loop", n, None, frz(a3), passed2))
                    else:
                        go(normal, env, a3)
                continue
            # bindings
            if isinstance(a, (ast.Assign, ast.AnnAssign)):
                if a.value is None:
                    go(normal, env, asm_)
                    continue
                tgs = a.targets if isinstance(a, ast.Assign) else [a.target]
                for tg in tgs:
                    if isinstance(tg, (ast.Attribute, ast.Subscript)):
                        self.attr_stores.append(norm(tg))
                branches: list[tuple[dict[str, ast.AST], dict[str, bool]]] = []
                for v, a2 in self.values(subst(a.value, env), asm_):
                    co = self._call_outcomes(v, a2)
                    alts: list[tuple[ast.AST | None, dict[str, bool]]] = []
                    if co is None:
                        alts.append((v, a2))
                    else:
                        for k, v2, a3 in co:
                            if k == "raise":
                                out.append(Exit("raise", n, v2, frz(a3), passed2))
                            elif k == "unknown":
                                alts.append((None, a3))
                            else:
                                alts.extend(self.values(v2, a3))
                    for v2, a3 in alts:
                        env2 = dict(env)
                        for tg in tgs:
                            self._bind(env2, tg, v2, n)
                        branches.append((env2, a3))
                for env2, a3 in branches:
                    go(normal, env2, a3)
                continue
            env2 = dict(env)
            for nm in _assigned_names([a]):
                env2[nm] = ast.Name(id=f"{_OPAQUE}{nm}_L{n.lineno}", ctx=ast.Load())
            if isinstance(a, (ast.FunctionDef, ast.AsyncFunctionDef, ast.ClassDef)):
                env2[a.name] = ast.Name(id=f"{_OPAQUE}{a.name}_L{n.lineno}", ctx=ast.Load())
            go(normal, env2, asm_)
        return out

    def _bind(self, env: dict[str, ast.AST], tg: ast.AST, v: ast.AST | None, n: Node) -> None:
        if isinstance(tg, ast.Name):
            env[tg.id] = v if v is not None else ast.Name(id=f"{_OPAQUE}{tg.id}_L{n.lineno}", ctx=ast.Load())
        elif isinstance(tg, (ast.Tuple, ast.List)):
            if isinstance(v, (ast.Tuple, ast.List)) and len(v.elts) == len(tg.elts) and not any(isinstance(x, ast.Starred) for x in [*v.elts, *tg.elts]):
                for t_, v_ in zip(tg.elts, v.elts):
                    self._bind(env, t_, v_, n)
            elif v is not None and not is_opaque(v) and not any(isinstance(x, ast.Starred) for x in tg.elts) and isinstance(v, (ast.Name, ast.Attribute, ast.Subscript)):
                # `part, state = entry`: the i-th target is entry[i]
                for i, t_ in enumerate(tg.elts):
                    self._bind(env, t_, ast.Subscript(value=reparse(v), slice=ast.Constant(value=i), ctx=ast.Load()), n)
            else:
                for nm in _assigned_names([tg]):
                    env[nm] = ast.Name(id=f"{_OPAQUE}{nm}_L{n.lineno}", ctx=ast.Load())


# ----------------------------------------------------------------------
# which states does a traversal feed itself with


Val = t.FrozenSet[t.Any]  # shapes: "S" static successor, "D" dynamic successor, "P" part, "K" key, "X" the state itself,
#                           "root", "?", ("iter", Val), ("tuple", (Val, ...))
_ORDER_FREE_WRAPPERS = ("list", "tuple", "iter", "reversed", "sorted", "set", "frozenset", "deque", "collections.deque")
_CHAINS = ("chain", "itertools.chain")
UNKNOWN: Val = frozenset(["?"])


class StateFlow:
    def __init__(self, state_var: str, part_index: int, width: int, root_of: t.Callable[[ast.AST], bool], scope: ast.AST | None = None):
        self.x = state_var
        self.idx = part_index
        self.width = width
        self.root_of = root_of
        self.scope = scope  # the function whose plain local assignments may be looked through
        self._busy: set[str] = set()

    def elems(self, v: Val) -> Val:
        out: set[t.Any] = set()
        for s in v:
            if isinstance(s, tuple) and s[0] == "iter":
                out |= s[1]
            else:
                out.add("?")
        return frozenset(out)

    def _dyn_entry(self) -> t.Any:
        return ("tuple", tuple(frozenset(["P"]) if i == self.idx else frozenset(["D"]) for i in range(self.width)))

    def bind(self, env: dict[str, Val], tg: ast.AST, v: Val) -> None:
        if isinstance(tg, ast.Name):
            env[tg.id] = v
        elif isinstance(tg, (ast.Tuple, ast.List)):
            for i, e in enumerate(tg.elts):
                parts: set[t.Any] = set()
                for s in v:
                    if isinstance(s, tuple) and s[0] == "tuple" and len(s[1]) == len(tg.elts):
                        parts |= s[1][i]
                    else:
                        parts.add("?")
                self.bind(env, e, frozenset(parts))

    def ev(self, e: ast.AST, env: dict[str, Val]) -> Val:
        x = self.x
        if self.root_of(e):
            return frozenset(["root"])
        if isinstance(e, ast.Name):
            if e.id == x:
                return frozenset(["X"])
            if e.id in env:
                return env[e.id]
            if self.scope is not None and e.id not in self._busy:
                # a local that holds an expression over the state (`children = [*state.static.values(), ...]`)
                vals = [v for st, v in astq.assigns_to(self.scope, e.id)]
                if vals and all(v is not None for v in vals):
                    self._busy.add(e.id)
                    try:
                        acc: set[t.Any] = set()
                        for v in vals:
                            acc |= self.ev(v, env)  # type: ignore[arg-type]
                        return frozenset(acc)
                    finally:
                        self._busy.discard(e.id)
            return UNKNOWN
        txt = norm(e)
        if txt == f"{x}.static.values()":
            return frozenset([("iter", frozenset(["S"]))])
        if txt == f"{x}.static.items()":
            return frozenset([("iter", frozenset([("tuple", (frozenset(["K"]), frozenset(["S"])))]))])
        if txt in (f"{x}.static", f"{x}.static.keys()"):
            return frozenset([("iter", frozenset(["K"]))])
        if txt == f"{x}.dynamic":
            return frozenset([("iter", frozenset([self._dyn_entry()]))])
        if isinstance(e, ast.Subscript):
            if norm(e.value) == f"{x}.static":
                return frozenset(["S"])
            base = self.ev(e.value, env)
            if isinstance(e.slice, ast.Constant) and isinstance(e.slice.value, int):
                out: set[t.Any] = set()
                for s in base:
                    if isinstance(s, tuple) and s[0] == "tuple" and -len(s[1]) <= e.slice.value < len(s[1]):
                        out |= s[1][e.slice.value]
                    elif isinstance(s, tuple) and s[0] == "iter":
                        out |= s[1]
                    else:
                        out.add("?")
                return frozenset(out)
            return UNKNOWN
        if isinstance(e, ast.Call):
            d = dotted(e.func) or ""
            if isinstance(e.func, ast.Attribute) and e.func.attr == "get" and norm(e.func.value) == f"{x}.static":
                return frozenset(["S"])
            if d in _ORDER_FREE_WRAPPERS and len(e.args) >= 1:
                return frozenset([("iter", self.elems(self.ev(e.args[0], env)))])
            if d in _CHAINS:
                acc: set[t.Any] = set()
                for a in e.args:
                    acc |= self.elems(self.ev(a, env))
                return frozenset([("iter", frozenset(acc))])
            return UNKNOWN
        if isinstance(e, (ast.List, ast.Tuple, ast.Set)):
            if isinstance(e, ast.Tuple) and not any(isinstance(a, ast.Starred) for a in e.elts):
                tup = ("tuple", tuple(self.ev(a, env) for a in e.elts))
                acc2: set[t.Any] = set()
                for a in e.elts:
                    acc2 |= self.ev(a, env)
                return frozenset([tup, ("iter", frozenset(acc2))])
            acc3: set[t.Any] = set()
            for a in e.elts:
                if isinstance(a, ast.Starred):
                    acc3 |= self.elems(self.ev(a.value, env))
                else:
                    acc3 |= self.ev(a, env)
            return frozenset([("iter", frozenset(acc3))])
        if isinstance(e, ast.BinOp) and isinstance(e.op, ast.Add):
            return frozenset([("iter", self.elems(self.ev(e.left, env)) | self.elems(self.ev(e.right, env)))])
        if isinstance(e, (ast.GeneratorExp, ast.ListComp, ast.SetComp)):
            env2 = dict(env)
            for g in e.generators:
                if g.ifs:
                    return UNKNOWN  # a filter may drop states
                self.bind(env2, g.target, self.elems(self.ev(g.iter, env2)))
            return frozenset([("iter", self.ev(e.elt, env2))])
        if isinstance(e, ast.Starred):
            return self.ev(e.value, env)
        return UNKNOWN

    def env_at(self, node: ast.AST, stop: ast.AST) -> dict[str, Val]:
        """bindings made by the for loops / comprehensions that enclose node (inside stop)."""
        chain: list[ast.AST] = []
        cur = astq.parent(node)
        child = node
        while cur is not None and cur is not stop:
            if isinstance(cur, (ast.For, ast.AsyncFor)) and (child in cur.body or any(child is s for s in cur.body)):
                chain.append(cur)
            elif isinstance(cur, (ast.GeneratorExp, ast.ListComp, ast.SetComp)):
                chain.append(cur)
            child = cur
            cur = astq.parent(cur)
        env: dict[str, Val] = {}
        for c in reversed(chain):
            if isinstance(c, (ast.For, ast.AsyncFor)):
                self.bind(env, c.target, self.elems(self.ev(c.iter, env)))
            else:
                for g in c.generators:  # type: ignore[union-attr]
                    self.bind(env, g.target, self.elems(self.ev(g.iter, env)) if not g.ifs else UNKNOWN)
        return env


def flat(v: Val) -> set[str]:
    """the plain tags in a value (what a single state expression may be)."""
    return {s for s in v if isinstance(s, str)}
