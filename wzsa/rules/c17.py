"""C17 - content negotiation picks a best-quality, most-specific offer (structural clauses).

R17.1 the q filter of http.parse_accept_header, R17.2 the selection loop of Accept.best_match and the staged
fallbacks of LanguageAccept.best_match, R17.3 the order of the list (sort key, stability, first-match lookups,
specificity), R17.4 wildcard acceptance and normaliser agreement of every _value_matches.

Two layers: shape-based clauses (CFG dominance, reaching definitions, scenario evaluation of branch conditions) that
give precise evidence on the usual spelling, and - for Accept.best_match, the first-match lookups and the sort in
__init__ - a bounded exhaustive run of the function's statements on small inputs (`_arbitrate`), which decides
whenever the shape-based clauses cannot be applied or do not hold.  For Accept.best_match the run on all offer lists of
up to three offers is an obligation of its own whenever the function can be followed (the shape-based scenarios test one
step of the loop against an accurate best-so-far state; a branch that replaces the choice but leaves part of that
state behind only shows on a sequence).  CharsetAccept._value_matches is followed with codecs.lookup answered by the
scenario on both of its outcomes (codec found / LookupError).
"""

from __future__ import annotations

import ast
import typing as t

from .. import astq
from ..cfg import Node, cfg_of
from ..fold import Folder, Unfoldable
from ..loader import AnalysisError, AnchorMissing, ClassInfo, FuncInfo, Repo, dotted, nested_funcs, norm, walk_no_nested
from ..report import Ctx
from ._c17_helpers import UNK, Ev, FuncEval, Lang, Obj, Raised, crosscheck, fold_regex_expr, normalised, self_call, sole_method

LEVEL_TEXT = (
    "Static decision of structural clauses of C17 on /repo's current source. Every clause is decided on what the code "
    "computes, not on how it is spelled: statement-level conditional expressions are read as if statements; a name bound "
    "on several branches (a flag set by if/else, a default a branch overrides, `x |= ...`) has, in a scenario, the value "
    "of the binding that is live on the paths the scenario permits; helpers of the same module, methods nobody overrides "
    "(plain, static and class methods; reached through self, the class name, type(self) / self.__class__, or a local name that holds the method), "
    "local lambdas and nested functions are followed on the scenario's values; `with contextlib.suppress(<classes>)` continues after the block "
    "when a statement in it raises a covered exception (any other context manager is not followed); records of a typing.NamedTuple class of the module, "
    "operator.itemgetter / attrgetter keys, starred unpacking, `a, b = map(f, (x, y))` and unpacking a non-iterable (TypeError, taken to the handler "
    "that covers it) are evaluated as Python does. (R17.1) In http.parse_accept_header every "
    "quality that reaches the (item, q) pair appended to the result - written at the append, built into a local before it, "
    "returned by an item helper of the same module whose None result the loop skips, or yielded by a generator nested in the "
    "function whose items are collected in order (list() / tuple() / [*g()] handed to the class or bound to the returned "
    "local, extend / += on the empty list; a later insert / sort / reverse of that list fails R17.3); followed back through plain copies "
    "and, one level, through a helper that computes it (returning the quality, a (flag, quality) pair that the caller "
    "unpacks, or raising an exception that a handler around the call turns into a skip) - is either a constant in [0,1] "
    "(1 when the q parameter is absent) or float() of a text that a dominating test outcome implies the pattern accepted "
    "(the match result tested directly, through `is None` / `not` / bool(), through a local or a flag set on the branches of "
    "the test, in a predicate helper, on the argument passed to the converting helper; the text itself or the whole match "
    "`m.group()`; where no single test outcome dominates the conversion, every entry path that the conditions permit - a "
    "condition over the same live bindings, or a flag standing for it, keeps the outcome it had earlier on the path - must "
    "have passed such an outcome on the very binding that is converted); from the failing outcome of that test the item is "
    "never handed on (no quality is made up for a "
    "malformed q); the pattern's language (DFA built from the folded "
    "regex, cross-checked against the re engine) contains only plain ASCII decimal numerals, contains every RFC 9110 "
    "qvalue with a fraction, and for each of the value ranges q<0, q=0, 0<q<1, q=1, q>1 that the language inhabits the "
    "branch conditions between the conversion and the append (evaluated at one sample per range, exact for comparisons "
    "of q with constants; across the helper's return and the caller's test of it) drop the item exactly when it is "
    "outside [0,1], by skipping it rather than raising or substituting a quality; a text the helper rejects never reaches "
    "the append. (R17.2) In Accept.best_match the chosen "
    "offer is replaced, on every path of the loop body, exactly when a client range matched, its quality is > 0 and "
    "(quality > best quality, or quality == best quality and specificity > best specificity): decided by evaluating the "
    "loop's branch conditions for all 18 order scenarios (q = 0 | q > 0) x (q vs best q) x (specificity vs best), plus the "
    "first-candidate scenarios with the initial state; the best-so-far state is updated together with the choice; "
    "offers are visited in caller order; after the loop the default is returned while nothing was chosen and the choice "
    "otherwise. Those scenarios test one step of the loop against an accurate best-so-far state; in addition (always, when "
    "the function can be followed; as the only verdict when best_match is not one loop with best-so-far state - candidates "
    "collected then ranked by max() / a stable sort / a second scan, ... - or a clause of that shape cannot be decided or "
    "does not hold) the function is "
    "followed statement by statement on all 1000 lists of three offers (and the shorter ones), each offer unmatched or matched "
    "with quality 0 / low / high and specificity low / middle / high, and must return the documented choice (first offer, "
    "in caller order, with q > 0 whose (quality, specificity) no later offer exceeds; the default when there is none): "
    "a branch that replaces the choice but leaves part of the remembered (quality, specificity) behind - a stale standard "
    "that a later, less specific offer of the same quality then beats - fails on a list of three. LanguageAccept.best_match, run statement by statement on sample client lists and offer lists (2- and "
    "3-letter primary tags, '-' and '_' separators, offers sharing a primary tag) with every negotiation it starts answered "
    "by the scenario, negotiates in exactly the three documented stages (own ranges on the offers; an Accept of the ranges' "
    "primary tags with the client's q kept, on the offers; own ranges on the offers' primary tags), returns a stage's offer "
    "as soon as one is found, maps a negotiated primary tag back to the first offer carrying exactly that tag, and returns "
    "the default otherwise. (R17.3) Accept.__init__ stores the result of "
    "one stable sort (sorted() or list.sort() of a fresh list) whose effective order is specificity (major), quality (minor), ties in client order "
    "(otherwise decided by following __init__ on all 120 arrangements of five sample pairs: what reaches the list constructor "
    "must be those pairs in that order); "
    "_best_single_match / quality return the first range in list order whose _value_matches(offer, range) holds "
    "(return inside the scan, search loop with break, or next() over a generator; otherwise decided by following the "
    "function on three ranges for each of the 8 subsets of them that match); "
    "every _specificity ranks wildcards below concrete values (ladder */* < type/* < type/subtype < type/subtype;param, "
    "'*' < concrete) and orders range shapes by inclusion of what they match: per Accept class the set of concrete offers "
    "matched by each range shape - {*/*, type/*, type/subtype} x {no, one, two parameters} for media ranges; '*', a concrete "
    "value and (languages) a region tag for the other families - is computed by following the class's own _value_matches over "
    "a family of offers (a cell that cannot be evaluated from the source, e.g. behind codecs.lookup, takes the documented "
    "matching), and whenever a shape r1 matches a non-empty strict subset of what r2 matches, _specificity(r1) > "
    "_specificity(r2) strictly (never a tie: the sort and the first-match exit would let r2's q shadow r1's). Pairs checked "
    "on today's tree: type/subtype[;p[;p]] above type/*[;p[;p]] and above */*[;p[;p]], type/*[;p[;p]] above */*[;p[;p]] "
    "(27 media-range pairs, parameters on either side in every combination, e.g. text/html above text/*;format=flowed), "
    "concrete above '*' for Accept, LanguageAccept ('en', 'en-US') and CharsetAccept; shapes that match the same or disjoint "
    "sets of offers (text/* vs text/*;p, text/html vs text/html;level=1 beyond the ladder, en vs en-US) are not ordered by "
    "this clause; parse_accept_header only appends. (R17.4) every "
    "_value_matches accepts the wildcard range(s) of its family and compares both operands under the same normaliser "
    "(scenario tables per family, each scenario followed statement by statement through the method and the helpers it "
    "calls; equality comparisons with locals expanded, also inside a helper that receives offer and range); "
    "CharsetAccept._value_matches is followed on 12 label pairs with every codecs.lookup call answered by the scenario on "
    "both of its outcomes - a codec is found (one canonical name for every spelling and alias of the label) or LookupError "
    "(the label is unknown to the registry), the exception taken to the handler or contextlib.suppress block that covers it - and must match labels "
    "that differ only in case or are aliases of one codec, on the found path and on the handler's path alike (charset "
    "names are case-insensitive whether or not Python ships a codec), and must not match different charsets. NOT decided: "
    "optimality of the negotiated offer over all headers and offer lists as "
    "a whole (it follows from these clauses together with list immutability, C08 R8.1, which is not re-checked here), "
    "the charset alias table of the codecs module, and media-range parameter semantics beyond the scenario table (which includes: equal parameters match in any order, a differing parameter value does not)."
)
TRUSTED = [
    "CPython ast and re._parser (pattern syntax trees); the re engine run on folded patterns against constant sample strings",
    "Python semantics of sorted(..., reverse=True): stable, equal keys keep input order",
    "float() of an ASCII decimal numeral [+-]?(D+(.D*)?|.D+) returns its rounded decimal value and never raises",
    "RFC 9110 section 12.4.2 qvalue grammar embedded as a constant",
    "documented behaviour of codecs.lookup: case-insensitive, one canonical .name per codec whatever alias was asked for, LookupError for an unknown label (answered by a table of sample labels, never called)",
    "builtin exception hierarchy (which `except` clause covers LookupError)",
]
ASSUMPTIONS = [
    "Accept lists are not reordered after construction (ImmutableList, property C08)",
    "scenario samples stand for order classes: branch conditions in the analysed loops are order comparisons between the scenario's quantities (anything else is treated as unknown and keeps both branches)",
    "helpers are followed when they are functions of the same module called by their bare name, or methods that no class of the Accept hierarchy overrides; their statements are interpreted on the scenario's constants (str / list / dict / re operations on folded patterns), never imported or run",
    "following a function statement by statement means interpreting its syntax tree on sample values (assignments, branches, loops, comprehensions, sorted/max/min with key functions, list mutations); a statement outside that subset (try blocks around anything but a call whose outcome - value or exception - the scenario fixes, attribute stores other than on self, unknown calls with effects) makes the function not followable, and the shape-based verdict (or ANALYSIS-ERROR) stands",
    "Accept.best_match is judged on offer lists of up to three offers over three quality and three specificity levels: a selection written with order comparisons of (quality, specificity) that is wrong is wrong on one of them",
    "LanguageAccept.best_match is judged on sample lists: tags are split at the first '-' or '_' (the documented primary-tag fallback); the samples cover 2/3-letter tags, both separators and offers that share a primary tag",
    "offers passed by the application are concrete values (no wildcards)",
]

# value classes of plain decimal numerals (re.ASCII)
REF_PAT = r"[+-]?(\d+(\.\d*)?|\.\d+)"
RFCQ_PAT = r"0(\.\d{1,3})?|1(\.0{1,3})?"
NEG_PAT = r"-[0-9.]*[1-9][0-9.]*"
ZERO_PAT = r"[+-]?(0+(\.0*)?|\.0+)"
ONE_PAT = r"\+?0*1(\.0*)?"
GT1_PAT = r"\+?0*([2-9]|[1-9]\d)\d*(\.\d*)?|\+?0*1\.\d*[1-9]\d*"

ACCEPT_FQ = "datastructures.accept.Accept"


class _Sent:
    def __init__(self, name: str):
        self.name = name

    def __repr__(self) -> str:
        return f"<{self.name}>"


def _inside(node: ast.AST | None, outer: ast.AST) -> bool:
    cur = node
    while cur is not None:
        if cur is outer:
            return True
        cur = getattr(cur, "_parent", None)
    return False


def _in_order(e: ast.AST | None, name: str) -> bool:
    """e iterates ``name`` in its own order: the name itself, or list()/tuple()/iter() of it, or a full slice."""
    if astq.is_name(e, name):
        return True
    if isinstance(e, ast.Call) and isinstance(e.func, ast.Name) and e.func.id in ("list", "tuple", "iter") and len(e.args) == 1 and not e.keywords:
        return _in_order(e.args[0], name)
    if isinstance(e, ast.Subscript) and isinstance(e.slice, ast.Slice) and e.slice.lower is None and e.slice.upper is None and e.slice.step is None:
        return _in_order(e.value, name)
    return False


def _reordered(e: ast.AST | None, name: str) -> bool:
    """e iterates the elements of ``name`` in another order (reversed / sorted / a stepped slice of it)."""
    if isinstance(e, ast.Call) and isinstance(e.func, ast.Name) and e.func.id in ("reversed", "sorted") and e.args:
        return _in_order(e.args[0], name) or _reordered(e.args[0], name)
    if isinstance(e, ast.Call) and isinstance(e.func, ast.Name) and e.func.id in ("list", "tuple", "iter") and len(e.args) == 1:
        return _reordered(e.args[0], name)
    if isinstance(e, ast.Subscript) and isinstance(e.slice, ast.Slice):
        return _in_order(e.value, name) or _reordered(e.value, name)
    return False


def _num_const(e: ast.AST | None) -> float | int | None:
    if isinstance(e, ast.UnaryOp) and isinstance(e.op, (ast.USub, ast.UAdd)):
        v = _num_const(e.operand)
        if v is None:
            return None
        return -v if isinstance(e.op, ast.USub) else v
    if isinstance(e, ast.Constant) and isinstance(e.value, (int, float)) and not isinstance(e.value, bool):
        return e.value
    return None


def _family(ctx: Ctx) -> tuple[ClassInfo, list[ClassInfo]]:
    accept = ctx.repo.cls(ACCEPT_FQ)
    fam = [accept] + sorted(ctx.repo.subclasses(accept.fq), key=lambda c: c.fq)
    return accept, fam


def _kind(ctx: Ctx, c: ClassInfo) -> str:
    names = [k.name for k in ctx.repo.mro(c)]
    for nm, kind in (("MIMEAccept", "mime"), ("LanguageAccept", "lang"), ("CharsetAccept", "charset")):
        if nm in names:
            return kind
    return "generic"


def run(ctx: Ctx) -> None:
    folder = Folder(ctx.repo)
    ctx.rule("R17.1", "every quality appended by parse_accept_header is 1 (no q parameter) or float() of a text accepted by a dominating pattern test whose language is plain ASCII decimals, and is dropped on every path exactly when outside [0,1]")
    ctx.rule("R17.2", "Accept.best_match replaces its choice exactly when a range matched, quality > 0 and (quality > best, or equal quality and greater specificity); state moves with the choice; LanguageAccept stages its fallbacks through it with q kept")
    ctx.rule("R17.3", "the Accept list is built by one stable sort, specificity major, quality minor, client order on ties; lookups return the first matching range in list order; _specificity ranks wildcards lowest and never ranks a range at or above one whose matched offers are a strict subset of its own")
    ctx.rule("R17.6", "LanguageAccept.best_match never returns an offer that the client refuses: an offer whose most specific matching range (exact match under the class's own normaliser) has q=0 does not come back through a primary-tag fallback stage; judged by following the function on refusal samples with every negotiation it starts answered from the selection clause R17.2")
    ctx.rule("R17.4", "every _value_matches accepts its family's wildcard range(s) and compares offer and range under the same normaliser")
    accept, fam = _family(ctx)
    ctx.floor("R17.1", "Accept classes", len(fam), 4)
    _r171(ctx, folder)
    _r172(ctx, folder, accept, fam)
    _r173(ctx, folder, accept, fam)
    _r174(ctx, folder, accept, fam)


_Q_PATTERNS: dict[int, list] = {}  # patterns R17.1 relied on in this run (kept out of ctx.extra: that goes into the evidence file)


def run_thorough(ctx: Ctx) -> None:
    """deeper cross-check of the q-pattern automaton against the re engine (strings up to length 6)."""
    used = _Q_PATTERNS.get(id(ctx))
    if not used:
        raise AnalysisError("run_thorough: R17.1 recorded no q pattern to cross-check")
    for rx, name, mode in used:
        lang = Lang.from_regex(rx, mode)
        bad = crosscheck(rx, mode, lang, "-+.015e ", 6)
        if bad is not None:
            raise AnalysisError(f"automaton of {name} disagrees with the re engine on {bad!r}")
        ctx.note(f"automaton of {name} agrees with re.{mode} on all strings over '-+.015e ' up to length 6")


# =====================================================================
# R17.1


def _module_helper(fi: FuncInfo, fe: FuncEval, node: Node | None, call: ast.AST | None) -> FuncInfo | None:
    """the private function of fi's own module that ``call`` invokes by its bare name (one level of helper extraction)."""
    if not (isinstance(call, ast.Call) and isinstance(call.func, ast.Name)) or call.keywords or any(isinstance(a, ast.Starred) for a in call.args):
        return None
    if node is not None and fe.rd.reaching(node, call.func.id):
        return None  # a local binding shadows the module-level name
    h = fi.module.functions.get(call.func.id)
    if h is None or h.fq == fi.fq or len(h.params) != len(call.args) or isinstance(h.node, ast.AsyncFunctionDef):
        return None
    if any(isinstance(x, (ast.Yield, ast.YieldFrom)) for x in ast.walk(h.node)):
        return None
    return normalised(h)


class _Fact(t.NamedTuple):
    """<pattern>.<mode>(<subject>) found a match: what an outcome of a test (or a value being truthy) implies."""

    rx: t.Any
    name: str
    mode: str
    subject: ast.AST
    at: Node  # node at which the subject expression is evaluated
    call: ast.AST  # the pattern call itself (its value is the match object)
    fi: FuncInfo  # function the subject expression belongs to


def _same_fact(a: _Fact, b: _Fact) -> bool:
    return a.rx == b.rx and a.mode == b.mode and a.fi is b.fi and norm(a.subject) == norm(b.subject)


def _match_fact(ctx: Ctx, folder: Folder, fi: FuncInfo, fe: FuncEval, e: ast.AST | None, node: Node, want: bool, depth: int = 0) -> _Fact | None:
    """the pattern match that `bool(e) == want` implies (e evaluated at ``node`` of fi), if any.  Decided on meaning:
    `x is None` / `is not None` / `not x` / `bool(x)` / walrus wrappers, a conjunction that holds (a disjunction that
    fails), a local - every binding of it that is compatible with the outcome must imply the same match: a binding to
    an expression through that expression, a binding to a constant (a flag set on the branches of an earlier test)
    through the edges that dominate the binding - and a predicate helper of the same module that returns such a value
    computed from its parameter."""
    if e is None or depth > 6:
        return None
    if isinstance(e, ast.NamedExpr):
        return _match_fact(ctx, folder, fi, fe, e.value, node, want, depth + 1)
    if isinstance(e, ast.UnaryOp) and isinstance(e.op, ast.Not):
        return _match_fact(ctx, folder, fi, fe, e.operand, node, not want, depth + 1)
    if isinstance(e, ast.Compare) and len(e.ops) == 1 and (astq.is_none(e.comparators[0]) or astq.is_none(e.left)):
        x = e.left if astq.is_none(e.comparators[0]) else e.comparators[0]
        if isinstance(e.ops[0], (ast.Is, ast.Eq)):
            return _match_fact(ctx, folder, fi, fe, x, node, True, depth + 1) if not want else None
        if isinstance(e.ops[0], (ast.IsNot, ast.NotEq)):
            return _match_fact(ctx, folder, fi, fe, x, node, True, depth + 1) if want else None
        return None
    if isinstance(e, ast.BoolOp) and (isinstance(e.op, ast.And) if want else isinstance(e.op, ast.Or)):
        for x in e.values:  # all conjuncts hold / all disjuncts fail: any of them may carry the fact
            r = _match_fact(ctx, folder, fi, fe, x, node, want, depth + 1)
            if r is not None:
                return r
        return None
    if isinstance(e, ast.IfExp):
        a, b = (_match_fact(ctx, folder, fi, fe, x, node, want, depth + 1) for x in (e.body, e.orelse))
        ca, cb = (isinstance(x, ast.Constant) and bool(x.value) != want for x in (e.body, e.orelse))
        if cb and not ca:  # `<value> if <test> else <constant the outcome excludes>`
            return a or _match_fact(ctx, folder, fi, fe, e.test, node, True, depth + 1)
        if ca and not cb:
            return b or _match_fact(ctx, folder, fi, fe, e.test, node, False, depth + 1)
        return a if a is not None and b is not None and _same_fact(a, b) else None
    if isinstance(e, ast.Name):
        defs = fe.rd.reaching(node, e.id)
        found: _Fact | None = None
        n_ok = 0
        for d in defs:
            if d.node is None:
                return None
            v = d.value if _plain(d) else FuncEval._literal_elt(d) if d.kind == "unpack" else None
            if v is None:
                return None
            r: _Fact | None = None
            if isinstance(v, ast.Constant):
                if bool(v.value) != want:
                    continue  # this binding cannot produce the outcome
                for tn, lb in fe.cfg.guards(d.node):
                    if tn.kind == "test" and lb in ("T", "F"):
                        r = _match_fact(ctx, folder, fi, fe, tn.ast, tn, lb == "T", depth + 1) or r
            else:
                r = _match_fact(ctx, folder, fi, fe, v, d.node, want, depth + 1)
            if r is None or (found is not None and not _same_fact(found, r)):
                return None
            found = found or r
            n_ok += 1
        return found if n_ok else None
    if not isinstance(e, ast.Call):
        return None
    if astq.is_name(e.func, "bool") and len(e.args) == 1 and not e.keywords:
        return _match_fact(ctx, folder, fi, fe, e.args[0], node, want, depth + 1)
    if isinstance(e.func, ast.Attribute) and e.func.attr in ("fullmatch", "match", "search"):
        if not want or len(e.args) != 1 or e.keywords:
            return None
        r2 = fold_regex_expr(ctx.repo, folder, fi, e.func.value)
        return _Fact(r2[0], r2[1], e.func.attr, e.args[0], node, e, fi) if r2 is not None else None
    h = _module_helper(fi, fe, node, e)
    if h is not None:
        # predicate helper: every value it can return that is compatible with the outcome implies a match on a parameter
        feh = FuncEval(ctx.repo, folder, h)
        found = None
        n_ok = 0
        for r_ in astq.returns_of(h.node):
            rn = feh.cfg.node_of(r_)
            if rn is None or r_.value is None:
                return None
            if isinstance(r_.value, ast.Constant):
                if bool(r_.value.value) != want:
                    continue
                r = None
                for tn, lb in feh.cfg.guards(rn):
                    if tn.kind == "test" and lb in ("T", "F"):
                        r = _match_fact(ctx, folder, h, feh, tn.ast, tn, lb == "T", depth + 1) or r
            else:
                r = _match_fact(ctx, folder, h, feh, r_.value, rn, want, depth + 1)
            if r is None or (found is not None and not _same_fact(found, r)):
                return None
            found = found or r
            n_ok += 1
        if found is None or not n_ok or found.fi is not h:
            return None
        # falling off the end returns None: a falsy outcome that implies nothing
        if not want and any(not isinstance(p.ast, ast.Return) for p, _ in feh.cfg.exit.preds):
            return None
        sub = found.subject
        if not (isinstance(sub, ast.Name) and sub.id in h.params and {d.kind for d in feh.rd.reaching(found.at, sub.id)} == {"param"}):
            return None
        return _Fact(found.rx, found.name, found.mode, e.args[h.params.index(sub.id)], node, e, fi)
    return None


def _copy_free(fe: FuncEval, e: ast.AST, node: Node) -> tuple[str, tuple]:
    """e with locals that are plain copies of another local replaced by it: (text, bindings of the remaining names)."""
    class T(ast.NodeTransformer):
        def __init__(self) -> None:
            self.binds: list[tuple[str, frozenset]] = []

        def visit_Name(self, n: ast.Name) -> ast.AST:
            nm, at = n.id, node
            for _ in range(5):
                ds = fe.rd.reaching(at, nm)
                d = next(iter(ds)) if len(ds) == 1 else None
                if d is None or not _plain(d) or not isinstance(d.value, ast.Name):
                    break
                nm, at = d.value.id, d.node
            self.binds.append((nm, fe.rd.reaching(at, nm)))
            return ast.Name(id=nm, ctx=ast.Load())

    tr = T()
    out = tr.visit(ast.parse(ast.unparse(e), mode="eval").body)
    return norm(out), tuple(sorted(tr.binds, key=lambda x: x[0]))


def _converted_text_matched(fe: FuncEval, fact: _Fact, arg: ast.AST, at: Node) -> bool:
    """the text handed to float() at ``at`` is the text the pattern matched: the same expression over the same bindings
    (plain copies looked through), or the whole match `m.group()` / `m.group(0)` / `m[0]` of that very match object."""
    if _copy_free(fe, fact.subject, fact.at) == _copy_free(fe, arg, at):
        return True
    m: ast.AST | None = None
    if isinstance(arg, ast.Call) and isinstance(arg.func, ast.Attribute) and arg.func.attr == "group" and not arg.keywords and (not arg.args or (len(arg.args) == 1 and _num_const(arg.args[0]) == 0)):
        m = arg.func.value
    elif isinstance(arg, ast.Subscript) and _num_const(arg.slice) == 0:
        m = arg.value
    for _ in range(5):
        if not isinstance(m, ast.Name):
            break
        ds = fe.rd.reaching(at, m.id)
        d = next(iter(ds)) if len(ds) == 1 else None
        if d is None or not _plain(d) or d.node is None:
            return False
        m, at = d.value, d.node
        if isinstance(m, ast.NamedExpr):
            m = m.value
    return m is fact.call


def _versioned(e: ast.AST, cur: dict[str, t.Any], local: set[str]) -> str | None:
    """source text of the pure expression ``e`` in which every local name carries the identity of the binding that is
    live on the path walked - ``cur``: name -> (binding, versioned text of the pure expression it was bound to, if
    any) - so that two occurrences with the same text have the same value; None when ``e`` contains
    something whose value may differ between two evaluations (a call other than a pattern test / isinstance / bool)."""
    class T(ast.NodeTransformer):
        ok = True

        def visit_Name(self, n: ast.Name) -> ast.AST:
            if n.id in local:
                d, vt = cur.get(n.id, (None, None))
                if vt is not None:
                    return ast.parse(vt, mode="eval").body  # a local that stands for a pure expression (a flag)
                return ast.Name(id=f"{n.id}__b{id(d) if d is not None else 0}__", ctx=ast.Load())
            return n

        def visit_NamedExpr(self, n: ast.NamedExpr) -> ast.AST:
            return self.visit(n.value)

        def visit_Call(self, n: ast.Call) -> ast.AST:
            f = n.func
            pure = (isinstance(f, ast.Attribute) and f.attr in ("fullmatch", "match", "search") and dotted(f.value) is not None and dotted(f.value).split(".")[0] not in local) or (
                isinstance(f, ast.Name) and f.id in ("isinstance", "bool") and f.id not in local)
            if not pure or n.keywords:
                self.ok = False
            return self.generic_visit(n)

        def generic_visit(self, n: ast.AST) -> ast.AST:
            if isinstance(n, (ast.Lambda, ast.ListComp, ast.SetComp, ast.DictComp, ast.GeneratorExp, ast.Await, ast.Yield, ast.YieldFrom, ast.Starred)):
                self.ok = False
            return super().generic_visit(n)

    tr = T()
    try:
        out = tr.visit(ast.parse(ast.unparse(e), mode="eval").body)
    except SyntaxError:
        return None
    return norm(out) if tr.ok else None


def _path_guards(ctx: Ctx, folder: Folder, F: FuncInfo, feF: FuncEval, arg: ast.AST, at: Node, limit: int = 20000) -> list[tuple[_Fact, Node, str]] | None:
    """path-sensitive form of "a successful pattern test on the converted text dominates the conversion": the test
    outcomes (fact, test node, label) of which, on EVERY entry path to ``at`` that the conditions on the way permit,
    one was taken on the very text ``arg`` denotes at ``at`` (the same expression over the same live bindings; plain
    copies looked through).  A condition over the same bindings that was decided earlier on the path keeps its outcome
    (`if s is not None: <test s>` ... `q = 1 if s is None else float(s)`); any other condition permits both outcomes, so
    the paths walked are a superset of the real ones.  None when some permitted path arrives without such an outcome."""
    from ..guards import canon

    cfg, rd = feF.cfg, feF.rd
    local = {d.name for ds in rd.gen.values() for d in ds} | {d.name for d in rd.param_defs}
    cands: dict[tuple[int, str], _Fact] = {}
    for tn in cfg.nodes:
        if tn.kind != "test" or tn.ast is None:
            continue
        for lb in ("T", "F"):
            fact = _match_fact(ctx, folder, F, feF, tn.ast, tn, lb == "T")
            if fact is not None and fact.fi is F and fact.at is tn:
                cands[(tn.id, lb)] = fact
    if not cands:
        return None
    used: dict[tuple[int, str], tuple[_Fact, Node, str]] = {}
    start = ({d.name: (d, None) for d in rd.param_defs}, frozenset(), frozenset())
    stack: list[tuple[Node, dict[str, t.Any], frozenset, frozenset]] = [(cfg.entry, *start)]
    seen: set[tuple] = set()
    steps = 0
    while stack:
        n, cur, facts, passed = stack.pop()
        key = (n.id, frozenset((k, id(v[0]), v[1]) for k, v in cur.items()), facts, passed)
        if key in seen:
            continue
        seen.add(key)
        steps += 1
        if steps > limit:
            raise AnalysisError(f"{F.qualname}: too many paths to `{norm(at.ast)}` to decide whether the converted text was tested")  # type: ignore[arg-type]
        if n is at:
            want = _versioned(arg, cur, local)
            hit = [c for c, subj in passed if subj == want] if want is not None else []
            if not hit:
                return None
            for c in hit:
                tn = next(x for x in cfg.nodes if x.id == c[0])
                used[c] = (cands[c], tn, c[1])
            continue
        labels: set[str] | None = None
        new_fact: tuple[str, bool] | None = None
        k0: str | None = None
        if n.kind == "test" and n.ast is not None and not isinstance(n.ast, ast.Constant):
            v = _versioned(n.ast, cur, local)
            if v is not None:
                k0, pos = canon(ast.parse(v, mode="eval").body)
                known = dict(facts).get(k0)
                if known is not None:
                    labels = {"T" if known == pos else "F"}
        # bindings made by the node (a walrus in a test binds before the branch is taken)
        cur2, facts2, passed2 = cur, facts, passed
        for d in rd.gen.get(n.id, []):
            src = d.value.id if _plain(d) and isinstance(d.value, ast.Name) else None
            if src is not None and src in local and src in cur:
                new = cur[src]  # a plain copy shares the binding it copies
            else:
                vt = _versioned(d.value, cur, local) if _plain(d) and isinstance(d.value, (ast.Compare, ast.UnaryOp, ast.BoolOp, ast.Constant)) else None
                new = (d, vt)
                mark = f"__b{id(d)}__"  # executed again (a loop): what was known about its previous value is void
                facts2 = frozenset(x for x in facts2 if mark not in x[0])
                passed2 = frozenset(x for x in passed2 if mark not in (x[1] or ""))
                cur2 = {k: (v if v[1] is None or mark not in v[1] else (v[0], None)) for k, v in cur2.items()}
            cur2 = {**cur2, d.name: new}
        for s, l in n.succs:
            if l in ("T", "F") and n.kind == "test":
                if labels is not None and l not in labels:
                    continue
                f3, p3 = facts2, passed2
                if k0 is not None and labels is None:
                    f3 = f3 | {(k0, (l == "T") == pos)}
                if (n.id, l) in cands:
                    subj = _versioned(cands[(n.id, l)].subject, cur, local)
                    if subj is not None:
                        p3 = p3 | {((n.id, l), subj)}
                stack.append((s, cur2, f3, p3))
            else:
                stack.append((s, cur2, facts2, passed2))
    return list(used.values()) or None


class _Raised:
    """outcome of a helper call: an exception of class ``exc`` (None: not identified) instead of a value."""

    def __init__(self, exc: str | None):
        self.exc = exc

    def __eq__(self, other: object) -> bool:
        return isinstance(other, _Raised) and other.exc == self.exc

    def __hash__(self) -> int:
        return hash(("raised", self.exc))

    def __repr__(self) -> str:
        return f"<raises {self.exc or 'an exception'}>"


def _raised_name(st: ast.AST | None) -> str | None:
    e = st.exc if isinstance(st, ast.Raise) else None
    if isinstance(e, ast.Call):
        e = e.func
    return e.id if isinstance(e, ast.Name) else None


def _handler_covers(typ: ast.AST | None, exc: str | None) -> bool | None:
    """does `except <typ>` catch an exception of builtin class ``exc``: True / False / None (cannot tell)."""
    import builtins

    if typ is None:
        return True
    names = [dotted(x) for x in (typ.elts if isinstance(typ, ast.Tuple) else [typ])]
    if any(nm in ("Exception", "BaseException") for nm in names):
        return True
    ec = getattr(builtins, exc, None) if exc else None
    if not (isinstance(ec, type) and issubclass(ec, BaseException)):
        return None
    verdict: bool | None = False
    for nm in names:
        hc = getattr(builtins, nm, None) if nm else None
        if not (isinstance(hc, type) and issubclass(hc, BaseException)):
            verdict = None
        elif issubclass(ec, hc):
            return True
    return verdict


class _RetSrc:
    """`return float(<text>)` in a quality helper, seen as a conversion whose result is handed straight back."""

    kind = "return"
    index = None
    name = ""

    def __init__(self, node: Node, stmt: ast.Return):
        self.node = node
        self.stmt = stmt
        self.value = stmt.value


class _ArmSrc:
    """one element of `a, q = x, float(<text>)`: the conversion as a definition of its own."""

    kind = "assign"
    index = None

    def __init__(self, d: t.Any, value: ast.AST):
        self.node, self.stmt, self.name, self.value = d.node, d.stmt, d.name, value


def _is_float_call(repo: t.Any, fi: FuncInfo, v: ast.AST | None) -> bool:
    return (isinstance(v, ast.Call) and isinstance(v.func, ast.Name) and v.func.id == "float" and len(v.args) == 1 and not v.keywords
            and repo.resolve(fi.module, "float") == "builtins.float")


def _plain(d: t.Any) -> bool:
    return d.kind in ("assign", "walrus") and d.index is None and d.node is not None


def _alias_names(fe: FuncEval, name: str) -> set[str]:
    """``name`` and the locals that are plain copies of it."""
    names = {name}
    grew = True
    while grew:
        grew = False
        for ds in fe.rd.gen.values():
            for d in ds:
                if _plain(d) and isinstance(d.value, ast.Name) and d.value.id in names and d.name not in names:
                    names.add(d.name)
                    grew = True
    return names


def _cmp_consts(fn: ast.AST, names: set[str]) -> set[float]:
    out: set[float] = set()
    for n in walk_no_nested(fn):
        if isinstance(n, ast.Compare):
            ops = [n.left, *n.comparators]
            if any(isinstance(o, ast.Name) and o.id in names for o in ops):
                for o in ops:
                    c = _num_const(o)
                    if c is not None:
                        out.add(float(c))
    return out


class _Sink(t.NamedTuple):
    """a place where an (item, quality) pair is handed on towards the Accept list."""

    stmt: ast.AST  # the append call / the return statement
    node: Node  # its CFG node: reaching it means the item is kept
    q: ast.AST  # the quality expression of the pair
    qnode: Node  # node at which that expression is evaluated


def _r171(ctx: Ctx, folder: Folder) -> None:
    repo = ctx.repo
    fi = normalised(repo.func("http.parse_accept_header"))
    ctx.saw(fi)
    base = FuncEval(repo, folder, fi)
    cfg, rd = base.cfg, base.rd

    # slot: the list handed to the Accept class, and its growth sites
    lists: set[str] = set()
    for r in astq.returns_of(fi.node):
        v = r.value
        if isinstance(v, ast.Call) and len(v.args) == 1 and isinstance(v.args[0], ast.Name) and not v.keywords:
            lists.add(v.args[0].id)
    appends = [
        c for c in astq.method_calls(fi.node, "append", nested=False)
        if isinstance(c.func, ast.Attribute) and isinstance(c.func.value, ast.Name) and c.func.value.id in lists and len(c.args) == 1 and not c.keywords
    ]
    if not appends and _pairs_from_generator(ctx, folder, fi, base, lists):
        return
    if not appends:
        raise AnalysisError("parse_accept_header: no <list>.append(<pair>) feeding the returned Accept (append slot)")
    loops = {id(l): l for l in (astq.enclosing(a, (ast.For,)) for a in appends) if l is not None}
    if len(loops) != 1:
        raise AnalysisError("parse_accept_header: appends are not inside one item loop")
    loop = next(iter(loops.values()))
    head = cfg.node_of(loop)
    a_nodes = [cfg.node_of(a) for a in appends]
    if head is None or any(n is None for n in a_nodes):
        raise AnalysisError("parse_accept_header: CFG nodes of the loop / append not found")
    a_ids = {n.id for n in a_nodes}  # type: ignore[union-attr]
    ends = {head.id, cfg.exit.id, cfg.raise_exit.id}

    # R17.3 (order part): the list grows only by append, in iteration order
    other = []
    for c in astq.calls(fi.node, nested=False):
        f = c.func
        if isinstance(f, ast.Attribute) and isinstance(f.value, ast.Name) and f.value.id in lists and f.attr in ("insert", "extend", "sort", "reverse", "pop", "remove", "__iadd__", "clear"):
            other.append(c)
    for s in walk_no_nested(fi.node):
        if isinstance(s, ast.AugAssign) and isinstance(s.target, ast.Name) and s.target.id in lists:
            other.append(s)
    ctx.ob("R17.3", "parse_accept_header keeps the client's order: the result list only grows by append", not other,
           f"{len(appends)} append site(s); other mutations of the list: {[norm(o) for o in other]}", fi, other[0] if other else appends[0], "result list append-only")

    # ---- what is appended: a pair written out at the append, a pair built into a local before it, or the result of an
    # item helper of this module that returns the pair (or None for an item to be ignored) ----
    sinks: list[_Sink] = []
    helper_defs: list[tuple[t.Any, list, ast.Call, Node]] = []  # (definition `p = helper(...)`, copies up to the append, append call, its node)
    for a, an in zip(appends, a_nodes):
        assert an is not None
        x = a.args[0]
        if isinstance(x, ast.Tuple) and len(x.elts) == 2:
            sinks.append(_Sink(a, an, x.elts[1], an))
            continue
        if not isinstance(x, ast.Name):
            raise AnalysisError(f"parse_accept_header: appended value `{norm(x)}` is neither an (item, quality) pair nor a local holding one (append slot)")
        for d in sorted(rd.reaching(an, x.id), key=lambda d: getattr(d.stmt, "lineno", 0)):
            chain = [d]
            while _plain(d) and isinstance(d.value, ast.Name) and len(chain) < 6:
                ds = rd.reaching(d.node, d.value.id)
                if len(ds) != 1 or not _plain(next(iter(ds))):
                    break
                d = next(iter(ds))
                chain.append(d)
            v = d.value if _plain(d) else None
            if isinstance(v, ast.Tuple) and len(v.elts) == 2:
                sinks.append(_Sink(a, an, v.elts[1], d.node))
            elif _module_helper(fi, base, d.node, v) is not None:
                helper_defs.append((d, chain, a, an))
            else:
                raise AnalysisError(f"parse_accept_header: cannot interpret `{norm(d.stmt) if d.stmt is not None else d.kind}`, which is appended to the result (expected an (item, quality) pair or an item helper of this module)")
    if helper_defs and sinks:
        raise AnalysisError("parse_accept_header: pairs come both from an item helper and from the loop body (append slot)")
    if not helper_defs:
        _quality_paths(ctx, folder, fi, base, sinks, ends)
        return
    helpers = {_module_helper(fi, base, d.node, d.value).fq: _module_helper(fi, base, d.node, d.value) for d, _c, _a, _n in helper_defs}  # type: ignore[union-attr]
    if len(helpers) != 1:
        raise AnalysisError(f"parse_accept_header: items parsed by several helpers {sorted(helpers)} (append slot)")
    H = next(iter(helpers.values()))
    ctx.saw(H)
    feH = FuncEval(repo, folder, H)
    h_sinks: list[_Sink] = []
    for r in astq.returns_of(H.node):
        rn = feH.cfg.node_of(r)
        assert rn is not None
        if isinstance(r.value, ast.Tuple) and len(r.value.elts) == 2:
            h_sinks.append(_Sink(r, rn, r.value.elts[1], rn))
        elif not (r.value is None or astq.is_none(r.value)):
            raise AnalysisError(f"{H.qualname}: `{norm(r)}` is neither an (item, quality) pair nor None (item helper slot)")
    if not h_sinks:
        raise AnalysisError(f"{H.qualname}: no `return <item>, <quality>` (item helper slot)")
    # the helper decides which items are kept (returning the pair) and with which quality ...
    _quality_paths(ctx, folder, H, feH, h_sinks, {feH.cfg.exit.id, feH.cfg.raise_exit.id})
    # ... and parse_accept_header appends exactly the pairs it returns
    for d, chain, a, an in helper_defs:
        names = {x.name for x in chain}
        for label, value in (("None (item to be ignored)", None), ("an (item, quality) pair", ("<item>", 0.5))):
            fe = FuncEval(repo, folder, fi)
            for x in chain:
                fe.pinned[x] = value
            starts = [s_ for s_, l in d.node.succs if l != "exc"] if d.node.kind == "stmt" else [d.node]
            seen = fe.explore(starts, stop=a_ids | ends)
            seen2 = fe.explore(starts, stop=ends, avoid=a_ids, definite=True)
            blocking = [tn for tn in fe.unknown_tests if astq.names_in(tn.ast) & names]  # type: ignore[arg-type]
            if blocking:
                raise AnalysisError(f"parse_accept_header: cannot evaluate `{norm(blocking[0].ast)}` when {H.qualname} returns {label}")  # type: ignore[arg-type]
            if value is None:
                ctx.ob("R17.1", f"an item for which {H.qualname} returns None is not appended", not (seen & a_ids),
                       f"`{norm(d.stmt)}`: with that result the item {'reaches' if seen & a_ids else 'never reaches'} `{norm(a)}`", fi, d.stmt, "item helper rejection ignored")
            else:
                ok = bool(seen & a_ids) and not (seen2 & ends)
                ctx.ob("R17.1", f"a pair returned by {H.qualname} is always appended", ok,
                       f"`{norm(d.stmt)}`: with a pair the item {'always reaches' if ok else 'can miss'} `{norm(a)}`", fi, d.stmt, "item helper pair appended")


def _pairs_from_generator(ctx: Ctx, folder: Folder, fi: FuncInfo, base: FuncEval, lists: set[str]) -> bool:
    """the (item, quality) pairs are yielded by a generator function nested in parse_accept_header and collected, in
    the order they are yielded, into what the Accept class receives (`cls(list(g()))`, `result = list(g())`,
    `result.extend(g())` on the empty list): R17.1 is then decided on the generator, a `yield` being the place where a
    pair is handed on.  False when the function has no such generator; AnalysisError when it has one that is consumed
    in a way not understood."""
    repo = ctx.repo
    gens = [g for g in walk_no_nested(fi.node) if isinstance(g, ast.FunctionDef) and any(isinstance(y, (ast.Yield, ast.YieldFrom)) for y in walk_no_nested(g))]
    if not gens:
        return False

    def unwrap(x: ast.AST) -> ast.AST:
        """list(g()) / tuple(g()) / [*g()] -> g()  (wrappers that keep every element, in order)."""
        for _ in range(3):
            if isinstance(x, ast.Call) and isinstance(x.func, ast.Name) and x.func.id in ("list", "tuple") and len(x.args) == 1 and not x.keywords and repo.resolve(fi.module, x.func.id) == f"builtins.{x.func.id}":
                x = x.args[0]
            elif isinstance(x, (ast.List, ast.Tuple)) and len(x.elts) == 1 and isinstance(x.elts[0], ast.Starred):
                x = x.elts[0].value
            else:
                break
        return x

    def gen_call(x: ast.AST | None, at: Node | None) -> ast.FunctionDef | None:
        x = unwrap(x) if x is not None else None
        if not (isinstance(x, ast.Call) and isinstance(x.func, ast.Name)) or at is None:
            return None
        ds = base.rd.reaching(at, x.func.id)
        d = next(iter(ds)) if len(ds) == 1 else None
        return d.stmt if d is not None and d.kind == "def" and any(d.stmt is g for g in gens) else None  # type: ignore[return-value]

    feeds: list[tuple[ast.FunctionDef, ast.AST]] = []
    problems: list[str] = []
    for r in astq.returns_of(fi.node):
        v, rn = r.value, base.cfg.node_of(r)
        if not (isinstance(v, ast.Call) and len(v.args) == 1 and not v.keywords) or rn is None:
            continue
        a0 = v.args[0]
        g = gen_call(a0, rn)
        if g is not None:
            feeds.append((g, r))
            continue
        if not isinstance(a0, ast.Name):
            continue
        # the local handed to the class: bound to the collected generator, or the empty list extended by it - and
        # nothing else happens to it
        reach = list(base.rd.reaching(rn, a0.id))
        reach += [d2 for d in reach if d.kind == "aug" and d.node is not None for d2 in base.rd.reaching(d.node, a0.id)]  # `x += ...` keeps what x was bound to
        binds = sorted({id(d): d for d in reach if d.kind != "aug"}.values(), key=lambda d: getattr(d.stmt, "lineno", 0))
        muts = [c for c in astq.calls(fi.node, nested=False) if isinstance(c.func, ast.Attribute) and isinstance(c.func.value, ast.Name) and c.func.value.id == a0.id]
        augs = [s_ for s_ in walk_no_nested(fi.node) if isinstance(s_, ast.AugAssign) and isinstance(s_.target, ast.Name) and s_.target.id == a0.id]
        from_bind = [gen_call(d.value, d.node) for d in binds if _plain(d)]
        if binds and len(from_bind) == len(binds) and all(g_ is not None for g_ in from_bind):
            if muts or augs:
                problems.append(f"`{a0.id}` is changed after it collected the generator: {[norm(x) for x in muts + augs][:2]}")
            feeds += [(g_, d.stmt) for g_, d in zip(from_bind, binds)]  # type: ignore[misc]
            continue
        grown: list[tuple[ast.FunctionDef, ast.AST]] = []
        for c in muts:
            g = gen_call(c.args[0], base.cfg.node_of(c)) if c.func.attr == "extend" and len(c.args) == 1 and not c.keywords else None  # type: ignore[union-attr]
            if g is not None:
                grown.append((g, c))
            elif any(isinstance(x, ast.Name) and any(x.id == g_.name for g_ in gens) for x in ast.walk(c)):
                problems.append(f"`{norm(c)}`")
        for s_ in augs:
            g = gen_call(s_.value, base.cfg.node_of(s_)) if isinstance(s_.op, ast.Add) else None
            if g is not None:
                grown.append((g, s_))
        if grown:
            empty0 = all(_plain(d) and isinstance(d.value, ast.List) and not d.value.elts for d in binds) and len(binds) == 1
            in_loop = any(astq.enclosing(x, (ast.For, ast.While)) is not None for _, x in grown)
            reorder = [c for c in muts if c.func.attr in ("insert", "sort", "reverse", "pop", "remove", "clear")]  # type: ignore[union-attr]
            if reorder:
                ctx.ob("R17.3", "parse_accept_header keeps the client's order: the result list only grows by append", False,
                       f"the pairs yielded by `{grown[0][0].name}` are collected by `{norm(grown[0][1])}`; other mutations of the list: {[norm(o) for o in reorder]}", fi, reorder[0], "result list append-only")
                muts = [c for c in muts if not any(c is o for o in reorder)]
            if not empty0 or len(grown) != 1 or len(muts) + len(augs) != 1 or in_loop:
                problems.append(f"`{a0.id}` does not consist of exactly what the generator yields (other bindings / mutations / a loop around `{norm(grown[0][1])}`)")
            feeds += grown
    if not feeds:
        if any(isinstance(x, ast.Name) and any(x.id == g_.name for g_ in gens) for x in walk_no_nested(fi.node)):
            raise AnalysisError(f"parse_accept_header: cannot see how what the nested generator `{gens[0].name}` yields reaches the returned Accept (append slot)")
        return False
    if problems or len({id(g) for g, _ in feeds}) != 1:
        raise AnalysisError("parse_accept_header: pairs come from a nested generator, but " + (problems[0] if problems else "from more than one"))
    G = feeds[0][0]
    FG = normalised(FuncInfo(fi.module, G, f"{fi.qualname}.{G.name}", fi.cls))
    feG = FuncEval(repo, folder, FG)
    ys = [x for x in walk_no_nested(FG.node) if isinstance(x, (ast.Yield, ast.YieldFrom))]
    sinks: list[_Sink] = []
    for y in ys:
        st = astq.parent(y)
        yn = feG.cfg.node_of(st) if isinstance(st, ast.Expr) else None
        if isinstance(y, ast.YieldFrom) or yn is None:
            raise AnalysisError(f"parse_accept_header: `{norm(y)}` in the pair generator `{G.name}` is not a plain `yield <item>, <quality>` statement (append slot)")
        x = y.value
        if isinstance(x, ast.Tuple) and len(x.elts) == 2:
            sinks.append(_Sink(st, yn, x.elts[1], yn))
            continue
        ds = sorted(feG.rd.reaching(yn, x.id), key=lambda d: getattr(d.stmt, "lineno", 0)) if isinstance(x, ast.Name) else []
        if not ds or not all(_plain(d) and isinstance(d.value, ast.Tuple) and len(d.value.elts) == 2 for d in ds):
            raise AnalysisError(f"parse_accept_header: `{norm(y)}` in the pair generator `{G.name}` does not yield an (item, quality) pair written out there or built into a local (append slot)")
        sinks += [_Sink(st, yn, d.value.elts[1], d.node) for d in ds]
    loops = {id(l): l for l in (astq.enclosing(sk.stmt, (ast.For,)) for sk in sinks) if l is not None}
    if len(loops) != 1 or any(astq.enclosing(sk.stmt, (ast.For,)) is None for sk in sinks):
        raise AnalysisError(f"parse_accept_header: the yields of `{G.name}` are not inside one item loop")
    head = feG.cfg.node_of(next(iter(loops.values())))
    if head is None:
        raise AnalysisError(f"parse_accept_header: CFG node of the loop of `{G.name}` not found")
    ctx.ob("R17.3", "parse_accept_header keeps the client's order: the result list only grows by append", True,
           f"{len(sinks)} yield site(s) in `{G.name}`, collected in order by `{norm(feeds[0][1])}`", fi, feeds[0][1], "result list append-only")
    _quality_paths(ctx, folder, FG, feG, sinks, {head.id, feG.cfg.exit.id, feG.cfg.raise_exit.id})
    return True


def _quality_paths(ctx: Ctx, folder: Folder, fi: FuncInfo, base: FuncEval, sinks: list[_Sink], ends: set[int]) -> None:
    """R17.1 for the function ``fi`` that decides, per item, whether an (item, quality) pair is handed on (``sinks``) or
    the item is dropped (``ends`` reached without passing a sink): parse_accept_header itself, or its item helper."""
    repo = ctx.repo
    cfg, rd = base.cfg, base.rd
    a_ids = {sk.node.id for sk in sinks}
    here = fi.qualname

    # ---- where the quality of a pair comes from: reaching definitions, plain copies followed back to their origin ----
    origins: list[tuple[t.Any, list]] = []  # (origin Def, chain of Defs from the pair's quality name back to it)
    literal: list[tuple[_Sink, float | int]] = []
    for sk in sinks:
        qe = sk.q
        if _num_const(qe) is not None:
            literal.append((sk, _num_const(qe)))  # type: ignore[arg-type]
            continue
        if not isinstance(qe, ast.Name):
            raise AnalysisError(f"{here}: quality `{norm(qe)}` of the pair is not a local name (quality slot)")
        defs = rd.reaching(sk.qnode, qe.id)
        if not defs:
            raise AnalysisError(f"{here}: no definition of `{qe.id}` reaches the pair")
        work = [[d] for d in sorted(defs, key=lambda d: getattr(d.stmt, "lineno", 0))]
        while work:
            chain = work.pop(0)
            d = chain[-1]
            if _plain(d) and isinstance(d.value, ast.Name) and len(chain) < 6:
                # a plain copy: every binding of the copied name that reaches it is followed
                ds = [x for x in sorted(rd.reaching(d.node, d.value.id), key=lambda x: getattr(x.stmt, "lineno", 0)) if not any(x is y for y in chain)]
                if ds and all(x.node is not None for x in ds):
                    work[:0] = [chain + [x] for x in ds]
                    continue
            known = next((o for o in origins if o[0] is d), None)
            if known is None:
                origins.append((d, chain))
            else:
                known[1].extend(x for x in chain if not any(x is y for y in known[1]))
    carried = {x.name for _, ch in origins for x in ch}  # names that carry a quality towards the append
    all_q_defs = [d for ds in rd.gen.values() for d in ds if d.name in carried]

    rejected: dict[str, list[Node]] = {}  # quality helper -> nodes that follow the failing outcome of its pattern test
    raised: list[bool] = [False]  # side result of kept()/outcome(): the scenario forces an exception (instead of skipping the item)

    def unpacked(d: t.Any) -> bool:
        """d binds one component of a call result (`flag, q = helper(...)`)."""
        return d.kind == "unpack" and FuncEval._literal_elt(d) is None and d.index is not None

    def component(d0: t.Any, value: t.Any) -> t.Any:
        """the quality inside what the origin's expression evaluates to."""
        if not unpacked(d0):
            return value
        return FuncEval._index(value, d0) if isinstance(value, (tuple, list)) else UNK

    def kept(chain: list, value: t.Any, item: bool = False) -> tuple[bool, bool, list[Node]]:
        """(may reach the append, is forced to end the iteration without it, undecided tests that mention the quality)
        when the expression bound by the origin of ``chain`` evaluates to ``value`` (every copy holds the quality in it;
        the other names bound by the same unpacking hold their components).  Paths on which the quality is bound anew
        are left out, unless ``item``: then the question is whether the item is appended at all, with whatever quality
        (a text that must be ignored and is appended under a substituted quality is not ignored)."""
        fe = FuncEval(repo, folder, fi)
        d0 = chain[-1]
        names = {x.name for x in chain}
        if unpacked(d0):
            if not isinstance(value, (tuple, list)):
                raise AnalysisError(f"{here}: `{norm(d0.stmt)}` cannot unpack {value!r}")
            for d in rd.gen.get(d0.node.id, []):
                if d.kind == "unpack" and d.stmt is d0.stmt and d.index is not None:
                    fe.pinned[d] = FuncEval._index(value, d)
                    names.add(d.name)
        for x in chain:
            fe.pinned[x] = component(d0, value)
        avoid = set() if item else {o.node.id for o in all_q_defs if not any(o is x for x in chain) and o.node is not None}
        # the binding happened: the statement did not raise
        starts = [s_ for s_, l in d0.node.succs if l != "exc"] if d0.node.kind == "stmt" else [d0.node]
        seen = fe.explore(starts, stop=a_ids | ends, avoid=avoid)
        may_reach = bool(seen & a_ids)
        # a drop is reported only when the scenario forces it (every test on the way is decided by the value of q):
        # an undecided test on the way (e.g. the validity of the q text, on the way from a default) is someone else's reason
        seen2 = fe.explore(starts, stop=ends, avoid=avoid | a_ids, definite=True)
        must_skip = bool(seen2 & ends)
        raised[0] = cfg.raise_exit.id in seen2
        blocking = [tn for tn in fe.unknown_tests if astq.names_in(tn.ast) & names]  # type: ignore[arg-type]
        return may_reach, must_skip, blocking

    def after_raise(d0: t.Any, exc: str | None) -> tuple[bool, bool]:
        """the expression bound by d0 raises ``exc`` instead of yielding a value: (the exception escapes
        parse_accept_header, the item can still reach the append) - through the handlers around the statement."""
        for h, l in sorted(d0.node.succs, key=lambda x: x[0].id):
            if l != "exc" or h.kind != "handler":
                continue
            cov = _handler_covers(h.ast.type, exc)  # type: ignore[union-attr]
            if cov is None:
                raise AnalysisError(f"{here}: cannot tell whether `except {norm(h.ast.type)}` catches {exc or 'the exception'} raised by `{norm(d0.stmt)}`")  # type: ignore[union-attr]
            if cov:
                fe = FuncEval(repo, folder, fi)
                seen = fe.explore([h], stop=a_ids | ends)
                seen2 = fe.explore([h], stop=a_ids | ends, definite=True)
                return cfg.raise_exit.id in seen2, bool(seen & a_ids)
        return True, False

    def through_helper(H: FuncInfo, dH: t.Any, value: float, definite: bool) -> tuple[list[t.Any], list[Node]]:
        """what helper H hands back once its conversion dH produced ``value``: returned values (_Raised for a raise)."""
        if isinstance(dH, _RetSrc):
            return [value], []
        feH = FuncEval(repo, folder, H)
        feH.pinned[dH] = value
        avoid = {o.node.id for ds in feH.rd.gen.values() for o in ds if o.name == dH.name and o is not dH and o.node is not None}
        starts = [s_ for s_, l in dH.node.succs if l != "exc"] if dH.node.kind == "stmt" else [dH.node]
        seen = feH.explore(starts, avoid=avoid, definite=definite)
        vals: list[t.Any] = []
        named = False
        for n in feH.cfg.nodes:
            if n.id in seen and n.kind == "stmt" and isinstance(n.ast, ast.Return):
                vals.append(feH.ev_at(n).val(n.ast.value) if n.ast.value is not None else None)
            if n.id in seen and n.kind == "stmt" and isinstance(n.ast, ast.Raise) and (n.id, feH.cfg.raise_exit.id) in feH.edges:
                vals.append(_Raised(_raised_name(n.ast)))
                named = True
        if any((p.id, feH.cfg.exit.id) in feH.edges and not isinstance(p.ast, ast.Return) for p, _ in feH.cfg.exit.preds):
            vals.append(None)
        if feH.cfg.raise_exit.id in seen and not named:
            vals.append(_Raised(None))
        names = _alias_names(feH, dH.name)
        return vals, [tn for tn in feH.unknown_tests if astq.names_in(tn.ast) & names]  # type: ignore[arg-type]

    def same(v: t.Any, w: t.Any) -> bool:
        return v is w or (type(v) is type(w) and v is not UNK and v == w)

    def outcome(chain: list, value: float, via: tuple[FuncInfo, t.Any] | None, item: bool = False) -> tuple[bool, bool, list[Node]]:
        if via is None:
            return kept(chain, value, item)
        H, dH = via
        may_vals, blk = through_helper(H, dH, value, False)
        if blk:
            return False, False, blk
        if any(v is UNK or (isinstance(v, (tuple, list)) and any(x is UNK for x in v)) for v in may_vals):
            raise AnalysisError(f"{here}: cannot evaluate what {H.qualname} returns for q={value:g}")
        def_vals, _ = through_helper(H, dH, value, True)
        may_reach = must_skip = any_raise = False
        blocking: list[Node] = []
        seen_vals: list[t.Any] = []
        for v in may_vals:
            if any(same(v, s_) for s_ in seen_vals):
                continue
            seen_vals.append(v)
            forced = any(same(v, s_) for s_ in def_vals)
            if isinstance(v, _Raised):
                escapes, mr = after_raise(chain[-1], v.exc)
                may_reach = may_reach or mr
                if forced:
                    must_skip = True
                    any_raise = any_raise or escapes
                continue
            mr, ms, bl = kept(chain, v, item)
            may_reach = may_reach or mr
            blocking += bl
            if forced:
                must_skip = must_skip or ms
                any_raise = any_raise or raised[0]
        raised[0] = any_raise
        return may_reach, must_skip, blocking

    def judge(chain: list, value: float, label: str, inhabited: bool, witness: str | None, src: str, sk: str, via: tuple[FuncInfo, t.Any] | None = None, whole: t.Any = None) -> None:
        """``whole``: what the origin's expression evaluates to when that is more than the quality (an unpacked tuple)."""
        keep = 0 <= value <= 1
        at = chain[-1].stmt
        if not inhabited:
            ctx.ob("R17.1", f"{src}: {label}", True, "no text accepted by the pattern has a value in this range", fi, at, f"q {sk} range {label}")
            return
        item = not keep and sk == "float"  # a value read from the header that must be ignored: no quality may stand in for it
        may_reach, may_skip, blocking = outcome(chain, value, via, item) if whole is None else kept(chain, whole, item)
        ok = (may_reach and not may_skip) if keep else (not may_reach and not raised[0])
        if blocking:
            raise AnalysisError(f"{here}: cannot evaluate `{norm(blocking[0].ast)}` for q={value}")  # type: ignore[arg-type]
        eg = f"the pattern lets e.g. q={witness} through; " if witness is not None else ""
        if keep:
            fact = f"{eg}evaluated at q={value:g}: item {'is always appended' if ok else 'can be dropped' if may_reach else 'is never appended'}"
        else:
            fact = f"{eg}evaluated at q={value:g}: item {'is never appended' if ok else 'reaches result.append' if may_reach else 'is not skipped: an exception is raised, the whole header is lost'}"
        ctx.ob("R17.1", f"{src}: {label} -> {'kept' if keep else 'ignored'}", ok, fact, fi, at, f"q {sk} range {label}")

    def label_of(v: float) -> str:
        return "q < 0" if v < 0 else "q = 0" if v == 0 else "0 < q < 1" if v < 1 else "q = 1" if v == 1 else "q > 1"

    REF = Lang.from_pattern(REF_PAT)
    regions = {
        "q < 0": Lang.from_pattern(NEG_PAT), "q = 0": Lang.from_pattern(ZERO_PAT), "q = 1": Lang.from_pattern(ONE_PAT), "q > 1": Lang.from_pattern(GT1_PAT),
    }
    mid = REF
    for rg in regions.values():
        mid = mid - rg
    regions["0 < q < 1"] = mid
    RFCQ = Lang.from_pattern(RFCQ_PAT)
    count = {"float": 0, "const": 0, "samples": 0, "guarded": 0}

    def constant_source(chain: list, c: float | int, shown: str, how_nodes: list[tuple[Node, str]], whole: t.Any = None) -> None:
        count["const"] += 1
        judge(chain, float(c), label_of(float(c)), True, None, f"constant {c:g}", f"constant {c:g}", None, whole)
        # a constant cannot come from the header text: it is the quality of an item that carries no q parameter
        how = [f"`{norm(tn.ast)}` is {'true' if lb == 'T' else 'false'}" for tn, lb in how_nodes if tn.kind == "test" and tn.ast is not None]
        if kept(chain, float(c) if whole is None else whole)[0]:
            ctx.ob("R17.1", "an item without a q parameter has quality 1", c == 1, f"`{shown}` (reached when {' and '.join(how) or 'always'})", fi, chain[-1].stmt, "default quality")
        else:
            ctx.ob("R17.1", f"the constant {c:g} is a marker: no pair carries it", True, f"`{shown}`: with that value the item is never handed on", fi, chain[-1].stmt, f"constant {c:g} marker")

    def float_source(F: FuncInfo, feF: FuncEval, dF: t.Any, chain: list, via: tuple[FuncInfo, t.Any] | None) -> None:
        """dF: `x = float(<text>)` in F (parse_accept_header itself, or the helper that computes the quality)."""
        count["float"] += 1
        v = dF.value
        arg = v.args[0]
        src = f"float({norm(arg)})"
        found = None
        for tn, lb in feF.cfg.guards(dF.node):
            if tn.kind != "test" or lb not in ("T", "F"):
                continue
            fact = _match_fact(ctx, folder, F, feF, tn.ast, tn, lb == "T")
            if fact is not None and fact.fi is F and _converted_text_matched(feF, fact, arg, dF.node):
                found = (fact.rx, fact.name, fact.mode, tn, lb, F)
        if found is None and F is not fi and isinstance(arg, ast.Name) and arg.id in F.params and {d.kind for d in feF.rd.reaching(dF.node, arg.id)} == {"param"}:
            # the text is the helper's parameter, untouched: the test may sit in parse_accept_header, on the argument it passes
            d0 = chain[-1]
            passed = d0.value.args[F.params.index(arg.id)]
            for tn, lb in cfg.guards(d0.node):
                if tn.kind != "test" or lb not in ("T", "F"):
                    continue
                fact = _match_fact(ctx, folder, fi, base, tn.ast, tn, lb == "T")
                if fact is not None and fact.fi is fi and _converted_text_matched(base, fact, passed, d0.node):
                    found = (fact.rx, fact.name, fact.mode, tn, lb, fi)
        founds = [found] if found is not None else []
        if found is None:
            # no single test outcome dominates the conversion: decide path by path (the test may sit under a condition
            # that is decided again, in another spelling, where the conversion happens)
            pg = _path_guards(ctx, folder, F, feF, arg, dF.node)
            if pg is not None:
                founds = [(fact.rx, fact.name, fact.mode, tn, lb, F) for fact, tn, lb in sorted(pg, key=lambda x: x[1].id)]
                if len({(f_[0], f_[2]) for f_ in founds}) != 1:
                    raise AnalysisError(f"{here}: `{norm(dF.stmt)}` is guarded by different pattern tests on different paths")
        if not founds:
            # a pattern is consulted somewhere in the function(s) involved, but no outcome of any test there is understood
            # as "the pattern accepted a text": that is a way of testing this analysis cannot read, not a missing test
            # (a test that is understood and does not guard the conversion - removed, flipped, on another text - is a violation)
            scopes = [(F, feF)] + ([(fi, base)] if F is not fi else [])
            consulted = [c for F_, _fe in scopes for c in astq.calls(F_.node, nested=False)
                         if (isinstance(c.func, ast.Attribute) and c.func.attr in ("fullmatch", "match", "search", "findall", "finditer", "sub", "split")
                             and (fold_regex_expr(repo, folder, F_, c.func.value) is not None or dotted(c.func.value) == "re"))]
            understood = any(_match_fact(ctx, folder, F_, fe_, tn.ast, tn, w) is not None for F_, fe_ in scopes for tn in fe_.cfg.nodes if tn.kind == "test" and tn.ast is not None for w in (True, False))
            if consulted and not understood:
                raise AnalysisError(f"{here}: cannot interpret how the result of `{norm(consulted[0])}` decides whether `{norm(dF.stmt)}` is reached (pattern test slot)")
            ctx.ob("R17.1", f"{src} is dominated by a successful pattern test on the same text", False,
                   "no `<pattern>.fullmatch(text)` outcome dominates the conversion: a malformed q reaches float() (ValueError, or 'nan'/'1e0' accepted)", fi, dF.stmt, "q float guarded")
            return
        count["guarded"] += 1
        for rx, name, mode, tn, lb_ok, where in founds:
            # the other outcome of that test: the text is not a numeral the pattern accepts (or fails whatever else the
            # tested value stands for) - the item must be dropped, no quality may be made up for it
            failed = [s_ for s_, l in tn.succs if l == ("F" if lb_ok == "T" else "T")]
            if where is fi:
                fe_ = FuncEval(repo, folder, fi)
                fe_.assume.append((tn, lb_ok != "T"))  # the same condition tested again has the same outcome
                seen_ = fe_.explore(failed, stop=a_ids | ends)
                ctx.ob("R17.1", "an item whose q text fails the pattern test is ignored", not (seen_ & a_ids),
                       f"from the failing outcome of `{norm(tn.ast)}` the item {'can still be handed on as a pair' if seen_ & a_ids else 'is never handed on'}", fi, tn.ast, "q pattern failure ignored")
            else:
                rejected.setdefault(where.fq, []).extend(failed)
        rx, name, mode, tn, lb_ok, where = founds[0]
        _Q_PATTERNS.setdefault(id(ctx), []).append((rx, name, mode))
        ctx.ob("R17.1", f"{src} is dominated by a successful pattern test on the same text", True, f"`{norm(tn.ast)}` ({name} = {rx.pattern!r}, flags {rx.flags}) dominates the conversion" + (f" in {F.qualname}" if F is not fi else ""), fi, dF.stmt, "q float guarded")
        try:
            L = Lang.from_regex(rx, mode)
        except Unfoldable as e:
            raise AnalysisError(f"{name}: {e}")
        bad = crosscheck(rx, mode, L, "-+.015e ", 4)
        if bad is not None:
            raise AnalysisError(f"automaton of {name} disagrees with the re engine on {bad!r}")
        w = (L - REF).witness()
        ctx.ob("R17.1", f"every text accepted by {name}.{mode} is a plain ASCII decimal numeral", w is None,
               f"{name} = {rx.pattern!r} via {mode}: " + ("language is within [+-]?(D+(.D*)?|.D+), so float() is total and no exponent / nan / non-ASCII digit passes" if w is None else f"accepts {w!r}, which is not a plain decimal numeral (malformed q not ignored)"),
               fi, tn.ast, "q pattern language plain decimal")
        w2 = (RFCQ - L).witness()
        ctx.ob("R17.1", f"every RFC 9110 qvalue is accepted by {name}.{mode}", w2 is None,
               f"{name} = {rx.pattern!r}: " + ("contains 0(.D{1,3})? and 1(.0{1,3})?" if w2 is None else f"rejects the valid q value {w2!r}: the item would be ignored"), fi, tn.ast, "q pattern accepts rfc qvalues")
        # constants the quality is compared with -> sample points (one per order class)
        consts = {0.0, 1.0} | _cmp_consts(fi.node, {x.name for x in chain} | carried)
        if F is not fi:
            consts |= _cmp_consts(F.node, _alias_names(feF, dF.name)) if dF.name else set()
        pts = sorted(consts)
        samples = [pts[0] - 1.0]
        for i, p in enumerate(pts):
            samples.append(p)
            samples.append((p + pts[i + 1]) / 2 if i + 1 < len(pts) else p + 1.0)
        per_label: dict[str, int] = {}
        for sv in samples:
            per_label[label_of(sv)] = per_label.get(label_of(sv), 0) + 1
        for sv in samples:
            lab = label_of(sv)
            wit = (L & REF & regions[lab]).witness()
            count["samples"] += 1
            judge(chain, sv, lab if per_label[lab] == 1 else f"{lab} (sample {sv:g})", wit is not None, wit, src, "float", via)

    for sk, c in literal:
        # a constant written into the pair: the quality of an item that carries no q parameter
        count["const"] += 1
        how = [f"`{norm(tn.ast)}` is {'true' if lb == 'T' else 'false'}" for tn, lb in cfg.guards(sk.qnode) if tn.kind == "test" and tn.ast is not None]
        ctx.ob("R17.1", "an item without a q parameter has quality 1", c == 1, f"`{norm(sk.stmt)}` (reached when {' and '.join(how) or 'always'})", fi, sk.stmt, "default quality")
    for d0, chain in origins:
        v = d0.value if _plain(d0) or unpacked(d0) else FuncEval._literal_elt(d0) if d0.kind == "unpack" else None
        c = _num_const(v)
        if c is not None:
            constant_source(chain, c, norm(d0.stmt), cfg.guards(d0.node))
            continue
        if _is_float_call(repo, fi, v) and not unpacked(d0):
            float_source(fi, base, d0 if d0.value is v else _ArmSrc(d0, v), chain, None)
            continue
        H = _module_helper(fi, base, d0.node, v)
        if H is None:
            raise AnalysisError(f"{here}: cannot interpret the quality definition `{norm(d0.stmt) if d0.stmt is not None else d0.kind}` (expected a constant, float(<text>) or a helper of this module that computes it)")
        # ---- the quality is computed by a helper: its conversions, and what it hands back without converting ----
        ctx.saw(H)
        feH = FuncEval(repo, folder, H)
        conv = [d for ds in feH.rd.gen.values() for d in ds if _plain(d) and _is_float_call(repo, H, d.value)]
        if not unpacked(d0):
            conv += [_RetSrc(feH.cfg.node_of(r), r) for r in astq.returns_of(H.node) if _is_float_call(repo, H, r.value)]  # type: ignore[arg-type]
        if not conv:
            raise AnalysisError(f"{here}: quality helper {H.qualname} has no float(<text>) conversion (conversion slot)")
        for dH in sorted(conv, key=lambda d: getattr(d.stmt, "lineno", 0)):
            float_source(H, feH, dH, chain, (H, dH))
        early = FuncEval(repo, folder, H)
        after_failure = early.explore(rejected.get(H.fq, []), avoid={d.node.id for d in conv}) if rejected.get(H.fq) else set()
        seen = early.explore([early.cfg.entry], avoid={d.node.id for d in conv})
        for n in early.cfg.nodes:
            if not (n.id in seen and n.kind == "stmt"):
                continue
            if isinstance(n.ast, ast.Raise) and (n.id, early.cfg.raise_exit.id) in early.edges:
                exc = _raised_name(n.ast)
                escapes, may_reach = after_raise(d0, exc)
                ctx.ob("R17.1", f"a q text that {H.qualname} rejects (raises {exc or 'an exception'}) is ignored", not escapes and not may_reach,
                       f"`{norm(n.ast)}` in {H.qualname}: " + ("no handler around the call catches it, the whole header is lost" if escapes else f"caught around `{norm(d0.stmt)}`; the item {'can still reach result.append' if may_reach else 'is never appended'}"),
                       fi, d0.stmt, f"q helper rejection ignored ({norm(n.ast)})")
                continue
            if not isinstance(n.ast, ast.Return):
                continue
            rv = early.ev_at(n).val(n.ast.value) if n.ast.value is not None else None
            if unpacked(d0) and not isinstance(rv, (tuple, list)):
                raise AnalysisError(f"{here}: cannot interpret `{norm(n.ast)}` of quality helper {H.qualname} (unpacked by `{norm(d0.stmt)}`)")
            qv = component(d0, rv)
            if rv is UNK or (isinstance(rv, (tuple, list)) and any(x is UNK for x in rv)) or not (qv is None or (isinstance(qv, (int, float)) and not isinstance(qv, bool))):
                raise AnalysisError(f"{here}: cannot interpret `{norm(n.ast)}` of quality helper {H.qualname}")
            may_reach, _ms, blocking = kept(chain, rv, qv is None)
            if blocking:
                raise AnalysisError(f"{here}: cannot evaluate `{norm(blocking[0].ast)}` when {H.qualname} returns {rv!r}")  # type: ignore[arg-type]
            if qv is None or not may_reach:
                # handed back without converting anything, and the caller drops the item: a rejection
                ctx.ob("R17.1", f"a q text that {H.qualname} rejects (returns {rv!r}) is ignored", not may_reach,
                       f"`{norm(n.ast)}` in {H.qualname}: with that result the item {'reaches result.append' if may_reach else 'is never appended'}", fi, d0.stmt,
                       "q helper rejection ignored" if rv is None else f"q helper rejection ignored ({norm(n.ast)})")
            elif n.id in after_failure:
                ctx.ob("R17.1", f"a q text that fails the pattern test in {H.qualname} is ignored", False,
                       f"`{norm(n.ast)}` in {H.qualname} can follow the failing outcome of the pattern test, and with that result the item reaches result.append (quality {qv!r} made up for a malformed q)", fi, d0.stmt, f"q helper rejection ignored ({norm(n.ast)})")
            else:
                constant_source(chain, qv, f"{norm(n.ast)} in {H.qualname}", early.cfg.guards(n), rv)
    ctx.floor("R17.1", "origins of the quality reaching the append", len(origins) + len(literal), 1)
    ctx.floor("R17.1", "float() conversions of a q text", count["float"], 1)
    ctx.floor("R17.1", "constant qualities", count["const"], 1)
    ctx.floor("R17.1", "value-range samples (5 per guarded conversion)", count["samples"], 5 * count["guarded"])


# =====================================================================
# R17.2


class _Scen(t.NamedTuple):
    m: bool
    q: float
    bq: float
    s: tuple
    bs: tuple
    state: str  # "best": state variables hold an earlier candidate; "init": their initial values
    text: str


def _r172(ctx: Ctx, folder: Folder, accept: ClassInfo, fam: list[ClassInfo]) -> None:
    repo = ctx.repo
    bm = accept.methods.get("best_match")
    if bm is None:
        raise AnchorMissing("Accept.best_match missing")
    ctx.saw(bm)
    if len(bm.params) < 3:
        raise AnalysisError("Accept.best_match: expected (self, offers, default)")
    # every class of the family negotiates through an analysed best_match / lookup
    la = repo.try_cls("datastructures.accept.LanguageAccept")
    analysed = {bm.fq} | ({la.methods["best_match"].fq} if la is not None and "best_match" in la.methods else set())
    for c in fam:
        for nm in ("best_match", "_best_single_match", "quality"):
            _o, w = repo.lookup(c, nm)
            if not isinstance(w, FuncInfo):
                raise AnalysisError(f"{c.name}.{nm} does not resolve to a method")
            if nm == "best_match" and w.fq not in analysed or nm != "best_match" and w.cls is not accept:
                raise AnalysisError(f"{c.name}.{nm} resolves to {w.fq}, which these rules do not analyse")

    # not the one-loop-with-best-so-far-state shape, a step of it this evaluator cannot decide, or a clause of that shape
    # that does not hold: what the function returns on every short offer list decides
    _arbitrate(ctx, lambda: _selection_loop(ctx, folder, accept, fam, normalised(bm)), lambda: _selection_model(ctx, folder, bm), always=True)
    if la is not None and "best_match" in la.methods:
        _language_fallbacks(ctx, folder, accept, fam, la, bm)


def _arbitrate(ctx: Ctx, structural: t.Callable[[], None], model: t.Callable[[], str | None], always: bool = False) -> None:
    """run the shape-based clauses; when they cannot be decided (AnalysisError) or one of them does not hold, the
    function is judged by ``model`` instead - following it statement by statement on an exhaustive set of small
    inputs - and that verdict replaces the shape-based one.  When the function cannot be followed either (``model``
    returns the reason), the shape-based outcome stands."""
    mark = (len(ctx.obligations), len(ctx.floors), len(ctx.errors))
    failed: AnalysisError | None = None
    try:
        structural()
    except AnchorMissing:
        raise
    except AnalysisError as e:
        failed = e
    clean = failed is None and all(o.ok for o in ctx.obligations[mark[0]:])
    if clean and not always:
        return
    kept_ = (ctx.obligations[mark[0]:], ctx.floors[mark[1]:], ctx.errors[mark[2]:])
    del ctx.obligations[mark[0]:], ctx.floors[mark[1]:], ctx.errors[mark[2]:]
    why = model()
    if why is None:
        if clean:
            # both layers decided: the shape-based clauses (one step of the loop against an accurate best-so-far state)
            # stay as evidence, the run on whole input sequences is an obligation of its own - a stale-state defect
            # (a branch that replaces the choice but leaves part of the standard behind) only shows on a sequence
            ctx.obligations[mark[0]:mark[0]] = kept_[0]
            ctx.floors[mark[1]:mark[1]] = kept_[1]
            ctx.errors[mark[2]:mark[2]] = kept_[2]
        return
    # the function cannot be followed on sample inputs: the shape-based outcome stands
    del ctx.obligations[mark[0]:], ctx.floors[mark[1]:], ctx.errors[mark[2]:]
    if failed is not None:
        raise AnalysisError(f"{failed} [and not decidable by following the function on sample inputs: {why}]")
    ctx.obligations.extend(kept_[0])
    ctx.floors.extend(kept_[1])
    ctx.errors.extend(kept_[2])


def _selection_model(ctx: Ctx, folder: Folder, bm: FuncInfo) -> str | None:
    """Accept.best_match followed statement by statement on every offer list of up to three offers, each offer being
    unmatched or matched by a range of quality 0 / low / high and specificity low / middle / high
    (self._best_single_match and self._specificity answered by the scenario), and compared with the documented choice:
    the first offer, in caller order, that is matched with q > 0 and whose (quality, specificity) is not exceeded by a
    later one.  Independent of how the function is written, as long as it can be followed.  Returns a reason when it
    cannot."""
    repo = ctx.repo
    offers_p, default_p = bm.params[1], bm.params[2]
    DEFAULT = _Sent("default")
    QS = (0.0, 0.25, 0.5)
    SS = ((False,), (True,), (True, True))
    options: list[tuple[float, tuple] | None] = [None] + [(q, s_) for q in QS for s_ in SS]

    def expected(seq: tuple) -> t.Any:
        best: t.Any = None
        win: t.Any = DEFAULT
        for i, o in enumerate(seq):
            if o is None or o[0] <= 0:
                continue
            if best is None or (o[0], o[1]) > best:
                best, win = (o[0], o[1]), f"offer{i}"
        return win

    stuck: list[str] = []

    def got(seq: tuple) -> t.Any:
        table = {f"offer{i}": o for i, o in enumerate(seq)}

        def hook(call: ast.Call, ev: Ev, env: dict, fe: FuncEval):
            if self_call(call, "_best_single_match") and len(call.args) == 1 and not call.keywords:
                a = ev.val(call.args[0], env)
                if not isinstance(a, str) or a not in table:
                    return UNK
                o = table[a]
                return None if o is None else (f"range-of-{a}", o[0])
            if self_call(call, "_specificity") and len(call.args) == 1 and not call.keywords:
                a = ev.val(call.args[0], env)
                if not (isinstance(a, str) and a.startswith("range-of-") and table.get(a[9:]) is not None):
                    return UNK
                return table[a[9:]][1]
            return NotImplemented

        fe = FuncEval(repo, folder, bm, params={offers_p: list(table), default_p: DEFAULT}, call_hook=hook)
        res = fe.concrete()
        if res is None or res[1] is UNK:
            stuck.append(f"offers {[table[k] for k in table]}")
            return UNK
        return _Sent("an exception") if res[0] == "raise" else res[1]

    import itertools

    def check(seqs: t.Iterable[tuple]) -> tuple[bool, str, int]:
        n = 0
        bad: list[str] = []
        for seq in seqs:
            n += 1
            g, w = got(seq), expected(seq)
            if g is UNK:
                return True, "", n
            if not (g is w or (isinstance(g, str) and g == w)):
                shown = ", ".join("no range matches" if o is None else f"(q={o[0]:g}, specificity={o[1]})" for o in seq)
                bad.append(f"offers [{shown}]: returns {g!r}, expected {w!r}")
        if bad:
            return False, bad[0] + (f" (and {len(bad) - 1} more of {n} offer lists)" if len(bad) > 1 else ""), n
        return True, f"{n} offer list(s) followed statement by statement, all as documented", n

    if got(((0.5, (True,)),)) is UNK:
        return f"cannot follow Accept.best_match statement by statement ({stuck[0]})"
    total = 0
    groups: list[tuple[str, str, list[tuple]]] = []
    groups.append(("without an eligible offer the default is returned", "result initialised to default",
                   [()] + [tuple(x) for n_ in (1, 2) for x in itertools.product([None, (0.0, (True,)), (0.0, (True, True))], repeat=n_)]))
    groups.append(("a single eligible offer is chosen", "best_match first eligible offer", [((q, s_),) for q in QS[1:] for s_ in SS]))
    groups.append(("an offer that no range matches is never chosen and does not disturb the choice", "match gate",
                   [x for o in options[1:] for x in ((o, None), (None, o))]))
    groups.append(("an offer whose range has quality 0 is never chosen", "best_match zero quality",
                   [x for o in options[1:] if o[0] > 0 for z in SS for x in ((o, (0.0, z)), ((0.0, z), o))]))
    for rq, (q, bq) in (("<", (0.25, 0.5)), ("=", (0.5, 0.5)), (">", (0.5, 0.25))):
        for rs, (s_, bs) in (("<", (SS[0], SS[1])), ("=", (SS[1], SS[1])), (">", (SS[2], SS[1]))):
            exp = rq == ">" or (rq == "=" and rs == ">")
            groups.append((f"[quality > 0, quality {rq} best quality, specificity {rs} best specificity] -> {'replace' if exp else 'keep'}", f"best_match scenario q> 0 {rq} {rs}", [((bq, bs), (q, s_))]))
    groups.append(("the best-so-far standard moves exactly with the choice (all lists of three offers)", "state update", [tuple(x) for x in itertools.product(options, repeat=3)]))
    for text, cons, seqs in groups:
        ok, fact, n = check(seqs)
        total += n
        if stuck:
            return f"cannot follow Accept.best_match statement by statement ({stuck[0]})"
        ctx.ob("R17.2", text, ok, fact, bm, bm.node, cons)
    ctx.floor("R17.2", "offer lists on which Accept.best_match was followed", total, 1000)
    return None


def _selection_loop(ctx: Ctx, folder: Folder, accept: ClassInfo, fam: list[ClassInfo], bm: FuncInfo) -> None:
    repo = ctx.repo
    base = FuncEval(repo, folder, bm)
    cfg, rd = base.cfg, base.rd
    params = bm.params
    if len(params) < 3:
        raise AnalysisError("Accept.best_match: expected (self, offers, default)")
    offers_p, default_p = params[1], params[2]

    # ---- slots: the offer loop, the name that holds the choice, the statements that replace it --------------
    def def_expr(d: t.Any) -> ast.AST | None:
        """expression a definition binds to its name (the matching element of `a, b = x, y`)."""
        if d.kind in ("assign", "walrus") and d.index is None:
            return d.value
        return FuncEval._literal_elt(d) if d.kind == "unpack" else None

    def loop_offer(lp: ast.For) -> tuple[str, ast.AST, bool] | None:
        """(name of the offer being examined, iterated expression, wrapped in enumerate)."""
        if isinstance(lp.target, ast.Name):
            return lp.target.id, lp.iter, False
        it = lp.iter
        if (isinstance(lp.target, ast.Tuple) and len(lp.target.elts) == 2 and all(isinstance(x, ast.Name) for x in lp.target.elts)
                and isinstance(it, ast.Call) and astq.is_name(it.func, "enumerate") and 1 <= len(it.args) <= 2 and not it.keywords):
            return lp.target.elts[1].id, it.args[0], True  # type: ignore[attr-defined]
        return None

    all_defs = [d for ds in rd.gen.values() for d in ds]
    cands = []
    for lp in [n for n in walk_no_nested(bm.node) if isinstance(n, ast.For)]:
        lo = loop_offer(lp)
        if lo is None:
            continue
        names = {d.name for d in all_defs if _inside(d.stmt, lp) and astq.is_name(def_expr(d), lo[0]) and d.name != lo[0]}
        for nm in names:
            cands.append((lp, lo, nm))
    if len(cands) != 1:
        raise AnalysisError(f"Accept.best_match: expected one `for <offer> in <offers>` loop that stores the examined offer in one result name, found {len(cands)} (loop slot)")
    loop, (offer_var, iter_expr, enumerated), R = cands[0]
    head = cfg.node_of(loop)
    assert head is not None
    A_defs = [d for d in all_defs if d.name == R and _inside(d.stmt, loop)]
    for d in A_defs:
        if not astq.is_name(def_expr(d), offer_var) or d.node is None:
            raise AnalysisError(f"Accept.best_match: `{norm(d.stmt) if d.stmt is not None else d.name}` does not store the offer being examined (choice slot)")
    A_stmts = [d.stmt for d in A_defs]
    A_nodes = [d.node for d in A_defs]
    a_ids = {n.id for n in A_nodes if n is not None}
    ends = {head.id, cfg.exit.id, cfg.raise_exit.id}
    starts = [s for s, l in head.succs if l == "T"]

    ctx.ob("R17.2", "offers are examined in the caller's order", _in_order(iter_expr, offers_p), f"loop iterates `{norm(loop.iter)}` (parameter `{offers_p}`)", bm, loop, "offer loop order")

    # what the function returns once the loop is over: the default while nothing was chosen, the choice otherwise
    outer_defs = [d for d in all_defs if d.name == R and not _inside(d.stmt, loop)]
    DEFAULT, CHOSEN = _Sent("default"), _Sent("chosen offer")

    def after_loop(chosen: bool) -> tuple[list[t.Any], bool]:
        def multi(name: str, defs, fe: FuncEval):
            if name != R:
                return NotImplemented
            if chosen:
                return CHOSEN
            vals = [fe.def_value(d) for d in defs if not _inside(d.stmt, loop)]
            return vals[0] if vals and all(v is vals[0] or (v is not UNK and v == vals[0]) for v in vals) else UNK

        fe = FuncEval(repo, folder, bm, params={default_p: DEFAULT}, multi=multi)
        fe.pinned.update({d: CHOSEN for d in A_defs} if chosen else {})
        rv, raises = fe.outcomes([s for s, l in head.succs if l == "F"])
        return [v for _, v in rv], raises

    vals, raises = after_loop(False)
    ok_def = bool(vals) and not raises and all(v is DEFAULT for v in vals)
    ctx.ob("R17.2", "without an eligible offer the default is returned", ok_def, f"definitions of `{R}` outside the loop: {[norm(d.stmt) for d in outer_defs if d.stmt is not None]}; after a loop that chose nothing the function returns {vals}{' or raises' if raises else ''}", bm, outer_defs[0].stmt if outer_defs else bm.node, "result initialised to default")
    vals, raises = after_loop(True)
    ok_ret = bool(vals) and not raises and all(v is CHOSEN for v in vals)
    ctx.ob("R17.2", "the offer the loop chose is what is returned", ok_ret, f"after a loop that stored an offer in `{R}` the function returns {vals}{' or raises' if raises else ''}", bm, A_stmts[0], "chosen offer returned")

    OFFER = _Sent("offer")
    CLIENT = {"cur": _Sent("range"), "best": _Sent("earlier range")}
    state_names: set[str] = set()

    def make(scen: _Scen) -> FuncEval:
        mode = ["cur"]

        def hook(call: ast.Call, ev: Ev, env: dict, fe: FuncEval):
            if self_call(call, "_best_single_match") and len(call.args) == 1 and not call.keywords:
                if ev.val(call.args[0], env) is OFFER:
                    if not scen.m:
                        return None
                    return (CLIENT[mode[0]], scen.q if mode[0] == "cur" else scen.bq)
                return UNK
            if self_call(call, "_specificity") and len(call.args) == 1 and not call.keywords:
                a = ev.val(call.args[0], env)
                if a is CLIENT["cur"]:
                    return scen.s
                if a is CLIENT["best"]:
                    return scen.bs
                return UNK
            return NotImplemented

        def multi(name: str, defs, fe: FuncEval):
            inner = [d for d in defs if _inside(d.stmt, loop)]
            outer = [d for d in defs if not _inside(d.stmt, loop)]
            if not inner or not outer:
                return NotImplemented
            state_names.add(name)
            if name == R or mode[0] != "cur":
                return UNK
            chosen, m2 = (outer, "cur") if scen.state == "init" else (inner, "best")
            mode[0] = m2
            try:
                vals = [fe.def_value(d) for d in chosen]
            finally:
                mode[0] = "cur"
            if any(v is UNK for v in vals) or any(v != vals[0] for v in vals[1:]):
                return UNK
            return vals[0]

        fe = FuncEval(repo, folder, bm, loop_values={id(loop): (0, OFFER) if enumerated else OFFER}, call_hook=hook, multi=multi)
        fe.token = lambda: mode[0]
        return fe

    def run_scen(scen: _Scen) -> tuple[bool, bool, list[Node]]:
        fe = make(scen)
        seen = fe.explore(starts, stop=a_ids | ends)
        may_reach = bool(seen & a_ids)
        seen2 = fe.explore(starts, stop=ends, avoid=a_ids)
        may_skip = bool(seen2 & ends)
        return may_reach, may_skip, list(fe.unknown_tests)

    # ---- the 18 order scenarios -------------------------------------------
    n = 0
    spec = {"<": ((False,), (True,)), "=": ((True,), (True,)), ">": ((True,), (False,))}
    for sign, q in (("= 0", 0.0), ("> 0", 0.5)):  # qualities are within [0,1] (R17.1): negative ones are outside the property
        for rq, bq in (("<", q + 0.25), ("=", q), (">", q - 0.25)):
            for rs, (s, bs) in spec.items():
                text = f"quality {sign}, quality {rq} best quality, specificity {rs} best specificity"
                scen = _Scen(True, q, bq, s, bs, "best", text)
                expect = q > 0 and (rq == ">" or (rq == "=" and rs == ">"))
                may_reach, may_skip, unknown = run_scen(scen)
                ok = (may_reach and not may_skip) if expect else (not may_reach)
                if not ok and unknown:
                    raise AnalysisError(f"Accept.best_match: cannot evaluate `{norm(unknown[0].ast)}` in scenario [{text}]")  # type: ignore[arg-type]
                n += 1
                if expect:
                    fact = "the examined offer replaces the choice on every path" if ok else ("the choice can stay with the earlier offer" if may_reach else "the examined offer never replaces the earlier one")
                else:
                    fact = "the earlier choice is kept on every path" if ok else "the examined offer replaces the choice"
                ctx.ob("R17.2", f"[{text}] -> {'replace' if expect else 'keep'}", ok, fact + f" (q={q:g}, best q={bq:g}, specificity={s}, best={bs})", bm, A_stmts[0], f"best_match scenario q{sign} {rq} {rs}")
    ctx.floor("R17.2", "order scenarios of the selection loop", n, 18)

    # ---- first candidate against the initial state -------------------------
    for q in (1e-9, 1.0):
        for s in ((False,), (False, False), (True,), (True, True, True)):
            text = f"first eligible offer, quality {q:g}, specificity {s}"
            may_reach, may_skip, unknown = run_scen(_Scen(True, q, 0.0, s, (), "init", text))
            ok = may_reach and not may_skip
            if not ok and unknown:
                raise AnalysisError(f"Accept.best_match: cannot evaluate `{norm(unknown[0].ast)}` in scenario [{text}]")  # type: ignore[arg-type]
            ctx.ob("R17.2", f"[{text}] -> chosen", ok, "with the initial best-so-far state the offer is chosen on every path" if ok else "with the initial best-so-far state the offer can be passed over", bm, A_stmts[0], f"best_match first q={q:g} s={s}")

    # ---- no range matches -> never chosen; components of the match are used only behind that test ----
    yes = make(_Scen(True, 0.5, 0.25, (True,), (True,), "best", ""))
    no = make(_Scen(False, 0.5, 0.25, (True,), (True,), "best", ""))
    gate_edges = []
    for tn in cfg.tests():
        if tn.kind != "test" or not _inside(tn.ast, loop):
            continue
        ty, tn_ = yes.truth_at(tn), no.truth_at(tn)
        if ty is not UNK and tn_ is not UNK and ty != tn_:
            gate_edges.append((tn, "T" if ty else "F"))
    match_vars: set[str] = set()
    for ds in rd.gen.values():
        for d in ds:
            if _inside(d.stmt, loop) and d.kind in ("assign", "walrus"):
                v = yes.def_value(d)
                if isinstance(v, tuple) and len(v) == 2 and v[0] is CLIENT["cur"]:
                    match_vars.add(d.name)
    if not match_vars:
        raise AnalysisError("Accept.best_match: no variable holds self._best_single_match(<offer>) (match slot)")
    users = []
    for nd in cfg.nodes:
        if nd.kind == "stmt" and nd.ast is not None and _inside(nd.ast, loop):
            loads = {x.id for x in ast.walk(nd.ast) if isinstance(x, ast.Name) and isinstance(x.ctx, ast.Load)}
            if loads & match_vars:
                users.append(nd)
    for nd in [*A_nodes, *users]:
        assert nd is not None
        dom = [(tn, lb) for tn, lb in gate_edges if cfg.edge_dominates(tn, lb, nd)]
        ctx.ob("R17.2", f"`{nd.text()}` runs only when a client range matched the offer", bool(dom),
               (f"dominated by the matched edge of `{norm(dom[0][0].ast)}`" if dom else f"reachable when _best_single_match returned None (tests that tell a match from no match: {[norm(tn.ast) for tn, _ in gate_edges]})"),  # type: ignore[arg-type]
               bm, nd.ast, f"match gate {norm(nd.ast)}")  # type: ignore[arg-type]

    # ---- best-so-far state moves together with the choice -------------------
    state = sorted(state_names - {R})
    if not state:
        raise AnalysisError("Accept.best_match: no best-so-far state variable found (state slot)")
    for name in state:
        inner = [d for ds in rd.gen.values() for d in ds if d.name == name and _inside(d.stmt, loop)]
        for d in inner:
            together = False
            for an in A_nodes:
                assert an is not None and d.node is not None
                loop_ends = [cfg.nodes[i] for i in ends]
                if cfg.node_dominates(an, d.node) and cfg.all_paths_pass(an, loop_ends, [d.node]):
                    together = True
                if cfg.node_dominates(d.node, an) and cfg.all_paths_pass(d.node, loop_ends, [an]):
                    together = True
            ctx.ob("R17.2", f"`{norm(d.stmt)}` happens exactly when the choice is replaced", together,
                   "same straight-line block as the assignment of the result" if together else "the best-so-far state can change without the choice (or the reverse)", bm, d.stmt, f"state update {name}")


class _AcceptObj:
    """an Accept-family object built inside the analysed function (class, list handed to the constructor)."""

    def __init__(self, klass: ClassInfo, items: t.Any):
        self.klass = klass
        self.items = items

    def __repr__(self) -> str:
        return f"<{self.klass.name}({self.items})>"


_LANG_SELF = [("en-US", 0.3), ("de", 0.7), ("fr_CA", 0.5), ("zh-Hant-TW", 0.9), ("*", 0.1)]
# (client list as Accept stores it: specificity, then quality, descending; offers)
_LANG_REFUSALS = (
    ([("en", 0.5), ("en-US", 0.0)], ["en-US"]),  # comes back through the offers' primary tags
    ([("en", 0.5), ("en-US", 0.0)], ["en-US", "en-GB"]),  # ... although an acceptable offer shares the tag
    ([("fr-CA", 0.0), ("*", 0.1)], ["fr-CA"]),  # comes back through the wildcard of the client's primary tags
    ([("de", 0.8), ("en-US", 0.0)], ["en-US", "de"]),  # nothing to come back: the exact stage decides
)
_LANG_OFFERS = (["enm-GB", "en-US", "de"], ["en-US", "enm-GB", "de"], ["de-AT", "deu", "en"], ["en-US", "en_GB", "fr"])


def _lang_eq(offer: str, rng: str) -> bool:
    import re as _re

    return rng == "*" or _re.split(r"[_-]", offer.lower()) == _re.split(r"[_-]", rng.lower())

def _plain_eq(offer: str, rng: str) -> bool:
    return rng == "*" or offer.lower() == rng.lower()

def _most_specific(ranges: t.Any, eq: t.Callable[[str, str], bool], offer: str) -> tuple[bool, float] | None:
    best: tuple[bool, float] | None = None
    for rng, q in ranges:
        if eq(offer, rng) and (best is None or (rng != "*", q) > best):
            best = (rng != "*", q)
    return best


def _primary(tag: str) -> str:
    """RFC 4647 / documented fallback: the primary subtag is the text before the first '-' or '_'."""
    import re as _re

    return _re.split(r"[_-]", tag, maxsplit=1)[0]


def _language_fallbacks(ctx: Ctx, folder: Folder, accept: ClassInfo, fam: list[ClassInfo], la: ClassInfo, bm: FuncInfo) -> None:
    """LanguageAccept.best_match against its documented protocol.  The function is run statement by statement on sample
    client lists / offer lists; every negotiation it starts (a ``best_match`` call on ``super()`` or on an Accept object
    it built) is answered by the scenario and recorded with its receiver and candidate list - so the decision does not
    depend on how the stages are spelled (early returns or nesting, generator / loop / mapping for the way back)."""
    repo = ctx.repo
    fi = la.methods["best_match"]
    ctx.saw(fi)
    params = fi.params
    if len(params) < 3:
        raise AnalysisError("LanguageAccept.best_match: expected (self, offers, default)")
    offers_p, default_p = params[1], params[2]
    DEFAULT = _Sent("default")
    fam_fq = {c.fq for c in fam}

    def run(offers: list[str], plan: t.Any, client: list[tuple[str, float]] | None = None) -> tuple[t.Any, list[tuple[t.Any, t.Any, ast.Call]]]:
        """``plan``: the stage results in order, or a callable (receiver, candidates) -> result that answers them."""
        log: list[tuple[t.Any, t.Any, ast.Call]] = []
        memo: dict[int, t.Any] = {}
        me = list(_LANG_SELF if client is None else client)

        def hook(call: ast.Call, ev: Ev, env: dict, fe_: FuncEval):
            f = call.func
            if isinstance(f, ast.Attribute) and f.attr == "best_match":
                if id(call) in memo:
                    return memo[id(call)]
                recv: t.Any
                if isinstance(f.value, ast.Call) and dotted(f.value.func) == "super" and not f.value.args:
                    recv = "own"
                else:
                    recv = ev.val(f.value, env)
                    if not isinstance(recv, _AcceptObj):
                        return UNK
                args = [ev.val(a, env) for a in call.args]
                kws = {k.arg: ev.val(k.value, env) for k in call.keywords}
                if None in kws or len(args) > 2 or set(kws) - {"matches", "default"}:
                    return UNK
                cand = args[0] if args else kws.get("matches", UNK)
                dflt = args[1] if len(args) == 2 else kws.get("default", None)
                i = len(log)
                log.append((recv, cand, call))
                r = plan(recv, cand) if callable(plan) else (plan[i] if i < len(plan) else None)
                if r is UNK:
                    return UNK
                memo[id(call)] = dflt if r is None else r
                return memo[id(call)]
            if isinstance(f, ast.Attribute) and isinstance(f.value, ast.Name) and f.value.id == params[0] and f.attr in ("_best_single_match", "quality", "find") and len(call.args) == 1 and not call.keywords:
                # first-match lookups on the client's list (R17.3 decides that this is what they do)
                v = ev.val(call.args[0], env)
                if not isinstance(v, str):
                    return UNK
                hit = next(((i, r, q) for i, (r, q) in enumerate(me) if _lang_eq(v, r)), None)
                if f.attr == "_best_single_match":
                    return None if hit is None else (hit[1], hit[2])
                if f.attr == "quality":
                    return 0 if hit is None else hit[2]
                return -1 if hit is None else hit[0]
            d = dotted(f)
            if d and not call.keywords and len(call.args) <= 1:
                fq = repo.resolve(fi.module, d)
                k = repo.try_cls(fq) if fq and fq.startswith("werkzeug") else None
                if k is not None and k.fq in fam_fq:
                    items = ev.val(call.args[0], env) if call.args else []
                    return UNK if items is UNK else _AcceptObj(k, items)
            return NotImplemented

        fe_ = FuncEval(repo, folder, fi, params={"self": me, offers_p: list(offers), default_p: DEFAULT}, call_hook=hook)
        res = fe_.concrete()
        if res is None or res[0] != "return" or res[1] is UNK:
            what = "raises" if res is not None and res[0] == "raise" else "cannot be followed statement by statement"
            raise AnalysisError(f"LanguageAccept.best_match: {what} for offers {offers} with stage results {plan} (fallback protocol)")
        return res[1], log

    def distinct(xs: t.Any) -> list[t.Any] | None:
        try:
            return list(dict.fromkeys(xs))
        except TypeError:
            return None

    _o, sup = repo.lookup(la, "best_match", after=la.fq)
    ctx.ob("R17.2", "negotiations on super() go through Accept.best_match", isinstance(sup, FuncInfo) and sup.fq == bm.fq, f"super().best_match resolves to {sup.fq if isinstance(sup, FuncInfo) else sup}", fi, fi.node, "stage super target")

    want_pairs = [(_primary(tag), q) for tag, q in _LANG_SELF]
    bad: dict[str, str] = {}
    n_stage = 0
    for offers in _LANG_OFFERS:
        prim = [_primary(o) for o in offers]
        got, log = run(offers, [])
        n_stage = max(n_stage, len(log))
        shown = [(r if isinstance(r, str) else repr(r), c) for r, c, _ in log]
        if len(log) != 3:
            bad.setdefault("count", f"offers {offers}: {len(log)} negotiation(s) when no stage finds anything: {shown}")
            continue
        (r1, c1, _a), (r2, c2, _b), (r3, c3, _c) = log
        if not (r1 == "own" and c1 == offers):
            bad.setdefault("s1", f"offers {offers}: first negotiation is {shown[0]}")
        if not (isinstance(r2, _AcceptObj) and c2 == offers):
            bad.setdefault("s2", f"offers {offers}: second negotiation is {shown[1]}")
        else:
            tgt = repo.lookup(r2.klass, "best_match")[1]
            if not (isinstance(tgt, FuncInfo) and tgt.fq == bm.fq):
                bad.setdefault("s2", f"the fallback object is a {r2.klass.name}, whose best_match is {tgt.fq if isinstance(tgt, FuncInfo) else tgt}")
            items = [tuple(x) if isinstance(x, (list, tuple)) else x for x in r2.items] if isinstance(r2.items, (list, tuple)) else None
            if items is None or [x[0] for x in items if isinstance(x, tuple) and len(x) == 2] != [p for p, _ in want_pairs] or len(items) != len(want_pairs):
                bad.setdefault("s2", f"client ranges {_LANG_SELF}: the fallback ranges are {r2.items}, expected the primary tags {[p for p, _ in want_pairs]}")
            elif [x[1] for x in items] != [q for _, q in want_pairs]:
                bad.setdefault("q", f"client ranges {_LANG_SELF}: the fallback ranges are {r2.items} - the client's q is not kept")
        if not (r3 == "own" and distinct(c3) == distinct(prim)):
            bad.setdefault("s3", f"offers {offers}: third negotiation is {shown[2]}, expected the offers' primary tags {prim}")
        ctx.ob("R17.2", f"LanguageAccept.best_match returns the default when no stage finds anything among {offers}", got is DEFAULT, f"returns {got!r}", fi, fi.node, f"nothing negotiated among {','.join(offers)}")
    ctx.floor("R17.2", "negotiation stages of LanguageAccept.best_match", n_stage, 1)
    ctx.ob("R17.2", "LanguageAccept.best_match negotiates in exactly three stages", "count" not in bad, bad.get("count", "three best_match negotiations when none finds anything"), fi, fi.node, "stage count")
    if "count" not in bad:
        ctx.ob("R17.2", "stage 1 negotiates the client's ranges on the caller's offers", "s1" not in bad, bad.get("s1", "super().best_match(<offers>)"), fi, fi.node, "stage 1 exact")
        ctx.ob("R17.2", "stage 2 negotiates the primary tags of the client's ranges on the caller's offers, through Accept.best_match", "s2" not in bad, bad.get("s2", f"an Accept of {want_pairs} negotiates the offers"), fi, fi.node, "stage 2 client primary tags")
        ctx.ob("R17.2", "the stage 2 ranges keep each client range's q", "q" not in bad and "s2" not in bad, bad.get("q", bad.get("s2", f"{want_pairs}")), fi, fi.node, "stage 2 keeps q")
        ctx.ob("R17.2", "stage 3 negotiates the client's ranges on the primary tags of the offers, in offer order", "s3" not in bad, bad.get("s3", "super().best_match(<primary tags of the offers>)"), fi, fi.node, "stage 3 offer primary tags")

    for offers in _LANG_OFFERS:
        o = offers[1]
        got, log = run(offers, [o])
        ctx.ob("R17.2", f"an exact match ({o!r} among {offers}) is returned, later stages cannot override it", got == o, f"stage 1 selects {o!r}: returns {got!r}", fi, fi.node, f"stage 1 result {o} among {','.join(offers)}")
        got, log = run(offers, [None, o])
        ctx.ob("R17.2", f"a client-primary-tag match ({o!r} among {offers}) is returned once no exact match exists", got == o, f"stage 1 finds nothing, stage 2 selects {o!r}: returns {got!r}", fi, fi.node, f"stage 2 result {o} among {','.join(offers)}")
        prim = [_primary(x) for x in offers]
        for res in dict.fromkeys(prim):
            want = offers[prim.index(res)]
            got, log = run(offers, [None, None, res])
            ctx.ob("R17.2", f"the offer returned for the negotiated primary tag {res!r} among {offers} is the first offer carrying that tag", got == want,
                   f"stages 1 and 2 find nothing, stage 3 selects {res!r}: returns {got!r}" + ("" if got == want else f", expected {want!r}" + (": an offer that no client range matched" if isinstance(got, str) and _primary(got) != res else "")), fi, fi.node, f"primary-tag result {res} mapped back among {','.join(offers)}")

    # R17.6: a refused offer does not come back through a fallback.  Every negotiation the function starts is answered
    # by the selection clause itself (highest q > 0 of the most specific matching range, ties to the earlier offer):
    # on super() with the class's own matcher (tags equal after lower-casing and splitting at '-' / '_'), on an Accept
    # object it built with the base matcher (equal ignoring case, or '*').
    def negotiate(client: list[tuple[str, float]]) -> t.Callable[[t.Any, t.Any], t.Any]:
        def answer(recv: t.Any, cand: t.Any) -> t.Any:
            if recv == "own":
                ranges, eq = client, _lang_eq
            elif isinstance(recv, _AcceptObj) and isinstance(recv.items, (list, tuple)) and recv.klass.fq in (accept.fq, la.fq):
                ranges, eq = [tuple(x) if isinstance(x, (list, tuple)) else x for x in recv.items], (_plain_eq if recv.klass.fq == accept.fq else _lang_eq)
            else:
                return UNK
            if isinstance(cand, dict):
                cand = list(cand)
            if not isinstance(cand, (list, tuple)) or not all(isinstance(c, str) for c in cand) or not all(isinstance(x, tuple) and len(x) == 2 and isinstance(x[0], str) and isinstance(x[1], (int, float)) for x in ranges):
                return UNK
            choice, key = None, None
            for c in cand:
                m = _most_specific(ranges, eq, c)
                if m is not None and m[1] > 0 and (key is None or (m[1], m[0]) > key):
                    choice, key = c, (m[1], m[0])
            return choice

        return answer

    for n in walk_no_nested(fi.node):
        on_self = (isinstance(n, ast.Compare) and any(isinstance(o, (ast.In, ast.NotIn)) for o in n.ops) and any(isinstance(c, ast.Name) and c.id == params[0] for c in n.comparators)) or \
                  (isinstance(n, ast.Subscript) and isinstance(n.value, ast.Name) and n.value.id == params[0])
        if on_self:
            raise AnalysisError(f"LanguageAccept.best_match: `{norm(n)}` looks an offer up through the list's own membership / item protocol, which the sample interpretation does not model (R17.6)")
    for client, offers in _LANG_REFUSALS:
        try:
            got, log = run(offers, negotiate(client), client)
        except AnalysisError:
            if bad:
                # the staging protocol is already reported as broken (R17.2): nothing further is claimed about this sample
                continue
            raise
        refused = [o for o in offers if (_most_specific(client, _lang_eq, o) or (True, 1.0))[1] == 0]
        ok = got is DEFAULT or (isinstance(got, str) and got in offers and got not in refused)
        hdr = ", ".join(f"{r};q={q:g}" for r, q in client)
        ctx.ob("R17.6", f"for `{hdr}` and offers {offers} the result is not a refused offer ({refused} have q=0 as their most specific range)", ok,
               f"returns {got!r}" + ("" if ok else f" after {len(log)} negotiation(s): the fallback stages negotiate primary tags and lose the exact refusal"), fi, fi.node, f"refused offer returned for {hdr} among {','.join(offers)}")
    ctx.floor("R17.6", "refusal samples followed through LanguageAccept.best_match", len(_LANG_REFUSALS), 3)


# =====================================================================
# R17.3


def _first_match(ctx: Ctx, fi: FuncInfo, want: str, miss: t.Any, folder: Folder | None = None) -> None:
    """fi iterates self in list order and returns, at the first range for which _value_matches(offer, range) holds,
    the (range, quality) pair (want='pair') or the quality (want='quality'); ``miss`` is returned when none matches."""
    cfg = cfg_of(fi)
    offer_p = fi.params[1] if len(fi.params) > 1 else None
    loops = [n for n in walk_no_nested(fi.node) if isinstance(n, ast.For)]
    if not loops and want == "quality" and offer_p is not None and folder is not None and any(self_call(c, "_best_single_match") for c in astq.calls(fi.node, nested=False)):
        # no scan of its own: built on _best_single_match (analysed above)
        OFFER, RANGE = _Sent("offer"), _Sent("range")
        for found, exp in ((True, 0.37), (False, miss)):
            def hook(call: ast.Call, ev: Ev, env: dict, fe: FuncEval, found: bool = found):
                if self_call(call, "_best_single_match") and len(call.args) == 1 and not call.keywords:
                    return ((RANGE, 0.37) if found else None) if ev.val(call.args[0], env) is OFFER else UNK
                return NotImplemented

            rv, raises = FuncEval(ctx.repo, folder, fi, params={offer_p: OFFER}, call_hook=hook).outcomes()
            vals_ = [v for _, v in rv]
            ok = not raises and bool(vals_) and all(v is not UNK and v == exp and isinstance(v, bool) == isinstance(exp, bool) for v in vals_)
            ctx.ob("R17.3", f"{fi.qualname} yields {'the quality of the most specific matching range' if found else repr(miss) + ' when no range matches'}", ok,
                   f"through _best_single_match: returns {vals_}{' or raises' if raises else ''}", fi, fi.node, f"{fi.qualname} via single match {'hit' if found else 'miss'}")
        return
    if offer_p is None:
        raise AnalysisError(f"{fi.qualname}: expected an offer parameter")
    fe = FuncEval(ctx.repo, folder, fi) if folder is not None else None
    rd = fe.rd if fe is not None else None

    def source(e: ast.AST | None, node: Node | None) -> ast.AST | None:
        """the expression a returned local stands for (plain copies `x = <expr>` ... `return x` are followed)."""
        for _ in range(4):
            if not (isinstance(e, ast.Name) and rd is not None and node is not None):
                break
            ds = rd.reaching(node, e.id)
            if len(ds) != 1:
                break
            d = next(iter(ds))
            if d.kind not in ("assign", "walrus") or d.index is not None or d.value is None or d.node is None:
                break
            e, node = d.value, d.node
        return e

    def make_comp(tg: ast.AST) -> t.Callable[[ast.AST | None], t.Any]:
        def comp(e: ast.AST | None) -> t.Any:
            if e is None:
                return None
            if isinstance(tg, ast.Tuple) and len(tg.elts) == 2 and all(isinstance(x, ast.Name) for x in tg.elts):
                if astq.is_name(e, tg.elts[0].id):  # type: ignore[attr-defined]
                    return 0
                if astq.is_name(e, tg.elts[1].id):  # type: ignore[attr-defined]
                    return 1
                if isinstance(e, ast.Tuple) and len(e.elts) == 2 and comp(e.elts[0]) == 0 and comp(e.elts[1]) == 1:
                    return "pair"
            elif isinstance(tg, ast.Name):
                if astq.is_name(e, tg.id):
                    return "pair"
                if isinstance(e, ast.Subscript) and astq.is_name(e.value, tg.id) and _num_const(e.slice) in (0, 1):
                    return _num_const(e.slice)
                if isinstance(e, ast.Tuple) and len(e.elts) == 2 and comp(e.elts[0]) == 0 and comp(e.elts[1]) == 1:
                    return "pair"
            return None

        return comp

    exp = "pair" if want == "pair" else 1
    what = "(range, quality) pair" if want == "pair" else "quality"

    def is_miss(e: ast.AST | None) -> bool:
        if e is None:
            return miss is None
        if not isinstance(e, ast.Constant):
            return False
        v = e.value
        return v == miss and isinstance(v, bool) == isinstance(miss, bool) and (v is None) == (miss is None)

    def match_call(a: ast.AST | None) -> ast.Call | None:
        return a if isinstance(a, ast.Call) and self_call(a, "_value_matches") and len(a.args) == 2 and not a.keywords else None

    def conjuncts(e: ast.AST) -> list[ast.AST]:
        if isinstance(e, ast.BoolOp) and isinstance(e.op, ast.And):
            return [y for x in e.values for y in conjuncts(x)]
        return [e]

    rets = astq.returns_of(fi.node)
    # ---- shape: next(<generator over the list>, <miss>) ---------------------------------------------------------
    searches = []
    for r in rets:
        v = source(r.value, cfg.node_of(r))
        if isinstance(v, ast.Call) and astq.is_name(v.func, "next") and v.args and isinstance(v.args[0], ast.GeneratorExp) and not v.keywords:
            searches.append((r, v))
    if searches and not loops:
        for r, v in searches:
            ge = v.args[0]
            assert isinstance(ge, ast.GeneratorExp)
            if len(ge.generators) != 1 or ge.generators[0].is_async:
                raise AnalysisError(f"{fi.qualname}: `{norm(v)}` is not a search over one iteration (first-match slot)")
            g = ge.generators[0]
            comp = make_comp(g.target)
            ctx.ob("R17.3", f"{fi.qualname} scans the ranges in list order", _in_order(g.iter, "self"), f"generator iterates `{norm(g.iter)}`; next() takes its first element", fi, r, f"{fi.qualname} iteration order")
            guard = None
            for c_ in g.ifs:
                for a in conjuncts(c_):
                    guard = match_call(a) or guard
            ok_g = guard is not None and astq.is_name(guard.args[0], offer_p) and comp(guard.args[1]) == 0
            ctx.ob("R17.3", f"{fi.qualname} returns at the first range that matches the offer", ok_g,
                   f"`{norm(v)}` filtered by `{norm(guard) if guard is not None else None}` (expected _value_matches(<offer `{offer_p}`>, <range>))", fi, r, f"{fi.qualname} first match guard")
            ctx.ob("R17.3", f"{fi.qualname} returns that range's {what}", comp(ge.elt) == exp, f"element `{norm(ge.elt)}`", fi, r, f"{fi.qualname} returned component")
        others = [r for r in rets if not any(r is r2 for r2, _ in searches)]
        dflt = [v.args[1] if len(v.args) == 2 else None for _, v in searches]
        ok_miss = all(d is not None and is_miss(d) for d in dflt) and all(is_miss(r.value) for r in others)
        ctx.ob("R17.3", f"{fi.qualname} yields {miss!r} when no range matches", ok_miss,
               f"default of next(): {[norm(d) if d is not None else 'none (StopIteration)' for d in dflt]}" + (f"; other returns {[norm(r) for r in others]}" if others else ""), fi, searches[0][0], f"{fi.qualname} miss value")
        return
    if len(loops) != 1:
        raise AnalysisError(f"{fi.qualname}: expected one loop over the list, or next() over one generator (first-match slot)")
    loop = loops[0]
    head = cfg.node_of(loop)
    assert head is not None
    if not _in_order(loop.iter, "self") and not _reordered(loop.iter, "self"):
        raise AnalysisError(f"{fi.qualname}: loop over `{norm(loop.iter)}` is not an iteration of the list itself (first-match slot)")
    ctx.ob("R17.3", f"{fi.qualname} scans the ranges in list order", _in_order(loop.iter, "self"), f"iterates `{norm(loop.iter)}`", fi, loop, f"{fi.qualname} iteration order")
    comp = make_comp(loop.target)

    # hit sites: where the answer is fixed - a return inside the loop, or (search loop with break) an assignment inside
    # the loop to the name that is returned after it
    hits: list[tuple[ast.AST, ast.AST | None]] = [(r, r.value) for r in rets if _inside(r, loop)]
    rets_out = [r for r in rets if not _inside(r, loop)]
    miss_exprs: list[tuple[ast.AST, ast.AST | None]] = []
    for r in rets_out:
        node = cfg.node_of(r)
        inner = []
        if isinstance(r.value, ast.Name) and rd is not None and node is not None:
            ds = rd.reaching(node, r.value.id)
            inner = [d for d in ds if _inside(d.stmt, loop)]
            if inner:
                for d in ds:
                    if d in inner:
                        if d.kind not in ("assign", "walrus") or d.index is not None or d.node is None:
                            raise AnalysisError(f"{fi.qualname}: `{norm(d.stmt) if d.stmt is not None else d.name}` not understood (first-match slot)")
                        hits.append((d.stmt, d.value))  # type: ignore[arg-type]
                    elif d.kind == "assign" and d.index is None:
                        miss_exprs.append((d.stmt, d.value))  # type: ignore[arg-type]
                    else:
                        miss_exprs.append((r, r.value))
        if not inner:
            miss_exprs.append((r, r.value))
    if not hits:
        raise AnalysisError(f"{fi.qualname}: no return / result assignment inside the loop (first-match slot)")
    for st, val in hits:
        node = cfg.node_of(st)
        assert node is not None
        guard = None
        for tn, lb in cfg.guards(node):
            if lb == "T" and match_call(tn.ast) is not None:
                guard = match_call(tn.ast)
        # the scan stops here: no way back to the loop head
        stops = isinstance(st, ast.Return) or head.id not in cfg.reach(node)
        ok_g = guard is not None and astq.is_name(guard.args[0], offer_p) and comp(guard.args[1]) == 0 and stops
        ctx.ob("R17.3", f"{fi.qualname} returns at the first range that matches the offer", ok_g,
               f"`{norm(st)}` guarded by `{norm(guard) if guard is not None else None}` (expected _value_matches(<offer `{offer_p}`>, <range>))" + ("" if stops else "; the scan goes on after a hit (last match wins)"), fi, st, f"{fi.qualname} first match guard")
        ctx.ob("R17.3", f"{fi.qualname} returns that range's {what}", comp(val) == exp, f"`{norm(st)}`", fi, st, f"{fi.qualname} returned component")
    falls = not rets_out
    ok_miss = (falls and miss is None) or (bool(miss_exprs) and all(is_miss(v) for _, v in miss_exprs))
    ctx.ob("R17.3", f"{fi.qualname} yields {miss!r} when no range matches", ok_miss, f"after the loop: {[norm(s_) for s_, _ in miss_exprs] or 'falls off the end'}", fi, miss_exprs[0][0] if miss_exprs else fi.node, f"{fi.qualname} miss value")


def _first_match_model(ctx: Ctx, fi: FuncInfo, want: str, miss: t.Any, folder: Folder) -> str | None:
    """fi followed statement by statement on a list of three ranges, for each of the 8 subsets of them that match the
    offer (self._value_matches answered by the scenario): it must return the first matching range's pair / quality, and
    ``miss`` when none matches.  Returns a reason when the function cannot be followed."""
    if len(fi.params) < 2:
        return "no offer parameter"
    offer_p = fi.params[1]
    ranges = [("range0", 0.125), ("range1", 0.25), ("range2", 0.375)]
    what = "(range, quality) pair" if want == "pair" else "quality"
    results: dict[tuple[int, ...], tuple[t.Any, t.Any]] = {}
    for bits in range(8):
        hit = tuple(i for i in range(3) if bits >> i & 1)

        def hook(call: ast.Call, ev: Ev, env: dict, fe: FuncEval, hit: tuple = hit):
            if self_call(call, "_value_matches") and len(call.args) == 2 and not call.keywords:
                a, b = ev.val(call.args[0], env), ev.val(call.args[1], env)
                if a == "offer" and isinstance(b, str) and b in ("range0", "range1", "range2"):
                    return int(b[5]) in hit
                return UNK
            return NotImplemented

        res = FuncEval(ctx.repo, folder, fi, params={"self": list(ranges), offer_p: "offer"}, call_hook=hook).concrete()
        if res is None or (res[0] == "return" and res[1] is UNK):
            return f"cannot follow {fi.qualname} statement by statement when ranges {list(hit)} match"
        exp = miss if not hit else ranges[hit[0]] if want == "pair" else ranges[hit[0]][1]
        g = _Sent("an exception") if res[0] == "raise" else tuple(res[1]) if isinstance(res[1], list) else res[1]
        results[hit] = (g, exp)

    def agree(g: t.Any, e: t.Any) -> bool:
        return not isinstance(g, _Sent) and g == e and isinstance(g, bool) == isinstance(e, bool) and (g is None) == (e is None)

    for text, cons, sel in (
        (f"{fi.qualname} yields {miss!r} when no range matches", f"{fi.qualname} miss value", [()]),
        (f"{fi.qualname} returns the matching range's {what}", f"{fi.qualname} returned component", [(0,), (1,), (2,)]),
        (f"{fi.qualname} returns at the first range, in list order, that matches the offer", f"{fi.qualname} first match guard", [(0, 1), (0, 2), (1, 2), (0, 1, 2)]),
    ):
        bad = [f"ranges {list(h)} of [range0, range1, range2] match: returns {results[h][0]!r}, expected {results[h][1]!r}" for h in sel if not agree(*results[h])]
        ctx.ob("R17.3", text, not bad, bad[0] if bad else f"followed statement by statement on {len(sel)} match pattern(s) over three ranges", fi, fi.node, cons)
    return None


def _spec_samples(kind: str) -> list[str]:
    return ["*/*", "text/*", "text/html", "text/html;level=1"] if kind == "mime" else ["*", "en"]


def _eval_method(ctx: Ctx, folder: Folder, fi: FuncInfo, args: dict[str, t.Any]) -> tuple[list[t.Any], bool, FuncEval]:
    fe = FuncEval(ctx.repo, folder, fi, params=args)
    res = fe.concrete()  # the arguments are constants: one path, followed statement by statement
    fe.definite = res is not None and (res[0] == "raise" or res[1] is not UNK)  # type: ignore[attr-defined]
    if fe.definite:  # type: ignore[attr-defined]
        assert res is not None
        return ([res[1]] if res[0] == "return" else []), res[0] == "raise", fe
    # the run could not be followed: a summary over the paths the known values do not exclude (may include paths that
    # no input takes - a verdict other than "every path agrees" is then not a finding)
    rets, raises = fe.outcomes()
    return [v for _, v in rets], raises, fe


def _r173(ctx: Ctx, folder: Folder, accept: ClassInfo, fam: list[ClassInfo]) -> None:
    repo = ctx.repo
    # ---- lookups --------------------------------------------------------------
    for nm, want, miss in (("_best_single_match", "pair", None), ("quality", "quality", 0)):
        fi = accept.methods.get(nm)
        if fi is None:
            raise AnchorMissing(f"Accept.{nm} missing")
        ctx.saw(fi)
        _arbitrate(ctx, lambda: _first_match(ctx, fi, want, miss, folder), lambda: _first_match_model(ctx, fi, want, miss, folder))
    ctx.floor("R17.3", "first-match lookups", 2, 2)
    imm = any(k.name.startswith("Immutable") for k in repo.mro(accept)[1:])
    ctx.ob("R17.3", "Accept is an immutable list (order fixed after construction, see C08)", imm, f"MRO: {[k.name for k in repo.mro(accept)][:5]}", accept.fq, None, "Accept immutable")

    # ---- _specificity ------------------------------------------------------------
    impls: dict[str, tuple[FuncInfo, str]] = {}
    for c in fam:
        _o, w = repo.lookup(c, "_specificity")
        if not isinstance(w, FuncInfo):
            raise AnalysisError(f"{c.name}._specificity does not resolve to a method")
        impls.setdefault(f"{w.fq}|{_kind(ctx, c) == 'mime'}", (w, "mime" if _kind(ctx, c) == "mime" else "generic"))
    spec_value: dict[tuple[str, str], t.Any] = {}
    for _key, (fi, kind) in sorted(impls.items()):
        ctx.saw(fi)
        vp = fi.params[1]
        samples = _spec_samples(kind)
        vals = []
        for s in samples:
            rv, raises, _fe = _eval_method(ctx, folder, fi, {vp: s})
            if raises or len(rv) != 1 or rv[0] is UNK:
                raise AnalysisError(f"{fi.qualname}: cannot evaluate the specificity of {s!r}")
            v = rv[0]
            vals.append(tuple(v) if isinstance(v, list) else v)
            spec_value[(fi.fq, s)] = vals[-1]
        for (s0, v0), (s1, v1) in zip(zip(samples, vals), zip(samples[1:], vals[1:])):
            try:
                ok = bool(v1 > v0)
            except TypeError:
                ok = False
            ctx.ob("R17.3", f"{fi.qualname} ({kind} ranges): {s1!r} is more specific than {s0!r}", ok, f"specificity {v1!r} vs {v0!r}", fi, fi.node, f"{fi.qualname} {kind} {s0} < {s1}")
    ctx.floor("R17.3", "_specificity implementations", len({fi.fq for fi, _ in impls.values()}), 2)
    _specificity_respects_inclusion(ctx, folder, fam)

    # ---- the sort in __init__ ------------------------------------------------------
    init = accept.methods.get("__init__")
    if init is None:
        raise AnchorMissing("Accept.__init__ missing")
    ctx.saw(init)
    _arbitrate(ctx, lambda: _init_sort(ctx, folder, accept, init), lambda: _init_model(ctx, folder, accept, init))


def _shape_family(kind: str) -> tuple[list[str], list[str]]:
    """(client range shapes, concrete offers) of a header family: every combination of wildcard / concrete components,
    for media ranges with no, one and two parameters (written `;p` and `; p`, as a client and as the parser spell them)."""
    if kind == "mime":
        params = ["", ";format=flowed", "; format=flowed; level=1"]
        ranges = [ts + p for ts in ("*/*", "text/*", "text/html") for p in params]
        offers = ["text/html", "text/plain", "image/png", "text/html;format=flowed", "text/plain;format=flowed", "image/png;format=flowed", "text/html;format=flowed;level=1"]
        return ranges, offers
    if kind == "lang":
        return ["*", "en", "en-US"], ["en", "en-US", "de"]
    if kind == "charset":
        return ["*", "utf-8"], ["utf-8", "iso-8859-1"]
    return ["*", "gzip"], ["gzip", "br"]


def _documented_match(kind: str, rng: str, offer: str) -> bool:
    """the documented matching of a range shape (used for a cell of the range x offer table that cannot be evaluated from
    the source, e.g. behind codecs.lookup): a wildcard component matches anything, concrete components match the equal
    case-folded text, media-range parameters count only when type and subtype are both concrete."""
    import re

    if kind != "mime":
        if rng == "*":
            return True
        if kind == "lang":
            return re.split(r"[_-]", rng.lower()) == re.split(r"[_-]", offer.lower())
        return rng.lower() == offer.lower()

    def parts(s: str) -> tuple[str, str, list[str]]:
        p = re.split(r"/|(?:\s*;\s*)", s.lower())
        return p[0], p[1], sorted(p[2:])

    (rt, rs, rp), (ot, os_, op) = parts(rng), parts(offer)
    if rt == "*":
        return rs == "*"
    return rt == ot and (rs == "*" or (rs == os_ and rp == op))


def _specificity_respects_inclusion(ctx: Ctx, folder: Folder, fam: list[ClassInfo]) -> None:
    """The first-match lookups and the tie-break of best_match read `most specific` off the _specificity key alone: a
    range r2 that matches everything a range r1 matches, and more, must never rank above or equal to r1 - otherwise
    r2's q shadows r1's for the offers r1 was written for.  Per Accept class: the matched set of every range shape over
    a family of concrete offers is computed by following the class's own _value_matches, and for every pair with
    M(r1) a non-empty strict subset of M(r2) the class's _specificity must give r1 the strictly greater key."""
    repo = ctx.repo
    done: set[tuple[str, str]] = set()
    n_pairs = 0
    n_shapes = 0
    for c in fam:
        _o, sp = repo.lookup(c, "_specificity")
        _o2, vm = repo.lookup(c, "_value_matches")
        if not isinstance(sp, FuncInfo) or not isinstance(vm, FuncInfo):
            raise AnalysisError(f"{c.name}: _specificity / _value_matches do not resolve to methods")
        kind = _kind(ctx, c)
        if (sp.fq, vm.fq) in done:
            continue
        done.add((sp.fq, vm.fq))
        if len(sp.params) != 2 or len(vm.params) != 3:
            raise AnalysisError(f"{c.name}: expected _specificity(self, range) and _value_matches(self, offer, range)")
        ranges, offers = _shape_family(kind)
        ladder = _spec_samples("mime" if kind == "mime" else "generic")
        spec: dict[str, t.Any] = {}
        matched: dict[str, frozenset[str]] = {}
        by_doc = 0
        for r in ranges:
            rv, raises, _fe = _eval_method(ctx, folder, sp, {sp.params[1]: r})
            if raises or len(rv) != 1 or rv[0] is UNK:
                raise AnalysisError(f"{sp.qualname}: cannot evaluate the specificity of {r!r}")
            spec[r] = tuple(rv[0]) if isinstance(rv[0], list) else rv[0]
            hit = set()
            for o in offers:
                mv, mraises, mfe = _eval_method(ctx, folder, vm, {vm.params[1]: o, vm.params[2]: r})
                truths: set[t.Any] = set()
                for v in mv:
                    try:
                        truths.add(UNK if v is UNK else bool(v))
                    except Exception:
                        truths.add(UNK)
                if mraises or mfe.unknown_tests or len(truths) != 1 or UNK in truths:
                    by_doc += 1
                    yes = _documented_match(kind, r, o)
                else:
                    yes = truths == {True}
                if yes:
                    hit.add(o)
            matched[r] = frozenset(hit)
            n_shapes += 1
        for r1 in ranges:
            for r2 in ranges:
                if not matched[r1] or not matched[r1] < matched[r2]:
                    continue
                if r1 in ladder and r2 in ladder and ladder.index(r1) == ladder.index(r2) + 1:
                    continue  # this pair is a step of the ladder above (same _specificity implementation)
                n_pairs += 1
                v1, v2 = spec[r1], spec[r2]
                try:
                    ok = bool(v1 > v2)
                except TypeError:
                    ok = False
                extra = sorted(matched[r2] - matched[r1])
                ctx.ob("R17.3", f"{sp.qualname} ({kind} ranges of {c.name}): {r1!r} is more specific than {r2!r}, which matches every offer {r1!r} matches and others",
                       ok, f"specificity {v1!r} vs {v2!r}; {r1!r} matches {sorted(matched[r1])}, {r2!r} matches these and {extra[:3]}{' ...' if len(extra) > 3 else ''}"
                       + (f" ({by_doc} cell(s) of the {c.name} range x offer table taken from the documented matching)" if by_doc else ""),
                       sp, sp.node, f"{sp.qualname} {kind} subsumed {r2} < {r1}")
    ctx.floor("R17.3", "range shapes with a matched set", n_shapes, 12)
    ctx.floor("R17.3", "range pairs ordered by inclusion of their matched sets", n_pairs, 4)


def _init_model(ctx: Ctx, folder: Folder, accept: ClassInfo, init: FuncInfo) -> str | None:
    """Accept.__init__ followed statement by statement on every arrangement of a sample of (range, quality) pairs that
    is not an Accept already: what it hands to the list constructor must be those pairs, more specific ranges first,
    higher quality first among equally specific ones, and otherwise in the given order.  Returns a reason when the
    function cannot be followed."""
    import itertools

    repo = ctx.repo
    if len(init.params) < 2:
        return "no values parameter"
    values_p = init.params[1]
    SPEC = {"*": (False,), "en": (True,), "de": (True,), "fr": (True,)}
    sample = [("*", 1.0), ("en", 0.5), ("de", 0.5), ("fr", 0.75), ("*", 0.25)]
    bad: dict[str, str] = {}
    n = 0
    for perm in itertools.permutations(sample):
        stored: list[t.Any] = []

        def hook(call: ast.Call, ev: Ev, env: dict, fe: FuncEval):
            f = call.func
            if self_call(call, "_specificity") and len(call.args) == 1 and not call.keywords:
                a = ev.val(call.args[0], env)
                return SPEC.get(a, UNK) if isinstance(a, str) else UNK
            if isinstance(f, ast.Attribute) and f.attr == "__init__" and isinstance(f.value, ast.Call) and dotted(f.value.func) == "super" and not f.value.args and not call.keywords:
                stored.append([ev.val(a, env) for a in call.args])
                return None
            if astq.is_name(f, "isinstance") and len(call.args) == 2 and not call.keywords:
                fq = repo.resolve(init.module, dotted(call.args[1]) or "?")
                k = repo.try_cls(fq) if fq and fq.startswith("werkzeug") else None
                if k is not None and isinstance(ev.val(call.args[0], env), (list, tuple)):
                    return False  # the sample is a plain list of pairs
                return UNK
            return NotImplemented

        res = FuncEval(repo, folder, init, params={values_p: list(perm)}, call_hook=hook).concrete()
        if res is None or res[0] != "return" or len(stored) != 1 or len(stored[0]) != 1 or not isinstance(stored[0][0], (list, tuple)):
            return f"cannot follow Accept.__init__ statement by statement on {list(perm)}" + (f" (list constructor called {len(stored)} times)" if res is not None else "")
        n += 1
        got = [tuple(x) if isinstance(x, list) else x for x in stored[0][0]]
        shown = f"given {list(perm)} the list becomes {got}"
        if sorted(map(repr, got)) != sorted(map(repr, perm)):
            bad.setdefault("sort input", shown + ": not the given pairs")
            continue
        for i, j in itertools.combinations(range(len(got)), 2):
            a, b = got[i], got[j]
            if SPEC[b[0]] > SPEC[a[0]]:
                bad.setdefault("sort specificity major", shown + f": {b} comes after the less specific {a}")
            elif SPEC[b[0]] == SPEC[a[0]] and b[1] > a[1]:
                bad.setdefault("sort quality minor", shown + f": {b} comes after {a}, equally specific and of lower quality")
            elif SPEC[b[0]] == SPEC[a[0]] and b[1] == a[1] and perm.index(b) < perm.index(a):
                bad.setdefault("sort ties", shown + f": {a} and {b} rank equally but are not in the client's order")
    fine = f"{n} arrangements of {sample} followed statement by statement"
    ctx.ob("R17.3", "the sort covers the given values", "sort input" not in bad, bad.get("sort input", fine), init, init.node, "sort input")
    ctx.ob("R17.3", "sort order: a more specific range precedes a wildcard of higher quality", "sort specificity major" not in bad, bad.get("sort specificity major", fine), init, init.node, "sort specificity major")
    ctx.ob("R17.3", "sort order: among equally specific ranges the higher quality comes first", "sort quality minor" not in bad, bad.get("sort quality minor", fine), init, init.node, "sort quality minor")
    ctx.ob("R17.3", "sort order: ranges of equal specificity and quality keep the client's order", "sort ties" not in bad, bad.get("sort ties", fine), init, init.node, "sort ties")
    return None


def _init_sort(ctx: Ctx, folder: Folder, accept: ClassInfo, init: FuncInfo) -> None:
    repo = ctx.repo
    fe = FuncEval(repo, folder, init)
    cfg, rd = fe.cfg, fe.rd
    values_p = init.params[1] if len(init.params) > 1 else None
    sorts = [c for c in astq.calls(init.node) if (isinstance(c.func, ast.Name) and c.func.id == "sorted") or (isinstance(c.func, ast.Attribute) and c.func.attr == "sort")]
    if len(sorts) != 1 or values_p is None:
        raise AnalysisError(f"Accept.__init__: expected exactly one sorted(...) / <list>.sort(...) call, found {[norm(c.func) for c in sorts]} (sort slot)")
    sc = sorts[0]
    sort_node = cfg.node_of(sc)
    assert sort_node is not None
    in_place: t.Any = None  # (name of the list sorted in place, its definition)
    if isinstance(sc.func, ast.Name):
        ctx.ob("R17.3", "the sort covers the given values", bool(sc.args) and _in_order(sc.args[0], values_p), f"`sorted({norm(sc.args[0]) if sc.args else ''}, ...)`", init, sc, "sort input")
    else:
        # <name>.sort(...): list.sort is the same stable sort; the name must be a fresh list of the values that nothing else reorders
        recv = sc.func.value  # type: ignore[attr-defined]
        ds = rd.reaching(sort_node, recv.id) if isinstance(recv, ast.Name) else frozenset()
        dl = next(iter(ds)) if len(ds) == 1 else None
        if dl is None or not _plain(dl) or sc.args:
            raise AnalysisError(f"Accept.__init__: receiver of `{norm(sc)}` is not a local list with one definition (sort slot)")
        in_place = (recv.id, dl)  # type: ignore[union-attr]
        v = dl.value
        fresh = (isinstance(v, ast.Call) and astq.is_name(v.func, "list") and len(v.args) == 1 and not v.keywords and _in_order(v.args[0], values_p)) or (
            isinstance(v, ast.List) and len(v.elts) == 1 and isinstance(v.elts[0], ast.Starred) and _in_order(v.elts[0].value, values_p)) or (
            isinstance(v, (ast.ListComp,)) and len(v.generators) == 1 and not v.generators[0].ifs and _in_order(v.generators[0].iter, values_p) and isinstance(v.generators[0].target, ast.Name) and astq.is_name(v.elt, v.generators[0].target.id))
        ctx.ob("R17.3", "the sort covers the given values", bool(fresh), f"`{norm(dl.stmt)}` then `{norm(sc)}`", init, sc, "sort input")
        touched = [c for c in astq.calls(init.node) if c is not sc and isinstance(c.func, ast.Attribute) and astq.is_name(c.func.value, recv.id) and c.func.attr in ("sort", "reverse", "insert", "append", "extend", "pop", "remove", "clear", "__setitem__", "__delitem__")]  # type: ignore[union-attr]
        touched += [x for x in ast.walk(init.node) if isinstance(x, (ast.Subscript,)) and isinstance(x.ctx, (ast.Store, ast.Del)) and astq.is_name(x.value, recv.id)]  # type: ignore[union-attr]
        touched += [x for x in ast.walk(init.node) if isinstance(x, ast.AugAssign) and astq.is_name(x.target, recv.id)]  # type: ignore[union-attr]
        if touched:
            raise AnalysisError(f"Accept.__init__: `{recv.id}` is also modified by `{norm(touched[0])}` (sort slot)")  # type: ignore[union-attr]
    key = astq.kwarg(sc, "key")
    rev_e = astq.kwarg(sc, "reverse")
    rev = Ev(lambda nm: UNK).val(rev_e) if rev_e is not None else False
    if rev is UNK:
        raise AnalysisError("Accept.__init__: `reverse=` is not a constant")
    SPEC = {"*": (False,), "en": (True,), "de": (True,)}

    def key_of(item: tuple[str, float]) -> t.Any:
        def hook(call: ast.Call, ev: Ev, env: dict, _fe: t.Any = None):
            if self_call(call, "_specificity") and len(call.args) == 1:
                a = ev.val(call.args[0], env)
                return SPEC.get(a, UNK) if isinstance(a, str) else UNK
            return NotImplemented

        if key is None:
            return item
        if isinstance(key, ast.Lambda) and len(key.args.args) == 1:
            return Ev(lambda nm: UNK, hook).val(key.body, {key.args.args[0].arg: item})
        sub = None
        if isinstance(key, ast.Attribute) and astq.is_name(key.value, "self"):
            _o, w = repo.lookup(accept, key.attr)
            if isinstance(w, FuncInfo) and len(w.params) == 2:
                sub = FuncEval(repo, folder, w, params={w.params[1]: item}, call_hook=lambda c, e, env, f: hook(c, e, env))
        elif isinstance(key, ast.Name):
            fn = nested_funcs(init.node).get(key.id)
            if fn is not None and len(fn.args.args) == 1 and not rd.reaching(sort_node, key.id) - {d for d in rd.reaching(sort_node, key.id) if d.kind == "def"}:
                sub = FuncEval(repo, folder, init, fn=fn, params={fn.args.args[0].arg: item}, call_hook=lambda c, e, env, f: hook(c, e, env))
        if sub is not None:
            res = sub.concrete()
            if res is not None and res[0] == "return":
                return res[1]
            rv, raises = sub.outcomes()
            if not raises and len(rv) == 1:
                return rv[0][1]
        return UNK

    def before(a: tuple[str, float], b: tuple[str, float]) -> t.Any:
        ka, kb = key_of(a), key_of(b)
        if ka is UNK or kb is UNK:
            raise AnalysisError(f"Accept.__init__: cannot evaluate the sort key `{norm(key) if key is not None else None}`")
        try:
            return (ka > kb) if rev else (ka < kb)
        except TypeError:
            return False

    def tie(a: tuple[str, float], b: tuple[str, float]) -> bool:
        ka, kb = key_of(a), key_of(b)
        if ka is UNK or kb is UNK:
            raise AnalysisError("Accept.__init__: cannot evaluate the sort key")
        return bool(ka == kb)

    kt = f"key=`{norm(key) if key is not None else None}`, reverse={rev}"
    ctx.ob("R17.3", "sort order: a more specific range precedes a wildcard of higher quality", before(("en", 0.1), ("*", 1.0)) is True and before(("*", 1.0), ("en", 0.1)) is False, kt, init, sc, "sort specificity major")
    ctx.ob("R17.3", "sort order: among equally specific ranges the higher quality comes first", before(("de", 0.7), ("en", 0.5)) is True and before(("en", 0.5), ("de", 0.7)) is False, kt, init, sc, "sort quality minor")
    ctx.ob("R17.3", "sort order: ranges of equal specificity and quality compare equal (client order decides)", tie(("en", 0.5), ("de", 0.5)), kt, init, sc, "sort ties")

    # the sorted list is what is stored; anything else stored is already an Accept
    supers = [c for c in astq.calls(init.node) if isinstance(c.func, ast.Attribute) and c.func.attr == "__init__" and isinstance(c.func.value, ast.Call) and dotted(c.func.value.func) == "super" and c.args]
    if not supers:
        raise AnalysisError("Accept.__init__: no super().__init__(<values>) call (store slot)")
    stored_sorted = 0
    for c in supers:
        node = cfg.node_of(c)
        assert node is not None
        arg = c.args[0]
        direct = arg is sc
        via = False
        if isinstance(arg, ast.Name) and in_place is None:
            ds = rd.reaching(node, arg.id)
            via = len(ds) == 1 and next(iter(ds)).value is sc and next(iter(ds)).kind == "assign"
        elif isinstance(arg, ast.Name) and arg.id == in_place[0]:
            via = set(rd.reaching(node, arg.id)) == {in_place[1]} and cfg.node_dominates(sort_node, node)
        if direct or via:
            stored_sorted += 1
            ctx.ob("R17.3", "the stable sorted() result is stored as is", True, f"`{norm(c)}` receives the sorted list", init, c, "sorted list stored")
            continue
        # otherwise: does a definition derived from the sort reach (slice / reversed copy)?
        derived = isinstance(arg, ast.Name) and any(d.value is not None and any(x is sc for x in ast.walk(d.value)) for d in rd.reaching(node, arg.id))
        derived = derived or any(x is sc for x in ast.walk(arg))
        if in_place is not None:
            uses = lambda e: any(astq.is_name(x, in_place[0]) for x in ast.walk(e))  # noqa: E731
            derived = uses(arg) or (isinstance(arg, ast.Name) and any(d.value is not None and uses(d.value) for d in rd.reaching(node, arg.id)))
        if derived:
            stored_sorted += 1
            ctx.ob("R17.3", "the stable sorted() result is stored as is", False, f"`{norm(c)}` receives a value computed from the sorted list (re-ordered or sliced): ties no longer keep client order", init, c, "sorted list stored")
            continue
        guarded = False
        for tn, lb in cfg.guards(node):
            a = tn.ast
            if lb == "T" and isinstance(a, ast.Call) and astq.is_name(a.func, "isinstance") and len(a.args) == 2 and norm(a.args[0]) == norm(arg):
                fq = repo.resolve(init.module, dotted(a.args[1]) or "?")
                k = repo.try_cls(fq) if fq and fq.startswith("werkzeug") else None
                guarded = k is not None and any(x.fq == accept.fq for x in repo.mro(k))
        ctx.ob("R17.3", f"`{norm(c)}` stores unsorted input only when it already is an Accept", guarded, "guarded by isinstance(<values>, Accept)" if guarded else "an unsorted iterable reaches the list", init, c, f"unsorted store {norm(c)}")
    ctx.ob("R17.3", "the sorted list reaches the list constructor", stored_sorted >= 1, f"{stored_sorted} super().__init__ call(s) fed from sorted()", init, sc, "sorted reaches store")


# =====================================================================
# R17.4

# (client range, offer, expected)
_SCEN = {
    "generic": [("*", "gzip", True), ("*", "X-Any", True), ("gzip", "GZIP", True), ("GZip", "gzip", True), ("gzip", "br", False), ("gzip", "*", False)],
    "lang": [("*", "en-US", True), ("*", "de", True), ("en-US", "en_us", True), ("EN", "en", True), ("en", "de", False), ("en", "en-US", False), ("en-GB", "en-US", False), ("en", "*", False)],
    "charset": [("*", "utf-8", True), ("*", "x-unknown", True)],
    "mime": [
        ("*/*", "text/html", True), ("*/*", "text/html;level=1", True), ("text/*", "text/html", True), ("text/*", "text/html;level=1", True), ("TEXT/*", "text/HTML", True),
        ("text/*", "image/png", False), ("text/html", "text/html", True), ("Text/HTML", "text/html", True), ("text/html", "text/plain", False), ("text/html", "image/html", False),
        ("text/html;level=1", "text/html;level=1", True), ("text/html;level=1", "text/html;level=2", False), ("text/html;level=1", "text/html", False), ("image/png", "text/html", False),
        # parameters are a set: the order in which range and offer spell them does not matter (RFC 9110 8.3.1)
        ("text/html;level=1;charset=utf-8", "text/html;charset=utf-8;level=1", True), ("text/html;charset=utf-8;level=1", "text/html;level=1;charset=utf-8", True),
        ("text/html;level=1;charset=utf-8", "text/html;charset=utf-8;level=2", False),
    ],
}
_MANDATORY = {"generic": 2, "lang": 2, "charset": 2, "mime": 5}  # leading entries of each table: the wildcard scenarios


def _r174(ctx: Ctx, folder: Folder, accept: ClassInfo, fam: list[ClassInfo]) -> None:
    repo = ctx.repo
    impls: dict[str, tuple[FuncInfo, str]] = {}
    for c in fam:
        _o, w = repo.lookup(c, "_value_matches")
        if not isinstance(w, FuncInfo):
            raise AnalysisError(f"{c.name}._value_matches does not resolve to a method")
        impls.setdefault(w.fq, (w, _kind(ctx, c)))
    ctx.floor("R17.4", "_value_matches implementations", len(impls), 4)
    decided = 0
    agree = 0
    non_mime = 0
    for _fq, (fi, kind) in sorted(impls.items()):
        ctx.saw(fi)
        if len(fi.params) != 3:
            raise AnalysisError(f"{fi.qualname}: expected (self, offer, range)")
        vp, ip = fi.params[1], fi.params[2]
        for i, (item, value, expect) in enumerate(_SCEN[kind]):
            rv, raises, fe = _eval_method(ctx, folder, fi, {vp: value, ip: item})
            truths = set()
            for v in rv:
                try:
                    truths.add(UNK if v is UNK else bool(v))
                except Exception:
                    truths.add(UNK)
            mandatory = i < _MANDATORY[kind]
            got = "/".join(sorted("undecided" if x is UNK else str(x) for x in truths)) + (" or raises" if raises else "") or "raises"
            if mandatory:
                # the wildcard must be accepted on its own: on every path feasible for this input, whatever the normalised comparison yields
                ok = truths == {True} and not raises
                if not ok and not fe.definite and kind == "charset":  # type: ignore[attr-defined]
                    # undecided because the comparison goes through the codec registry: the same input with codecs.lookup
                    # answered from the table ('*' is no codec label) - a wildcard accepted on its own never gets there
                    res = _run_with_registry(repo, folder, fi, {vp: value, ip: item}, _registry_hook(repo))
                    if res is not None:
                        fe.definite = True  # type: ignore[attr-defined]
                        try:
                            ok = res[0] == "return" and bool(res[1]) is True
                        except Exception:
                            ok = False
                        got = f"{'raises ' + str(res[1]) if res[0] == 'raise' else bool(res[1])} once codecs.lookup is answered from the registry table (without it: {got})"
                if not ok and not fe.definite:  # type: ignore[attr-defined]
                    raise AnalysisError(f"{fi.qualname}: cannot follow the method on wildcard range {item!r} and offer {value!r} (path summary: {got}); whether the wildcard is accepted on its own is not decided")
                decided += 1
                ctx.ob("R17.4", f"{fi.qualname}: wildcard range {item!r} matches offer {value!r} before any normalised comparison", ok, f"evaluates to {got}", fi, fi.node, f"{fi.qualname} {item} vs {value}")
                continue
            if UNK in truths or fe.unknown_tests:
                continue  # needs a normaliser this evaluator cannot compute (codecs.lookup): covered by the agreement clause below
            ok = truths == {expect} and not raises
            if not ok and not fe.definite:  # type: ignore[attr-defined]
                continue  # a path summary that disagrees may include paths no input takes: not a finding (the floor below counts decided scenarios)
            decided += 1
            ctx.ob("R17.4", f"{fi.qualname}: range {item!r} {'matches' if expect else 'does not match'} offer {value!r}", ok, f"evaluates to {got}", fi, fi.node, f"{fi.qualname} {item} vs {value}")
        if kind == "charset":
            decided += _charset_registry_scenarios(ctx, folder, fi, vp, ip)
        if kind != "mime":
            # both operands of an equality that involves the offer and the range go through the same normaliser
            non_mime += 1
            found = _agreements(ctx, folder, fi, vp, ip, 0)
            if not found:
                raise AnalysisError(f"{fi.qualname}: no equality comparison between the offer and the range found, here or in a helper it hands both to (normaliser slot)")
            for where_fi, cmpn, l, r in found:
                agree += 1
                same = ast.dump(l) == ast.dump(r)
                ctx.ob("R17.4", f"{fi.qualname}: offer and range are compared under the same normaliser", same, f"`{norm(cmpn)}`" + (f" in {where_fi.qualname}" if where_fi is not fi else "") + f": offer side `{norm(l)}`, range side `{norm(r)}` (`_` = the value compared)", fi, cmpn, f"{fi.qualname} normaliser agreement")
    ctx.floor("R17.4", "decided match scenarios", decided, 30)
    ctx.floor("R17.4", "offer/range equality comparisons", agree, max(non_mime, 1))


# the codec registry as documented (codecs.lookup: case-insensitive, aliases share one canonical name, LookupError for a
# label it does not know): the answers a scenario gives for codecs.lookup(<label>)
_CODECS = {"utf-8": "utf-8", "utf8": "utf-8", "u8": "utf-8", "latin1": "iso8859-1", "latin-1": "iso8859-1", "iso-8859-1": "iso8859-1", "ascii": "ascii", "us-ascii": "ascii"}
# (client range, offer, expected, what the pair stands for); labels absent from _CODECS are unknown to the registry
_CHARSET_SCEN = [
    ("utf-8", "utf-8", True, "same label, codec found"),
    ("UTF-8", "utf-8", True, "case differs, codec found"),
    ("utf8", "UTF-8", True, "alias of the same codec"),
    ("latin1", "ISO-8859-1", True, "alias of the same codec"),
    ("utf-8", "latin1", False, "different codecs"),
    ("us-ascii", "utf-8", False, "different codecs"),
    ("x-user-defined", "x-user-defined", True, "same label, no codec (LookupError on both sides)"),
    ("X-User-Defined", "x-user-defined", True, "case differs, no codec (LookupError on both sides)"),
    ("iso-2022-cn", "ISO-2022-CN", True, "case differs, no codec (LookupError on both sides)"),
    ("x-user-defined", "x-other", False, "different labels, no codec"),
    ("utf-8", "x-user-defined", False, "codec found for the range only"),
    ("X-User-Defined", "utf-8", False, "codec found for the offer only"),
]


def _registry_hook(repo: Repo) -> t.Callable[..., t.Any]:
    """call hook answering `codecs.lookup(<label>)` from the table of sample labels (_CODECS): a record with the canonical
    .name, or LookupError raised in the run (:class:`Raised`)."""
    def hook(call: ast.Call, ev: Ev, env: dict, fe: FuncEval):
        d = dotted(call.func)
        fq = repo.resolve(fe.fi.module, d, fe.fi.module.local_imports(fe.fi.node)) if d else None
        if fq != "codecs.lookup" or len(call.args) != 1 or call.keywords:
            return NotImplemented
        if isinstance(call.func, ast.Name) and (call.func.id in env or (ev.node is not None and fe.rd.reaching(ev.node, call.func.id))):
            return NotImplemented  # a local binding shadows the import
        a = ev.val(call.args[0], env)
        if not isinstance(a, str):
            return UNK
        canon = _CODECS.get(a.lower())
        if canon is None:
            raise Raised("LookupError")
        return Obj(name=canon)

    return hook


def _run_with_registry(repo: Repo, folder: Folder, fi: FuncInfo, params: dict[str, t.Any], hook: t.Callable[..., t.Any]) -> tuple[str, t.Any] | None:
    """one statement-by-statement run of fi with codecs.lookup answered by the registry table: ("return", value) /
    ("raise", exception name or None); None when the run cannot be followed to a known result."""
    fe = FuncEval(repo, folder, fi, params=params, call_hook=hook)
    fe.raising = True
    try:
        res = fe.concrete()
    except Raised as sig:
        res = ("raise", sig.exc)
    if res is None or (res[0] == "return" and res[1] is UNK):
        return None
    return res


def _charset_registry_scenarios(ctx: Ctx, folder: Folder, fi: FuncInfo, vp: str, ip: str) -> int:
    """CharsetAccept._value_matches followed statement by statement on charset labels with every call of codecs.lookup
    answered by the scenario on BOTH of its outcomes - a codec is found (a record whose .name is the canonical name,
    the same for every spelling and alias of the label) or LookupError is raised (the label is not in the registry) -
    so that each path of the normaliser, the handler's included, has to produce a case-insensitive, alias-free form.
    Charset names are case-insensitive whether or not Python ships a codec for them."""
    repo = ctx.repo
    hook = _registry_hook(repo)
    n = 0
    for item, value, expect, what in _CHARSET_SCEN:
        res = _run_with_registry(repo, folder, fi, {vp: value, ip: item}, hook)
        if res is None:
            raise AnalysisError(f"{fi.qualname}: cannot follow the comparison of range {item!r} with offer {value!r} statement by statement (codecs.lookup answered by the scenario: "
                                f"{'codec ' + _CODECS[item.lower()] if item.lower() in _CODECS else 'LookupError'} / {'codec ' + _CODECS[value.lower()] if value.lower() in _CODECS else 'LookupError'})")
        if res[0] == "raise":
            ok, got = False, f"raises{' ' + res[1] if res[1] else ''}"
        else:
            try:
                ok, got = bool(res[1]) == expect, f"evaluates to {bool(res[1])}"
            except Exception:
                raise AnalysisError(f"{fi.qualname}: result of comparing {item!r} with {value!r} has no truth value")
        n += 1
        ctx.ob("R17.4", f"{fi.qualname}: range {item!r} {'matches' if expect else 'does not match'} offer {value!r} ({what})", ok,
               f"{got} with codecs.lookup answered as documented ({item!r}: {'codec ' + repr(_CODECS[item.lower()]) if item.lower() in _CODECS else 'LookupError'}, {value!r}: {'codec ' + repr(_CODECS[value.lower()]) if value.lower() in _CODECS else 'LookupError'})",
               fi, fi.node, f"{fi.qualname} {item} vs {value}")
    ctx.floor("R17.4", "charset scenarios with the codec registry answered on both outcomes", n, len(_CHARSET_SCEN))
    return n


def _mapped_elt(d: t.Any) -> ast.AST | None:
    """for `a, b = map(f, (x, y))` / `a, b = [f(v) for v in (x, y)]` / `a, b = (f(v) for v in (x, y))` the expression
    bound to d's name: f applied to the element at d's position (one function over a literal tuple of as many
    elements as there are plain names on the left)."""
    tg = getattr(d.stmt, "targets", None)
    tgt = tg[0] if tg and len(tg) == 1 else None
    v = d.value
    if not isinstance(tgt, (ast.Tuple, ast.List)) or d.index is None or any(not isinstance(x, ast.Name) for x in tgt.elts):
        return None
    if isinstance(v, ast.Call) and isinstance(v.func, ast.Name) and v.func.id in ("list", "tuple") and len(v.args) == 1 and not v.keywords:
        v = v.args[0]
    if isinstance(v, ast.Call) and isinstance(v.func, ast.Name) and v.func.id == "map" and len(v.args) == 2 and not v.keywords:
        f, seq = v.args
        if isinstance(seq, (ast.Tuple, ast.List)) and len(seq.elts) == len(tgt.elts) and not any(isinstance(x, ast.Starred) for x in seq.elts) and isinstance(f, (ast.Name, ast.Attribute)):
            return ast.copy_location(ast.Call(func=f, args=[seq.elts[d.index]], keywords=[]), v)
        return None
    if isinstance(v, (ast.ListComp, ast.GeneratorExp)) and len(v.generators) == 1:
        g = v.generators[0]
        seq = g.iter
        if (g.ifs or g.is_async or not isinstance(g.target, ast.Name) or not isinstance(seq, (ast.Tuple, ast.List)) or len(seq.elts) != len(tgt.elts)
                or any(isinstance(x, ast.Starred) for x in seq.elts)):
            return None
        var, arg = g.target.id, seq.elts[d.index]
        if any(isinstance(x, (ast.Lambda, ast.NamedExpr, ast.ListComp, ast.GeneratorExp, ast.SetComp, ast.DictComp)) for x in ast.walk(v.elt)):
            return None

        class S(ast.NodeTransformer):
            def visit_Name(self, n: ast.Name) -> ast.AST:
                return ast.parse(ast.unparse(arg), mode="eval").body if n.id == var and isinstance(n.ctx, ast.Load) else n

        return ast.copy_location(S().visit(ast.parse(ast.unparse(v.elt), mode="eval").body), v)
    return None


def _expanded(fe: FuncEval, e: ast.AST, node: Node | None, mp: dict[str, str], depth: int = 0) -> ast.AST:
    """copy of e in which every local that has one plain definition is replaced by that definition's value (followed a
    few levels), and the names in ``mp`` are renamed."""
    class T(ast.NodeTransformer):
        def visit_Name(self, n: ast.Name) -> ast.AST:
            if isinstance(n.ctx, ast.Load) and node is not None and depth < 5:
                ds = fe.rd.reaching(node, n.id)
                if len(ds) == 1:
                    d = next(iter(ds))
                    v = d.value if _plain(d) else (FuncEval._literal_elt(d) or _mapped_elt(d)) if d.kind == "unpack" else None
                    if v is not None:
                        return _expanded(fe, v, d.node, mp, depth + 1)
            return ast.copy_location(ast.Name(id=mp.get(n.id, n.id), ctx=n.ctx), n)

        def visit_NamedExpr(self, n: ast.NamedExpr) -> ast.AST:
            return self.visit(n.value)

    # a fresh parse instead of deepcopy (engine ASTs carry parent links); names are looked up by id at ``node``
    return T().visit(ast.parse(ast.unparse(e), mode="eval").body)


def _agreements(ctx: Ctx, folder: Folder, fi: FuncInfo, vp: str, ip: str, depth: int) -> list[tuple[FuncInfo, ast.Compare, ast.AST, ast.AST]]:
    """equality comparisons in fi with the offer (parameter vp) on one side and the range (ip) on the other, locals
    expanded: (function, comparison, offer side, range side) with both parameters renamed to `_`.  When fi has none,
    the helpers (same module, or methods nobody overrides) that receive both parameters are searched the same way."""
    fe = FuncEval(ctx.repo, folder, fi)
    out: list[tuple[FuncInfo, ast.Compare, ast.AST, ast.AST]] = []
    for cmpn in [n for n in walk_no_nested(fi.node) if isinstance(n, ast.Compare) and len(n.ops) == 1 and isinstance(n.ops[0], (ast.Eq, ast.NotEq))]:
        node = fe.cfg.node_of(cmpn)
        sides = []
        for e in (cmpn.left, cmpn.comparators[0]):
            x = _expanded(fe, e, node, {})
            sides.append((astq.names_in(x) & {vp, ip}, _expanded(fe, e, node, {vp: "_", ip: "_"})))
        (ln, l), (rn, r) = sides
        if len(ln) == 1 and len(rn) == 1 and ln != rn:
            out.append((fi, cmpn, l, r) if ln == {vp} else (fi, cmpn, r, l))
    if out or depth >= 1:
        return out
    for c in astq.calls(fi.node, nested=False):
        if c.keywords or not all(isinstance(a, ast.Name) for a in c.args):
            continue
        ids = [a.id for a in c.args]  # type: ignore[attr-defined]
        if vp not in ids or ip not in ids:
            continue
        h = _module_helper(fi, fe, fe.cfg.node_of(c), c)
        names = h.params if h is not None else []
        if h is None and isinstance(c.func, ast.Attribute) and astq.is_name(c.func.value, "self") and fi.cls is not None:
            h = sole_method(ctx.repo, fi.cls, c.func.attr)
            names = h.params[1:] if h is not None and h.params else []
        if h is None or len(names) != len(ids):
            continue
        ctx.saw(h)
        out += _agreements(ctx, folder, h, names[ids.index(vp)], names[ids.index(ip)], depth + 1)
    return out
