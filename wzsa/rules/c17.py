"""C17 - content negotiation picks a best-quality, most-specific offer (structural clauses).

R17.1 the q filter of http.parse_accept_header, R17.2 the selection loop of Accept.best_match and the staged
fallbacks of LanguageAccept.best_match, R17.3 the order of the list (sort key, stability, first-match lookups,
specificity), R17.4 wildcard acceptance and normaliser agreement of every _value_matches.
"""

from __future__ import annotations

import ast
import typing as t

from .. import astq
from ..cfg import Node, cfg_of
from ..fold import Folder, Unfoldable
from ..loader import AnalysisError, AnchorMissing, ClassInfo, FuncInfo, dotted, norm, walk_no_nested
from ..report import Ctx
from ._c17_helpers import UNK, Ev, FuncEval, Lang, crosscheck, fold_regex_expr, self_call

LEVEL_TEXT = (
    "Static decision of structural clauses of C17 on /repo's current source. (R17.1) In http.parse_accept_header every "
    "quality that reaches result.append((item, q)) is either a constant in [0,1] (1 when the q parameter is absent) or "
    "float() of a text that a dominating pattern test accepted; the pattern's language (DFA built from the folded "
    "regex, cross-checked against the re engine) contains only plain ASCII decimal numerals, contains every RFC 9110 "
    "qvalue with a fraction, and for each of the value ranges q<0, q=0, 0<q<1, q=1, q>1 that the language inhabits the "
    "branch conditions between the conversion and the append (evaluated at one sample per range, exact for comparisons "
    "of q with constants) drop the item exactly when it is outside [0,1]. (R17.2) In Accept.best_match the chosen "
    "offer is replaced, on every path of the loop body, exactly when a client range matched, its quality is > 0 and "
    "(quality > best quality, or quality == best quality and specificity > best specificity): decided by evaluating the "
    "loop's branch conditions for all 18 order scenarios (q = 0 | q > 0) x (q vs best q) x (specificity vs best), plus the "
    "first-candidate scenarios with the initial state; the best-so-far state is updated together with the choice; "
    "offers are visited in caller order; the default is returned otherwise; LanguageAccept.best_match stages its "
    "fallbacks, each through Accept.best_match with the client's q kept, returns only the default or an offer that a stage "
    "selected, and maps a negotiated primary tag back to an offer carrying exactly that tag (evaluated on sample offer "
    "lists with 2- and 3-letter primary tags). (R17.3) Accept.__init__ stores the result of "
    "one stable sorted() whose effective order is specificity (major), quality (minor), ties in client order; "
    "_best_single_match / quality return the first range in list order whose _value_matches(offer, range) holds; "
    "every _specificity ranks wildcards below concrete values; parse_accept_header only appends. (R17.4) every "
    "_value_matches accepts the wildcard range(s) of its family and compares both operands under the same normaliser "
    "(scenario tables per family). NOT decided: optimality of the negotiated offer over all headers and offer lists as "
    "a whole (it follows from these clauses together with list immutability, C08 R8.1, which is not re-checked here), "
    "the charset alias table of the codecs module, and media-range parameter semantics beyond the scenario table."
)
TRUSTED = [
    "CPython ast and re._parser (pattern syntax trees); the re engine run on folded patterns against constant sample strings",
    "Python semantics of sorted(..., reverse=True): stable, equal keys keep input order",
    "float() of an ASCII decimal numeral [+-]?(D+(.D*)?|.D+) returns its rounded decimal value and never raises",
    "RFC 9110 section 12.4.2 qvalue grammar embedded as a constant",
]
ASSUMPTIONS = [
    "Accept lists are not reordered after construction (ImmutableList, property C08)",
    "scenario samples stand for order classes: branch conditions in the analysed loops are order comparisons between the scenario's quantities (anything else is treated as unknown and keeps both branches)",
    "offers passed by the application are concrete values (no wildcards)",
]

# value classes of plain decimal numerals (re.ASCII)
REF_PAT = r"[+-]?(\d+(\.\d*)?|\.\d+)"
RFCQ_PAT = r"0(\.\d{1,3})?|1(\.0{1,3})?"
NEG_PAT = r"-[0-9.]*[1-9][0-9.]*"
ZERO_PAT = r"[+-]?(0+(\.0*)?|\.0+)"
ONE_PAT = r"\+?0*1(\.0*)?"
GT1_PAT = r"\+?0*([2-9]|[1-9]\d)\d*(\.\d*)?|\+?0*1\.\d*[1-9]\d*"

ACCEPT_FQ = "datastructures.accept.Accept"


class _Sent:
    def __init__(self, name: str):
        self.name = name

    def __repr__(self) -> str:
        return f"<{self.name}>"


def _inside(node: ast.AST | None, outer: ast.AST) -> bool:
    cur = node
    while cur is not None:
        if cur is outer:
            return True
        cur = getattr(cur, "_parent", None)
    return False


def _in_order(e: ast.AST | None, name: str) -> bool:
    """e iterates ``name`` in its own order: the name itself, or list()/tuple()/iter() of it, or a full slice."""
    if astq.is_name(e, name):
        return True
    if isinstance(e, ast.Call) and isinstance(e.func, ast.Name) and e.func.id in ("list", "tuple", "iter") and len(e.args) == 1 and not e.keywords:
        return _in_order(e.args[0], name)
    if isinstance(e, ast.Subscript) and isinstance(e.slice, ast.Slice) and e.slice.lower is None and e.slice.upper is None and e.slice.step is None:
        return _in_order(e.value, name)
    return False


def _num_const(e: ast.AST | None) -> float | int | None:
    if isinstance(e, ast.UnaryOp) and isinstance(e.op, (ast.USub, ast.UAdd)):
        v = _num_const(e.operand)
        if v is None:
            return None
        return -v if isinstance(e.op, ast.USub) else v
    if isinstance(e, ast.Constant) and isinstance(e.value, (int, float)) and not isinstance(e.value, bool):
        return e.value
    return None


def _family(ctx: Ctx) -> tuple[ClassInfo, list[ClassInfo]]:
    accept = ctx.repo.cls(ACCEPT_FQ)
    fam = [accept] + sorted(ctx.repo.subclasses(accept.fq), key=lambda c: c.fq)
    return accept, fam


def _kind(ctx: Ctx, c: ClassInfo) -> str:
    names = [k.name for k in ctx.repo.mro(c)]
    for nm, kind in (("MIMEAccept", "mime"), ("LanguageAccept", "lang"), ("CharsetAccept", "charset")):
        if nm in names:
            return kind
    return "generic"


def run(ctx: Ctx) -> None:
    folder = Folder(ctx.repo)
    ctx.rule("R17.1", "every quality appended by parse_accept_header is 1 (no q parameter) or float() of a text accepted by a dominating pattern test whose language is plain ASCII decimals, and is dropped on every path exactly when outside [0,1]")
    ctx.rule("R17.2", "Accept.best_match replaces its choice exactly when a range matched, quality > 0 and (quality > best, or equal quality and greater specificity); state moves with the choice; LanguageAccept stages its fallbacks through it with q kept")
    ctx.rule("R17.3", "the Accept list is built by one stable sort, specificity major, quality minor, client order on ties; lookups return the first matching range in list order; _specificity ranks wildcards lowest")
    ctx.rule("R17.4", "every _value_matches accepts its family's wildcard range(s) and compares offer and range under the same normaliser")
    accept, fam = _family(ctx)
    ctx.floor("R17.1", "Accept classes", len(fam), 4)
    _r171(ctx, folder)
    _r172(ctx, folder, accept, fam)
    _r173(ctx, folder, accept, fam)
    _r174(ctx, folder, accept, fam)


def run_thorough(ctx: Ctx) -> None:
    """deeper cross-check of the q-pattern automaton against the re engine (strings up to length 6)."""
    folder = Folder(ctx.repo)
    fi = ctx.repo.func("http.parse_accept_header")
    for rx, name, mode, _subject, _at, _t in _all_regex_tests(ctx, folder, fi):
        lang = Lang.from_regex(rx, mode)
        bad = crosscheck(rx, mode, lang, "-+.015e ", 6)
        if bad is not None:
            raise AnalysisError(f"automaton of {name} disagrees with the re engine on {bad!r}")
        ctx.note(f"automaton of {name} agrees with re.{mode} on all strings over '-+.015e ' up to length 6")


# =====================================================================
# R17.1


def _regex_test(ctx: Ctx, folder: Folder, fi: FuncInfo, fe: FuncEval, tnode: Node, label: str | None):
    """(regex, name, mode, subject expr, node of the call, label of the edge on which it matched) when the test atom
    is the outcome of <pattern>.fullmatch/match/search(subject); label None = any."""
    atom = tnode.ast
    want = "T"
    x: ast.AST | None = atom
    if isinstance(atom, ast.Compare) and len(atom.ops) == 1 and astq.is_none(atom.comparators[0]):
        if isinstance(atom.ops[0], (ast.Is, ast.Eq)):
            want = "F"
        elif isinstance(atom.ops[0], (ast.IsNot, ast.NotEq)):
            want = "T"
        else:
            return None
        x = atom.left
    if label is not None and label != want:
        return None
    at = tnode
    if isinstance(x, ast.NamedExpr):
        x = x.value
    if isinstance(x, ast.Name):
        defs = fe.rd.reaching(tnode, x.id)
        if len(defs) != 1:
            return None
        d = next(iter(defs))
        if d.kind not in ("assign", "walrus") or d.node is None:
            return None
        x, at = d.value, d.node
    if not (isinstance(x, ast.Call) and isinstance(x.func, ast.Attribute) and x.func.attr in ("fullmatch", "match", "search")):
        return None
    if len(x.args) != 1 or x.keywords:
        return None
    r = fold_regex_expr(ctx.repo, folder, fi, x.func.value)
    if r is None:
        return None
    return r[0], r[1], x.func.attr, x.args[0], at, want


def _all_regex_tests(ctx: Ctx, folder: Folder, fi: FuncInfo):
    fe = FuncEval(ctx.repo, folder, fi)
    out = []
    for tn in fe.cfg.tests():
        if tn.kind != "test":
            continue
        r = _regex_test(ctx, folder, fi, fe, tn, None)
        if r is not None:
            out.append(r)
    return out


def _r171(ctx: Ctx, folder: Folder) -> None:
    repo = ctx.repo
    fi = repo.func("http.parse_accept_header")
    ctx.saw(fi)
    base = FuncEval(repo, folder, fi)
    cfg, rd = base.cfg, base.rd

    # slot: the list handed to the Accept class, and its growth sites
    lists: set[str] = set()
    for r in astq.returns_of(fi.node):
        v = r.value
        if isinstance(v, ast.Call) and len(v.args) == 1 and isinstance(v.args[0], ast.Name) and not v.keywords:
            lists.add(v.args[0].id)
    appends = [
        c for c in astq.method_calls(fi.node, "append", nested=False)
        if isinstance(c.func, ast.Attribute) and isinstance(c.func.value, ast.Name) and c.func.value.id in lists
        and len(c.args) == 1 and isinstance(c.args[0], ast.Tuple) and len(c.args[0].elts) == 2
    ]
    if not appends:
        raise AnalysisError("parse_accept_header: no <list>.append((item, q)) feeding the returned Accept (append slot)")
    loops = {id(l): l for l in (astq.enclosing(a, (ast.For,)) for a in appends) if l is not None}
    if len(loops) != 1:
        raise AnalysisError("parse_accept_header: appends are not inside one item loop")
    loop = next(iter(loops.values()))
    head = cfg.node_of(loop)
    a_nodes = [cfg.node_of(a) for a in appends]
    if head is None or any(n is None for n in a_nodes):
        raise AnalysisError("parse_accept_header: CFG nodes of the loop / append not found")
    a_ids = {n.id for n in a_nodes}  # type: ignore[union-attr]
    ends = {head.id, cfg.exit.id, cfg.raise_exit.id}

    # R17.3 (order part): the list grows only by append, in iteration order
    other = []
    for c in astq.calls(fi.node, nested=False):
        f = c.func
        if isinstance(f, ast.Attribute) and isinstance(f.value, ast.Name) and f.value.id in lists and f.attr in ("insert", "extend", "sort", "reverse", "pop", "remove", "__iadd__", "clear"):
            other.append(c)
    for s in walk_no_nested(fi.node):
        if isinstance(s, ast.AugAssign) and isinstance(s.target, ast.Name) and s.target.id in lists:
            other.append(s)
    ctx.ob("R17.3", "parse_accept_header keeps the client's order: the result list only grows by append", not other,
           f"{len(appends)} append site(s); other mutations of the list: {[norm(o) for o in other]}", fi, other[0] if other else appends[0], "result list append-only")

    sources = []  # (append call, Def)
    qnames: set[str] = set()
    for a, an in zip(appends, a_nodes):
        qe = a.args[0].elts[1]  # type: ignore[attr-defined]
        if not isinstance(qe, ast.Name):
            raise AnalysisError(f"parse_accept_header: appended quality `{norm(qe)}` is not a local name (quality slot)")
        qnames.add(qe.id)
        defs = rd.reaching(an, qe.id)  # type: ignore[arg-type]
        if not defs:
            raise AnalysisError(f"parse_accept_header: no definition of `{qe.id}` reaches the append")
        for d in sorted(defs, key=lambda d: getattr(d.stmt, "lineno", 0)):
            if not any(d is d2 for _, d2 in sources):
                sources.append((a, d))
    ctx.floor("R17.1", "definitions of the quality reaching the append", len(sources), 2)
    all_q_defs = [d for ds in rd.gen.values() for d in ds if d.name in qnames]

    # constants q is compared with -> sample points (one per order class)
    consts = {0.0, 1.0}
    for n in walk_no_nested(fi.node):
        if isinstance(n, ast.Compare):
            ops = [n.left, *n.comparators]
            if any(isinstance(o, ast.Name) and o.id in qnames for o in ops):
                for o in ops:
                    c = _num_const(o)
                    if c is not None:
                        consts.add(float(c))
    pts = sorted(consts)
    samples = [pts[0] - 1.0]
    for i, p in enumerate(pts):
        samples.append(p)
        samples.append((p + pts[i + 1]) / 2 if i + 1 < len(pts) else p + 1.0)

    def kept(d, value: float) -> tuple[bool, bool, list[Node]]:
        """(may reach the append, is forced to end the iteration without it, undecided tests that mention the quality)."""
        fe = FuncEval(repo, folder, fi)
        fe.pinned[d] = value
        avoid = {o.node.id for o in all_q_defs if o is not d and o.node is not None}
        seen = fe.explore([d.node], stop=a_ids | ends, avoid=avoid)
        may_reach = bool(seen & a_ids)
        # a drop is reported only when the scenario forces it (every test on the way is decided by the value of q):
        # an undecided test on the way (e.g. the validity of the q text, on the way from a default) is someone else's reason
        seen2 = fe.explore([d.node], stop=ends, avoid=avoid | a_ids, definite=True)
        must_skip = bool(seen2 & ends)
        blocking = [tn for tn in fe.unknown_tests if astq.names_in(tn.ast) & qnames]  # type: ignore[arg-type]
        return may_reach, must_skip, blocking

    def judge(d, value: float, label: str, inhabited: bool, witness: str | None, src: str) -> None:
        keep = 0 <= value <= 1
        if not inhabited:
            ctx.ob("R17.1", f"{src}: {label}", True, "no text accepted by the pattern has a value in this range", fi, d.stmt, f"q {skey(d)} range {label}")
            return
        may_reach, may_skip, blocking = kept(d, value)
        ok = (may_reach and not may_skip) if keep else (not may_reach)
        if blocking:
            raise AnalysisError(f"parse_accept_header: cannot evaluate `{norm(blocking[0].ast)}` for q={value}")  # type: ignore[arg-type]
        eg = f"the pattern lets e.g. q={witness} through; " if witness is not None else ""
        if keep:
            fact = f"{eg}evaluated at q={value:g}: item {'is always appended' if ok else 'can be dropped' if may_reach else 'is never appended'}"
        else:
            fact = f"{eg}evaluated at q={value:g}: item {'is never appended' if ok else 'reaches result.append'}"
        ctx.ob("R17.1", f"{src}: {label} -> {'kept' if keep else 'ignored'}", ok, fact, fi, d.stmt, f"q {skey(d)} range {label}")

    def skey(d) -> str:
        c_ = _num_const(d.value)
        return f"constant {c_:g}" if c_ is not None else "float"

    def label_of(v: float) -> str:
        return "q < 0" if v < 0 else "q = 0" if v == 0 else "0 < q < 1" if v < 1 else "q = 1" if v == 1 else "q > 1"

    REF = Lang.from_pattern(REF_PAT)
    regions = {
        "q < 0": Lang.from_pattern(NEG_PAT), "q = 0": Lang.from_pattern(ZERO_PAT), "q = 1": Lang.from_pattern(ONE_PAT), "q > 1": Lang.from_pattern(GT1_PAT),
    }
    mid = REF
    for rg in regions.values():
        mid = mid - rg
    regions["0 < q < 1"] = mid
    RFCQ = Lang.from_pattern(RFCQ_PAT)

    n_float = n_const = n_samples = n_guarded = 0
    for a, d in sources:
        v = d.value if d.kind == "assign" else None
        c = _num_const(v)
        if c is not None:
            # ---- constant quality (the "no q parameter" default) ----
            n_const += 1
            src = f"constant {c:g}"
            judge(d, float(c), label_of(float(c)), True, None, src)
            # a constant cannot come from the header text: it is the quality of an item that carries no q parameter
            how = [f"`{norm(tn.ast)}` is {'true' if lb == 'T' else 'false'}" for tn, lb in cfg.guards(d.node) if tn.kind == "test" and tn.ast is not None]
            ctx.ob("R17.1", "an item without a q parameter has quality 1", c == 1, f"`{norm(d.stmt)}` (reached when {' and '.join(how) or 'always'})", fi, d.stmt, "default quality")
            continue
        if not (isinstance(v, ast.Call) and isinstance(v.func, ast.Name) and v.func.id == "float" and len(v.args) == 1 and not v.keywords and repo.resolve(fi.module, "float") == "builtins.float"):
            raise AnalysisError(f"parse_accept_header: cannot interpret the quality definition `{norm(d.stmt) if d.stmt is not None else d.kind}` (expected a constant or float(<text>))")
        # ---- float(<text>) guarded by a pattern test ----
        n_float += 1
        arg = v.args[0]
        src = f"float({norm(arg)})"
        found = None
        for tn, lb in cfg.guards(d.node):
            if tn.kind != "test":
                continue
            r = _regex_test(ctx, folder, fi, base, tn, lb)
            if r is None:
                continue
            rx, name, mode, subject, at, _want = r
            same = norm(subject) == norm(arg) and all(rd.reaching(at, nm) == rd.reaching(d.node, nm) for nm in astq.names_in(subject))
            if same:
                found = (rx, name, mode, tn)
        if found is None:
            ctx.ob("R17.1", f"{src} is dominated by a successful pattern test on the same text", False,
                   "no `<pattern>.fullmatch(text)` outcome dominates the conversion: a malformed q reaches float() (ValueError, or 'nan'/'1e0' accepted)", fi, d.stmt, "q float guarded")
            continue
        rx, name, mode, tn = found
        n_guarded += 1
        ctx.ob("R17.1", f"{src} is dominated by a successful pattern test on the same text", True, f"`{norm(tn.ast)}` ({name} = {rx.pattern!r}, flags {rx.flags}) dominates the conversion", fi, d.stmt, "q float guarded")
        try:
            L = Lang.from_regex(rx, mode)
        except Unfoldable as e:
            raise AnalysisError(f"{name}: {e}")
        bad = crosscheck(rx, mode, L, "-+.015e ", 4)
        if bad is not None:
            raise AnalysisError(f"automaton of {name} disagrees with the re engine on {bad!r}")
        w = (L - REF).witness()
        ctx.ob("R17.1", f"every text accepted by {name}.{mode} is a plain ASCII decimal numeral", w is None,
               f"{name} = {rx.pattern!r} via {mode}: " + ("language is within [+-]?(D+(.D*)?|.D+), so float() is total and no exponent / nan / non-ASCII digit passes" if w is None else f"accepts {w!r}, which is not a plain decimal numeral (malformed q not ignored)"),
               fi, tn.ast, "q pattern language plain decimal")
        w2 = (RFCQ - L).witness()
        ctx.ob("R17.1", f"every RFC 9110 qvalue is accepted by {name}.{mode}", w2 is None,
               f"{name} = {rx.pattern!r}: " + ("contains 0(.D{1,3})? and 1(.0{1,3})?" if w2 is None else f"rejects the valid q value {w2!r}: the item would be ignored"), fi, tn.ast, "q pattern accepts rfc qvalues")
        per_label: dict[str, int] = {}
        for sv in samples:
            per_label[label_of(sv)] = per_label.get(label_of(sv), 0) + 1
        for sv in samples:
            lab = label_of(sv)
            wit = (L & REF & regions[lab]).witness()
            n_samples += 1
            judge(d, sv, lab if per_label[lab] == 1 else f"{lab} (sample {sv:g})", wit is not None, wit, src)
    ctx.floor("R17.1", "float() conversions of a q text", n_float, 1)
    ctx.floor("R17.1", "constant qualities", n_const, 1)
    ctx.floor("R17.1", "value-range samples (5 per guarded conversion)", n_samples, 5 * n_guarded)


# =====================================================================
# R17.2


class _Scen(t.NamedTuple):
    m: bool
    q: float
    bq: float
    s: tuple
    bs: tuple
    state: str  # "best": state variables hold an earlier candidate; "init": their initial values
    text: str


def _r172(ctx: Ctx, folder: Folder, accept: ClassInfo, fam: list[ClassInfo]) -> None:
    repo = ctx.repo
    bm = accept.methods.get("best_match")
    if bm is None:
        raise AnchorMissing("Accept.best_match missing")
    ctx.saw(bm)
    base = FuncEval(repo, folder, bm)
    cfg, rd = base.cfg, base.rd
    params = bm.params
    if len(params) < 3:
        raise AnalysisError("Accept.best_match: expected (self, offers, default)")
    offers_p, default_p = params[1], params[2]

    # every class of the family negotiates through an analysed best_match / lookup
    la = repo.try_cls("datastructures.accept.LanguageAccept")
    analysed = {bm.fq} | ({la.methods["best_match"].fq} if la is not None and "best_match" in la.methods else set())
    for c in fam:
        for nm in ("best_match", "_best_single_match", "quality"):
            _o, w = repo.lookup(c, nm)
            if not isinstance(w, FuncInfo):
                raise AnalysisError(f"{c.name}.{nm} does not resolve to a method")
            if nm == "best_match" and w.fq not in analysed or nm != "best_match" and w.cls is not accept:
                raise AnalysisError(f"{c.name}.{nm} resolves to {w.fq}, which these rules do not analyse")

    rets = astq.returns_of(bm.node)
    rnames = {r.value.id for r in rets if isinstance(r.value, ast.Name)}
    if not rets or len(rnames) != 1 or any(not isinstance(r.value, ast.Name) for r in rets):
        raise AnalysisError("Accept.best_match: expected `return <name>` (result slot)")
    R = rnames.pop()
    loops = [n for n in walk_no_nested(bm.node) if isinstance(n, ast.For) and any(isinstance(s, ast.Assign) and any(astq.is_name(tg, R) for tg in s.targets) for s in ast.walk(n))]
    if len(loops) != 1 or not isinstance(loops[0].target, ast.Name):
        raise AnalysisError("Accept.best_match: expected one `for <offer> in <offers>` loop assigning the result (loop slot)")
    loop = loops[0]
    offer_var = loop.target.id
    head = cfg.node_of(loop)
    assert head is not None
    A_stmts = [s for s in ast.walk(loop) if isinstance(s, ast.Assign) and any(astq.is_name(tg, R) for tg in s.targets)]
    for s in A_stmts:
        if not astq.is_name(s.value, offer_var):
            raise AnalysisError(f"Accept.best_match: `{norm(s)}` does not store the offer being examined (choice slot)")
    A_nodes = [cfg.node_of(s) for s in A_stmts]
    a_ids = {n.id for n in A_nodes if n is not None}
    ends = {head.id, cfg.exit.id, cfg.raise_exit.id}
    starts = [s for s, l in head.succs if l == "T"]

    ctx.ob("R17.2", "offers are examined in the caller's order", _in_order(loop.iter, offers_p), f"loop iterates `{norm(loop.iter)}` (parameter `{offers_p}`)", bm, loop, "offer loop order")
    outer_defs = [d for ds in rd.gen.values() for d in ds if d.name == R and not _inside(d.stmt, loop)]
    ok_def = bool(outer_defs) and all(d.kind == "assign" and astq.is_name(d.value, default_p) for d in outer_defs)
    ctx.ob("R17.2", "without an eligible offer the default is returned", ok_def, f"definitions of `{R}` outside the loop: {[norm(d.stmt) for d in outer_defs if d.stmt is not None]}", bm, outer_defs[0].stmt if outer_defs else bm.node, "result initialised to default")

    OFFER = _Sent("offer")
    CLIENT = {"cur": _Sent("range"), "best": _Sent("earlier range")}
    state_names: set[str] = set()

    def make(scen: _Scen) -> FuncEval:
        mode = ["cur"]

        def hook(call: ast.Call, ev: Ev, env: dict, fe: FuncEval):
            if self_call(call, "_best_single_match") and len(call.args) == 1 and not call.keywords:
                if ev.val(call.args[0], env) is OFFER:
                    if not scen.m:
                        return None
                    return (CLIENT[mode[0]], scen.q if mode[0] == "cur" else scen.bq)
                return UNK
            if self_call(call, "_specificity") and len(call.args) == 1 and not call.keywords:
                a = ev.val(call.args[0], env)
                if a is CLIENT["cur"]:
                    return scen.s
                if a is CLIENT["best"]:
                    return scen.bs
                return UNK
            return NotImplemented

        def multi(name: str, defs, fe: FuncEval):
            inner = [d for d in defs if _inside(d.stmt, loop)]
            outer = [d for d in defs if not _inside(d.stmt, loop)]
            if not inner or not outer:
                return NotImplemented
            state_names.add(name)
            if name == R or mode[0] != "cur":
                return UNK
            chosen, m2 = (outer, "cur") if scen.state == "init" else (inner, "best")
            mode[0] = m2
            try:
                vals = [fe.def_value(d) for d in chosen]
            finally:
                mode[0] = "cur"
            if any(v is UNK for v in vals) or any(v != vals[0] for v in vals[1:]):
                return UNK
            return vals[0]

        return FuncEval(repo, folder, bm, loop_values={id(loop): OFFER}, call_hook=hook, multi=multi)

    def run_scen(scen: _Scen) -> tuple[bool, bool, list[Node]]:
        fe = make(scen)
        seen = fe.explore(starts, stop=a_ids | ends)
        may_reach = bool(seen & a_ids)
        seen2 = fe.explore(starts, stop=ends, avoid=a_ids)
        may_skip = bool(seen2 & ends)
        return may_reach, may_skip, list(fe.unknown_tests)

    # ---- the 18 order scenarios -------------------------------------------
    n = 0
    spec = {"<": ((False,), (True,)), "=": ((True,), (True,)), ">": ((True,), (False,))}
    for sign, q in (("= 0", 0.0), ("> 0", 0.5)):  # qualities are within [0,1] (R17.1): negative ones are outside the property
        for rq, bq in (("<", q + 0.25), ("=", q), (">", q - 0.25)):
            for rs, (s, bs) in spec.items():
                text = f"quality {sign}, quality {rq} best quality, specificity {rs} best specificity"
                scen = _Scen(True, q, bq, s, bs, "best", text)
                expect = q > 0 and (rq == ">" or (rq == "=" and rs == ">"))
                may_reach, may_skip, unknown = run_scen(scen)
                ok = (may_reach and not may_skip) if expect else (not may_reach)
                if not ok and unknown:
                    raise AnalysisError(f"Accept.best_match: cannot evaluate `{norm(unknown[0].ast)}` in scenario [{text}]")  # type: ignore[arg-type]
                n += 1
                if expect:
                    fact = "the examined offer replaces the choice on every path" if ok else ("the choice can stay with the earlier offer" if may_reach else "the examined offer never replaces the earlier one")
                else:
                    fact = "the earlier choice is kept on every path" if ok else "the examined offer replaces the choice"
                ctx.ob("R17.2", f"[{text}] -> {'replace' if expect else 'keep'}", ok, fact + f" (q={q:g}, best q={bq:g}, specificity={s}, best={bs})", bm, A_stmts[0], f"best_match scenario q{sign} {rq} {rs}")
    ctx.floor("R17.2", "order scenarios of the selection loop", n, 18)

    # ---- first candidate against the initial state -------------------------
    for q in (1e-9, 1.0):
        for s in ((False,), (False, False), (True,), (True, True, True)):
            text = f"first eligible offer, quality {q:g}, specificity {s}"
            may_reach, may_skip, unknown = run_scen(_Scen(True, q, 0.0, s, (), "init", text))
            ok = may_reach and not may_skip
            if not ok and unknown:
                raise AnalysisError(f"Accept.best_match: cannot evaluate `{norm(unknown[0].ast)}` in scenario [{text}]")  # type: ignore[arg-type]
            ctx.ob("R17.2", f"[{text}] -> chosen", ok, "with the initial best-so-far state the offer is chosen on every path" if ok else "with the initial best-so-far state the offer can be passed over", bm, A_stmts[0], f"best_match first q={q:g} s={s}")

    # ---- no range matches -> never chosen; components of the match are used only behind that test ----
    yes = make(_Scen(True, 0.5, 0.25, (True,), (True,), "best", ""))
    no = make(_Scen(False, 0.5, 0.25, (True,), (True,), "best", ""))
    gate_edges = []
    for tn in cfg.tests():
        if tn.kind != "test" or not _inside(tn.ast, loop):
            continue
        ty, tn_ = yes.truth_at(tn), no.truth_at(tn)
        if ty is not UNK and tn_ is not UNK and ty != tn_:
            gate_edges.append((tn, "T" if ty else "F"))
    match_vars: set[str] = set()
    for ds in rd.gen.values():
        for d in ds:
            if _inside(d.stmt, loop) and d.kind in ("assign", "walrus"):
                v = yes.def_value(d)
                if isinstance(v, tuple) and len(v) == 2 and v[0] is CLIENT["cur"]:
                    match_vars.add(d.name)
    if not match_vars:
        raise AnalysisError("Accept.best_match: no variable holds self._best_single_match(<offer>) (match slot)")
    users = []
    for nd in cfg.nodes:
        if nd.kind == "stmt" and nd.ast is not None and _inside(nd.ast, loop):
            loads = {x.id for x in ast.walk(nd.ast) if isinstance(x, ast.Name) and isinstance(x.ctx, ast.Load)}
            if loads & match_vars:
                users.append(nd)
    for nd in [*A_nodes, *users]:
        assert nd is not None
        dom = [(tn, lb) for tn, lb in gate_edges if cfg.edge_dominates(tn, lb, nd)]
        ctx.ob("R17.2", f"`{nd.text()}` runs only when a client range matched the offer", bool(dom),
               (f"dominated by the matched edge of `{norm(dom[0][0].ast)}`" if dom else f"reachable when _best_single_match returned None (tests that tell a match from no match: {[norm(tn.ast) for tn, _ in gate_edges]})"),  # type: ignore[arg-type]
               bm, nd.ast, f"match gate {norm(nd.ast)}")  # type: ignore[arg-type]

    # ---- best-so-far state moves together with the choice -------------------
    state = sorted(state_names - {R})
    if not state:
        raise AnalysisError("Accept.best_match: no best-so-far state variable found (state slot)")
    for name in state:
        inner = [d for ds in rd.gen.values() for d in ds if d.name == name and _inside(d.stmt, loop)]
        for d in inner:
            together = False
            for an in A_nodes:
                assert an is not None and d.node is not None
                loop_ends = [cfg.nodes[i] for i in ends]
                if cfg.node_dominates(an, d.node) and cfg.all_paths_pass(an, loop_ends, [d.node]):
                    together = True
                if cfg.node_dominates(d.node, an) and cfg.all_paths_pass(d.node, loop_ends, [an]):
                    together = True
            ctx.ob("R17.2", f"`{norm(d.stmt)}` happens exactly when the choice is replaced", together,
                   "same straight-line block as the assignment of the result" if together else "the best-so-far state can change without the choice (or the reverse)", bm, d.stmt, f"state update {name}")

    if la is not None and "best_match" in la.methods:
        _language_fallbacks(ctx, folder, accept, fam, la, bm)


def _language_fallbacks(ctx: Ctx, folder: Folder, accept: ClassInfo, fam: list[ClassInfo], la: ClassInfo, bm: FuncInfo) -> None:
    repo = ctx.repo
    fi = la.methods["best_match"]
    ctx.saw(fi)
    fe = FuncEval(repo, folder, fi)
    cfg, rd = fe.cfg, fe.rd
    params = fi.params
    if len(params) < 3:
        raise AnalysisError("LanguageAccept.best_match: expected (self, offers, default)")
    offers_p, default_p = params[1], params[2]
    calls = sorted(astq.method_calls(fi.node, "best_match", nested=False), key=lambda c: (c.lineno, c.col_offset))
    ctx.floor("R17.2", "negotiation stages of LanguageAccept.best_match", len(calls), 3)
    stage_defs = []  # (call, assignment Def)
    for c in calls:
        recv = c.func.value  # type: ignore[attr-defined]
        d = next((x for ds in rd.gen.values() for x in ds if x.value is c and x.kind in ("assign", "walrus")), None)
        if d is None or d.node is None:
            raise AnalysisError(f"LanguageAccept.best_match: `{norm(c)}` is not bound to a local name (stage slot)")
        node = d.node
        stage_defs.append((c, d))
        if isinstance(recv, ast.Call) and dotted(recv.func) == "super" and not recv.args:
            _o, w = repo.lookup(la, "best_match", after=la.fq)
            ctx.ob("R17.2", f"stage `{norm(c)}` negotiates through Accept.best_match", isinstance(w, FuncInfo) and w.fq == bm.fq, f"super().best_match resolves to {w.fq if isinstance(w, FuncInfo) else w}", fi, c, f"stage {norm(c)} target")
            continue
        if not isinstance(recv, ast.Name):
            raise AnalysisError(f"LanguageAccept.best_match: receiver of `{norm(c)}` not understood")
        rdefs = rd.reaching(node, recv.id)
        if len(rdefs) != 1:
            raise AnalysisError(f"LanguageAccept.best_match: `{recv.id}` has {len(rdefs)} definitions at `{norm(c)}`")
        rdef = next(iter(rdefs))
        ctor = rdef.value
        klass = None
        if isinstance(ctor, ast.Call) and dotted(ctor.func):
            fq = repo.resolve(fi.module, dotted(ctor.func) or "")
            klass = repo.try_cls(fq) if fq and fq.startswith("werkzeug") else None
        okc = klass is not None and any(k.fq == accept.fq for k in repo.mro(klass))
        tgt = repo.lookup(klass, "best_match")[1] if okc and klass is not None else None
        ctx.ob("R17.2", f"stage `{norm(c)}` negotiates through Accept.best_match", okc and isinstance(tgt, FuncInfo) and tgt.fq == bm.fq,
               f"`{recv.id}` is built by `{norm(ctor.func) if isinstance(ctor, ast.Call) else '?'}` -> best_match is {tgt.fq if isinstance(tgt, FuncInfo) else tgt}", fi, c, f"stage {norm(c)} target")
        # the fallback ranges keep the client's q
        keeps = False
        fact = "constructor argument not understood"
        if isinstance(ctor, ast.Call) and len(ctor.args) == 1 and isinstance(ctor.args[0], (ast.ListComp, ast.GeneratorExp)) and len(ctor.args[0].generators) == 1:
            comp = ctor.args[0]
            g = comp.generators[0]
            elt = comp.elt
            if astq.is_name(g.iter, "self") and not g.ifs and isinstance(elt, ast.Tuple) and len(elt.elts) == 2:
                qe = elt.elts[1]
                if isinstance(g.target, ast.Name):
                    keeps = isinstance(qe, ast.Subscript) and astq.is_name(qe.value, g.target.id) and _num_const(qe.slice) == 1
                elif isinstance(g.target, ast.Tuple) and len(g.target.elts) == 2 and isinstance(g.target.elts[1], ast.Name):
                    keeps = astq.is_name(qe, g.target.elts[1].id)
                fact = f"ranges are `{norm(elt)}` for `{norm(g.target)}` in self"
        ctx.ob("R17.2", f"fallback list of `{norm(c)}` keeps each client range's q", keeps, fact, fi, ctor if ctor is not None else c, f"stage {norm(c)} keeps q")

    # staging: a later stage runs only when the earlier one found nothing
    def none_edge(tn: Node, lb: str, d) -> bool:
        cp = astq.cmp_parts(tn.ast) if tn.ast is not None else None
        if not cp or not astq.is_none(cp[2]):
            return False
        if isinstance(cp[0], ast.NamedExpr):
            if cp[0].value is not d.value:
                return False
        elif not isinstance(cp[0], ast.Name) or set(rd.reaching(tn, cp[0].id)) != {d}:
            return False
        return (isinstance(cp[1], (ast.Is, ast.Eq)) and lb == "T") or (isinstance(cp[1], (ast.IsNot, ast.NotEq)) and lb == "F")

    for (c0, d0), (c1, d1) in zip(stage_defs, stage_defs[1:]):
        g = cfg.guards(d1.node)
        ok = any(none_edge(tn, lb, d0) for tn, lb in g)
        ctx.ob("R17.2", f"stage `{norm(c1)}` runs only when `{norm(c0)}` found nothing", ok, "dominated by the `is None` edge of the previous result" if ok else "not dominated by a None test of the previous stage's result: a fallback could override an exact match", fi, c1, f"staging {norm(c1)}")

    # every returned value is the default or an offer that came out of a stage
    stage_set = {d for _, d in stage_defs}

    def stage_offers(c: ast.Call, d):
        """how the stage's candidate list relates to the caller's offers: ("original",) or ("derived", elt, target name)."""
        a0 = c.args[0] if c.args else None
        if not isinstance(a0, ast.Name):
            return ("unknown",)
        ds = rd.reaching(d.node, a0.id)
        if a0.id == offers_p and {x.kind for x in ds} == {"param"}:
            return ("original",)
        if len(ds) == 1:
            v_ = next(iter(ds)).value
            if isinstance(v_, (ast.ListComp, ast.GeneratorExp)) and len(v_.generators) == 1 and astq.is_name(v_.generators[0].iter, offers_p) and isinstance(v_.generators[0].target, ast.Name) and not v_.generators[0].ifs:
                return ("derived", v_.elt, v_.generators[0].target.id)
        return ("unknown",)

    offers_of = {d: stage_offers(c, d) for c, d in stage_defs}

    def stages_of(name: str, node: Node) -> set:
        ds = set(rd.reaching(node, name))
        return ds if ds and ds <= stage_set else set()

    SAMPLE_OFFERS = (["enm-GB", "en-US", "de"], ["en-US", "enm-GB", "de"], ["de-AT", "deu", "en"])
    n = 0
    for r in sorted(astq.returns_of(fi.node), key=lambda r: (r.lineno, r.col_offset)):
        node = cfg.node_of(r)
        assert node is not None
        v = r.value
        n += 1
        if astq.is_name(v, default_p) and set(x.kind for x in rd.reaching(node, default_p)) == {"param"}:
            ctx.ob("R17.2", "LanguageAccept.best_match returns the default", True, "`return default`", fi, r, f"return {norm(r)}")
            continue
        ok = False
        fact = f"`{norm(r)}`"
        if isinstance(v, ast.Name):
            st = stages_of(v.id, node)
            kinds = {offers_of[d][0] for d in st}
            ok = bool(st) and kinds == {"original"}
            fact += " is the result of a stage run on the caller's offers" if ok else (" is the result of a stage run on a derived list: not one of the offers" if st else " is not the result of a best_match stage")
        elif isinstance(v, ast.Call) and astq.is_name(v.func, "next") and v.args and isinstance(v.args[0], ast.GeneratorExp):
            ge = v.args[0]
            g0 = ge.generators[0]
            used = sorted({x.id for c_ in g0.ifs for x in ast.walk(c_) if isinstance(x, ast.Name)} - ({g0.target.id} if isinstance(g0.target, ast.Name) else set()))
            tied = [u for u in used if stages_of(u, node)]
            shape = len(ge.generators) == 1 and astq.is_name(g0.iter, offers_p) and isinstance(g0.target, ast.Name) and astq.is_name(ge.elt, g0.target.id) and len(tied) == 1
            ok = shape
            fact += " picks an original offer by a stage result" if shape else " is not tied to a stage result"
            if shape:
                u = tied[0]
                derived = [offers_of[d] for d in stages_of(u, node)]
                if len(derived) != 1 or derived[0][0] != "derived":
                    raise AnalysisError(f"LanguageAccept.best_match: `{norm(r)}` maps back a result of a stage whose candidate list is not understood")
                _k, elt, tname = derived[0]
                ev = fe.ev_at(node)
                for offers in SAMPLE_OFFERS:
                    tags = []
                    for o in offers:
                        tg_ = ev.val(elt, {tname: o})
                        if tg_ is UNK:
                            raise AnalysisError(f"LanguageAccept.best_match: cannot evaluate `{norm(elt)}` for offer {o!r}")
                        tags.append(tg_)
                    for res in dict.fromkeys(tags):
                        chosen = ev.val(v, {offers_p: offers, u: res})
                        if chosen is UNK:
                            raise AnalysisError(f"LanguageAccept.best_match: cannot evaluate `{norm(v)}` for offers {offers} and stage result {res!r}")
                        back = ev.val(elt, {tname: chosen}) if isinstance(chosen, str) else UNK
                        good = chosen in offers and back == res
                        ctx.ob("R17.2", f"LanguageAccept.best_match return #{n}: the offer returned for the negotiated tag {res!r} among {offers} carries that tag", good,
                               f"`{norm(v)}` yields {chosen!r}, whose candidate tag `{norm(elt)}` is {back!r}" + ("" if good else f" - not {res!r}: an offer that no client range matched is returned"), fi, r, f"primary-tag result {res} mapped back among {','.join(offers)}")
        ctx.ob("R17.2", f"LanguageAccept.best_match return #{n} is a negotiated offer", ok, fact, fi, r, f"return #{n} {norm(r)}")
    ctx.floor("R17.2", "returns of LanguageAccept.best_match", n, 3)


# =====================================================================
# R17.3


def _first_match(ctx: Ctx, fi: FuncInfo, want: str, miss: t.Any, folder: Folder | None = None) -> None:
    """fi iterates self in list order and returns, at the first range for which _value_matches(offer, range) holds,
    the (range, quality) pair (want='pair') or the quality (want='quality'); ``miss`` is returned when none matches."""
    cfg = cfg_of(fi)
    offer_p = fi.params[1] if len(fi.params) > 1 else None
    loops = [n for n in walk_no_nested(fi.node) if isinstance(n, ast.For)]
    if not loops and want == "quality" and offer_p is not None and folder is not None:
        # no scan of its own: built on _best_single_match (analysed above)
        OFFER, RANGE = _Sent("offer"), _Sent("range")
        for found, exp in ((True, 0.37), (False, miss)):
            def hook(call: ast.Call, ev: Ev, env: dict, fe: FuncEval, found: bool = found):
                if self_call(call, "_best_single_match") and len(call.args) == 1 and not call.keywords:
                    return ((RANGE, 0.37) if found else None) if ev.val(call.args[0], env) is OFFER else UNK
                return NotImplemented

            rv, raises = FuncEval(ctx.repo, folder, fi, params={offer_p: OFFER}, call_hook=hook).outcomes()
            vals_ = [v for _, v in rv]
            ok = not raises and bool(vals_) and all(v is not UNK and v == exp and isinstance(v, bool) == isinstance(exp, bool) for v in vals_)
            ctx.ob("R17.3", f"{fi.qualname} yields {'the quality of the most specific matching range' if found else repr(miss) + ' when no range matches'}", ok,
                   f"through _best_single_match: returns {vals_}{' or raises' if raises else ''}", fi, fi.node, f"{fi.qualname} via single match {'hit' if found else 'miss'}")
        return
    if len(loops) != 1 or offer_p is None:
        raise AnalysisError(f"{fi.qualname}: expected one loop over the list and an offer parameter")
    loop = loops[0]
    ctx.ob("R17.3", f"{fi.qualname} scans the ranges in list order", _in_order(loop.iter, "self"), f"iterates `{norm(loop.iter)}`", fi, loop, f"{fi.qualname} iteration order")
    tg = loop.target

    def comp(e: ast.AST) -> t.Any:
        if isinstance(tg, ast.Tuple) and len(tg.elts) == 2 and all(isinstance(x, ast.Name) for x in tg.elts):
            if astq.is_name(e, tg.elts[0].id):  # type: ignore[attr-defined]
                return 0
            if astq.is_name(e, tg.elts[1].id):  # type: ignore[attr-defined]
                return 1
            if isinstance(e, ast.Tuple) and len(e.elts) == 2 and comp(e.elts[0]) == 0 and comp(e.elts[1]) == 1:
                return "pair"
        elif isinstance(tg, ast.Name):
            if astq.is_name(e, tg.id):
                return "pair"
            if isinstance(e, ast.Subscript) and astq.is_name(e.value, tg.id) and _num_const(e.slice) in (0, 1):
                return _num_const(e.slice)
            if isinstance(e, ast.Tuple) and len(e.elts) == 2 and comp(e.elts[0]) == 0 and comp(e.elts[1]) == 1:
                return "pair"
        return None

    rets_in = [r for r in astq.returns_of(fi.node) if _inside(r, loop)]
    if not rets_in:
        raise AnalysisError(f"{fi.qualname}: no return inside the loop (first-match slot)")
    for r in rets_in:
        node = cfg.node_of(r)
        assert node is not None
        guard = None
        for tn, lb in cfg.guards(node):
            a = tn.ast
            if lb == "T" and isinstance(a, ast.Call) and self_call(a, "_value_matches") and len(a.args) == 2 and not a.keywords:
                guard = a
        ok_g = guard is not None and astq.is_name(guard.args[0], offer_p) and comp(guard.args[1]) == 0
        ctx.ob("R17.3", f"{fi.qualname} returns at the first range that matches the offer", ok_g,
               f"`{norm(r)}` guarded by `{norm(guard) if guard is not None else None}` (expected _value_matches(<offer `{offer_p}`>, <range>))", fi, r, f"{fi.qualname} first match guard")
        got = comp(r.value) if r.value is not None else None
        exp = "pair" if want == "pair" else 1
        ctx.ob("R17.3", f"{fi.qualname} returns that range's {'(range, quality) pair' if want == 'pair' else 'quality'}", got == exp, f"`{norm(r)}`", fi, r, f"{fi.qualname} returned component")
    rets_out = [r for r in astq.returns_of(fi.node) if not _inside(r, loop)]
    vals = [(r.value.value if isinstance(r.value, ast.Constant) else UNK) if r.value is not None else None for r in rets_out]
    falls = not rets_out
    ok_miss = (falls and miss is None) or (bool(rets_out) and all(v is not UNK and v == miss and isinstance(v, bool) == isinstance(miss, bool) and (v is None) == (miss is None) for v in vals))
    ctx.ob("R17.3", f"{fi.qualname} yields {miss!r} when no range matches", ok_miss, f"after the loop: {[norm(r) for r in rets_out] or 'falls off the end'}", fi, rets_out[0] if rets_out else fi.node, f"{fi.qualname} miss value")


def _spec_samples(kind: str) -> list[str]:
    return ["*/*", "text/*", "text/html", "text/html;level=1"] if kind == "mime" else ["*", "en"]


def _eval_method(ctx: Ctx, folder: Folder, fi: FuncInfo, args: dict[str, t.Any]) -> tuple[list[t.Any], bool, FuncEval]:
    fe = FuncEval(ctx.repo, folder, fi, params=args)
    rets, raises = fe.outcomes()
    return [v for _, v in rets], raises, fe


def _r173(ctx: Ctx, folder: Folder, accept: ClassInfo, fam: list[ClassInfo]) -> None:
    repo = ctx.repo
    # ---- lookups --------------------------------------------------------------
    for nm, want, miss in (("_best_single_match", "pair", None), ("quality", "quality", 0)):
        fi = accept.methods.get(nm)
        if fi is None:
            raise AnchorMissing(f"Accept.{nm} missing")
        ctx.saw(fi)
        _first_match(ctx, fi, want, miss, folder)
    ctx.floor("R17.3", "first-match lookups", 2, 2)
    imm = any(k.name.startswith("Immutable") for k in repo.mro(accept)[1:])
    ctx.ob("R17.3", "Accept is an immutable list (order fixed after construction, see C08)", imm, f"MRO: {[k.name for k in repo.mro(accept)][:5]}", accept.fq, None, "Accept immutable")

    # ---- _specificity ------------------------------------------------------------
    impls: dict[str, tuple[FuncInfo, str]] = {}
    for c in fam:
        _o, w = repo.lookup(c, "_specificity")
        if not isinstance(w, FuncInfo):
            raise AnalysisError(f"{c.name}._specificity does not resolve to a method")
        impls.setdefault(f"{w.fq}|{_kind(ctx, c) == 'mime'}", (w, "mime" if _kind(ctx, c) == "mime" else "generic"))
    spec_value: dict[tuple[str, str], t.Any] = {}
    for _key, (fi, kind) in sorted(impls.items()):
        ctx.saw(fi)
        vp = fi.params[1]
        samples = _spec_samples(kind)
        vals = []
        for s in samples:
            rv, raises, _fe = _eval_method(ctx, folder, fi, {vp: s})
            if raises or len(rv) != 1 or rv[0] is UNK:
                raise AnalysisError(f"{fi.qualname}: cannot evaluate the specificity of {s!r}")
            v = rv[0]
            vals.append(tuple(v) if isinstance(v, list) else v)
            spec_value[(fi.fq, s)] = vals[-1]
        for (s0, v0), (s1, v1) in zip(zip(samples, vals), zip(samples[1:], vals[1:])):
            try:
                ok = bool(v1 > v0)
            except TypeError:
                ok = False
            ctx.ob("R17.3", f"{fi.qualname} ({kind} ranges): {s1!r} is more specific than {s0!r}", ok, f"specificity {v1!r} vs {v0!r}", fi, fi.node, f"{fi.qualname} {kind} {s0} < {s1}")
    ctx.floor("R17.3", "_specificity implementations", len({fi.fq for fi, _ in impls.values()}), 2)

    # ---- the sort in __init__ ------------------------------------------------------
    init = accept.methods.get("__init__")
    if init is None:
        raise AnchorMissing("Accept.__init__ missing")
    ctx.saw(init)
    fe = FuncEval(repo, folder, init)
    cfg, rd = fe.cfg, fe.rd
    values_p = init.params[1] if len(init.params) > 1 else None
    sorts = [c for c in astq.calls(init.node) if (isinstance(c.func, ast.Name) and c.func.id == "sorted") or (isinstance(c.func, ast.Attribute) and c.func.attr == "sort")]
    if len(sorts) != 1 or not isinstance(sorts[0].func, ast.Name) or values_p is None:
        raise AnalysisError(f"Accept.__init__: expected exactly one sorted(...) call, found {[norm(c.func) for c in sorts]} (sort slot)")
    sc = sorts[0]
    ctx.ob("R17.3", "the sort covers the given values", bool(sc.args) and astq.is_name(sc.args[0], values_p), f"`sorted({norm(sc.args[0]) if sc.args else ''}, ...)`", init, sc, "sort input")
    key = astq.kwarg(sc, "key")
    rev_e = astq.kwarg(sc, "reverse")
    rev = Ev(lambda nm: UNK).val(rev_e) if rev_e is not None else False
    if rev is UNK:
        raise AnalysisError("Accept.__init__: `reverse=` is not a constant")
    SPEC = {"*": (False,), "en": (True,), "de": (True,)}

    def key_of(item: tuple[str, float]) -> t.Any:
        def hook(call: ast.Call, ev: Ev, env: dict, _fe: t.Any = None):
            if self_call(call, "_specificity") and len(call.args) == 1:
                a = ev.val(call.args[0], env)
                return SPEC.get(a, UNK) if isinstance(a, str) else UNK
            return NotImplemented

        if key is None:
            return item
        if isinstance(key, ast.Lambda) and len(key.args.args) == 1:
            return Ev(lambda nm: UNK, hook).val(key.body, {key.args.args[0].arg: item})
        if isinstance(key, ast.Attribute) and astq.is_name(key.value, "self"):
            _o, w = repo.lookup(accept, key.attr)
            if isinstance(w, FuncInfo) and len(w.params) == 2:
                sub = FuncEval(repo, folder, w, params={w.params[1]: item}, call_hook=lambda c, e, env, f: hook(c, e, env))
                rv, raises = sub.outcomes()
                if not raises and len(rv) == 1:
                    return rv[0][1]
        return UNK

    def before(a: tuple[str, float], b: tuple[str, float]) -> t.Any:
        ka, kb = key_of(a), key_of(b)
        if ka is UNK or kb is UNK:
            raise AnalysisError(f"Accept.__init__: cannot evaluate the sort key `{norm(key) if key is not None else None}`")
        try:
            return (ka > kb) if rev else (ka < kb)
        except TypeError:
            return False

    def tie(a: tuple[str, float], b: tuple[str, float]) -> bool:
        ka, kb = key_of(a), key_of(b)
        if ka is UNK or kb is UNK:
            raise AnalysisError("Accept.__init__: cannot evaluate the sort key")
        return bool(ka == kb)

    kt = f"key=`{norm(key) if key is not None else None}`, reverse={rev}"
    ctx.ob("R17.3", "sort order: a more specific range precedes a wildcard of higher quality", before(("en", 0.1), ("*", 1.0)) is True and before(("*", 1.0), ("en", 0.1)) is False, kt, init, sc, "sort specificity major")
    ctx.ob("R17.3", "sort order: among equally specific ranges the higher quality comes first", before(("de", 0.7), ("en", 0.5)) is True and before(("en", 0.5), ("de", 0.7)) is False, kt, init, sc, "sort quality minor")
    ctx.ob("R17.3", "sort order: ranges of equal specificity and quality compare equal (client order decides)", tie(("en", 0.5), ("de", 0.5)), kt, init, sc, "sort ties")

    # the sorted list is what is stored; anything else stored is already an Accept
    supers = [c for c in astq.calls(init.node) if isinstance(c.func, ast.Attribute) and c.func.attr == "__init__" and isinstance(c.func.value, ast.Call) and dotted(c.func.value.func) == "super" and c.args]
    if not supers:
        raise AnalysisError("Accept.__init__: no super().__init__(<values>) call (store slot)")
    stored_sorted = 0
    for c in supers:
        node = cfg.node_of(c)
        assert node is not None
        arg = c.args[0]
        direct = arg is sc
        via = False
        if isinstance(arg, ast.Name):
            ds = rd.reaching(node, arg.id)
            via = len(ds) == 1 and next(iter(ds)).value is sc and next(iter(ds)).kind == "assign"
        if direct or via:
            stored_sorted += 1
            ctx.ob("R17.3", "the stable sorted() result is stored as is", True, f"`{norm(c)}` receives the sorted list", init, c, "sorted list stored")
            continue
        # otherwise: does a definition derived from the sort reach (slice / reversed copy)?
        derived = isinstance(arg, ast.Name) and any(d.value is not None and any(x is sc for x in ast.walk(d.value)) for d in rd.reaching(node, arg.id))
        derived = derived or any(x is sc for x in ast.walk(arg))
        if derived:
            stored_sorted += 1
            ctx.ob("R17.3", "the stable sorted() result is stored as is", False, f"`{norm(c)}` receives a value computed from the sorted list (re-ordered or sliced): ties no longer keep client order", init, c, "sorted list stored")
            continue
        guarded = False
        for tn, lb in cfg.guards(node):
            a = tn.ast
            if lb == "T" and isinstance(a, ast.Call) and astq.is_name(a.func, "isinstance") and len(a.args) == 2 and norm(a.args[0]) == norm(arg):
                fq = repo.resolve(init.module, dotted(a.args[1]) or "?")
                k = repo.try_cls(fq) if fq and fq.startswith("werkzeug") else None
                guarded = k is not None and any(x.fq == accept.fq for x in repo.mro(k))
        ctx.ob("R17.3", f"`{norm(c)}` stores unsorted input only when it already is an Accept", guarded, "guarded by isinstance(<values>, Accept)" if guarded else "an unsorted iterable reaches the list", init, c, f"unsorted store {norm(c)}")
    ctx.ob("R17.3", "the sorted list reaches the list constructor", stored_sorted >= 1, f"{stored_sorted} super().__init__ call(s) fed from sorted()", init, sc, "sorted reaches store")


# =====================================================================
# R17.4

# (client range, offer, expected)
_SCEN = {
    "generic": [("*", "gzip", True), ("*", "X-Any", True), ("gzip", "GZIP", True), ("GZip", "gzip", True), ("gzip", "br", False), ("gzip", "*", False)],
    "lang": [("*", "en-US", True), ("*", "de", True), ("en-US", "en_us", True), ("EN", "en", True), ("en", "de", False), ("en", "en-US", False), ("en-GB", "en-US", False), ("en", "*", False)],
    "charset": [("*", "utf-8", True), ("*", "x-unknown", True)],
    "mime": [
        ("*/*", "text/html", True), ("*/*", "text/html;level=1", True), ("text/*", "text/html", True), ("text/*", "text/html;level=1", True), ("TEXT/*", "text/HTML", True),
        ("text/*", "image/png", False), ("text/html", "text/html", True), ("Text/HTML", "text/html", True), ("text/html", "text/plain", False), ("text/html", "image/html", False),
        ("text/html;level=1", "text/html;level=1", True), ("text/html;level=1", "text/html;level=2", False), ("text/html;level=1", "text/html", False), ("image/png", "text/html", False),
    ],
}
_MANDATORY = {"generic": 2, "lang": 2, "charset": 2, "mime": 5}  # leading entries of each table: the wildcard scenarios


def _r174(ctx: Ctx, folder: Folder, accept: ClassInfo, fam: list[ClassInfo]) -> None:
    repo = ctx.repo
    impls: dict[str, tuple[FuncInfo, str]] = {}
    for c in fam:
        _o, w = repo.lookup(c, "_value_matches")
        if not isinstance(w, FuncInfo):
            raise AnalysisError(f"{c.name}._value_matches does not resolve to a method")
        impls.setdefault(w.fq, (w, _kind(ctx, c)))
    ctx.floor("R17.4", "_value_matches implementations", len(impls), 4)
    decided = 0
    agree = 0
    for _fq, (fi, kind) in sorted(impls.items()):
        ctx.saw(fi)
        if len(fi.params) != 3:
            raise AnalysisError(f"{fi.qualname}: expected (self, offer, range)")
        vp, ip = fi.params[1], fi.params[2]
        for i, (item, value, expect) in enumerate(_SCEN[kind]):
            rv, raises, fe = _eval_method(ctx, folder, fi, {vp: value, ip: item})
            truths = set()
            for v in rv:
                try:
                    truths.add(UNK if v is UNK else bool(v))
                except Exception:
                    truths.add(UNK)
            mandatory = i < _MANDATORY[kind]
            got = "/".join(sorted("undecided" if x is UNK else str(x) for x in truths)) + (" or raises" if raises else "") or "raises"
            if mandatory:
                # the wildcard must be accepted on its own: on every path feasible for this input, whatever the normalised comparison yields
                ok = truths == {True} and not raises
                decided += 1
                ctx.ob("R17.4", f"{fi.qualname}: wildcard range {item!r} matches offer {value!r} before any normalised comparison", ok, f"evaluates to {got}", fi, fi.node, f"{fi.qualname} {item} vs {value}")
                continue
            if UNK in truths or fe.unknown_tests:
                continue  # needs a normaliser this evaluator cannot compute (codecs.lookup): covered by the agreement clause below
            ok = truths == {expect} and not raises
            decided += 1
            ctx.ob("R17.4", f"{fi.qualname}: range {item!r} {'matches' if expect else 'does not match'} offer {value!r}", ok, f"evaluates to {got}", fi, fi.node, f"{fi.qualname} {item} vs {value}")
        if kind != "mime":
            # both operands of an equality that involves the offer and the range go through the same normaliser
            for cmpn in [n for n in ast.walk(fi.node) if isinstance(n, ast.Compare) and len(n.ops) == 1 and isinstance(n.ops[0], (ast.Eq, ast.NotEq))]:
                l, r = cmpn.left, cmpn.comparators[0]
                ln, rn = astq.names_in(l) & {vp, ip}, astq.names_in(r) & {vp, ip}
                if len(ln) == 1 and len(rn) == 1 and ln != rn:
                    agree += 1
                    same = _rename(l, {vp: "_", ip: "_"}) == _rename(r, {vp: "_", ip: "_"})
                    ctx.ob("R17.4", f"{fi.qualname}: offer and range are compared under the same normaliser", same, f"`{norm(cmpn)}`", fi, cmpn, f"{fi.qualname} normaliser agreement")
    ctx.floor("R17.4", "decided match scenarios", decided, 30)
    ctx.floor("R17.4", "offer/range equality comparisons", agree, 3)


def _rename(e: ast.AST, mp: dict[str, str]) -> str:
    class R(ast.NodeTransformer):
        def visit_Name(self, n: ast.Name) -> ast.AST:
            return ast.copy_location(ast.Name(id=mp.get(n.id, n.id), ctx=n.ctx), n)

    import copy

    return ast.dump(R().visit(copy.deepcopy(e)))
