"""C18 - context-local data never leaks between concurrent contexts (structural clauses)."""

from __future__ import annotations

import ast

from .. import astq
from ..cfg import CFG, Node
from ..loader import AnalysisError, ClassInfo, FuncInfo, Module, Repo, dotted, norm
from ..report import Ctx
from ..dataflow import bound_in_enclosing_comp
from ._c18_helpers import EXHAUSTING, FRESH, INPLACE_OPERATOR, STOPPING_EARLY, EmptyRun, Flow, Unit, handler_catches, is_empty_literal, mangle, shared, why_conditional

LEVEL_TEXT = (
    "Static decision of structural clauses of C18 on /repo's current source (werkzeug/local.py): (R18.1) copy-on-write - "
    "flow-sensitively, on every path, no object that may be the one currently held in a Local/LocalStack ContextVar (the result "
    "of `<storage>.get(...)`, through local names, helper returns and helper parameters) is the receiver of an in-place mutation "
    "(subscript store/delete, augmented assignment, typeshed's list/dict/set mutator methods, operator.setitem & co.), and every "
    "object bound with `<storage>.set(v)` was created in the same call (literal, .copy(), slice, list()/dict(), a + b, `*rest` unpacking); "
    "a ContextVar handed to a helper of the module as an argument stays a storage inside the helper, and any other use of it "
    "(returned, passed to foreign code, .reset) is ANALYSIS-ERROR because reads/bindings could then happen out of sight; (R18.2) "
    "release rebinds the ContextVar (directly or through a helper that unconditionally sets its parameter) to an empty container "
    "of the payload's kind on every path and mutates nothing, "
    "release_local / LocalManager.cleanup release every managed local by a call in the calling context that is executed on every path "
    "AND for every element: some iteration over all managed locals (for loop, eager comprehension, generator expression / map "
    "pulled to its end by list()/tuple()/set()/deque()/a loop) executes the release (`x.__release_local__()`, `release_local(x)`, "
    "or a helper of the module that releases its parameter on every path) in every iteration - decided on the CFG between "
    "statements and on the expression tree inside one statement: not a later operand of `and`/`or`, not a branch of a conditional "
    "expression, not under a test (also one fed by earlier iterations), not filtered by a comprehension `if`, not pulled by "
    "any()/all()/next() (which stop early), not inside an `assert` - the loop is never left early (break / return / raise) and "
    "is bypassed only on paths where the container is known to be empty; the same in-statement conditionality applies to the "
    "`.set` of a release method, the delegation in release_local, the installation of _get_current_object and the resolution "
    "in _ProxyLookup.__get__; "
    "what LocalManager.__init__ stores contains the locals it was given on every path where some were given (through local names, "
    "conditional expressions, or a container filled afterwards by append/extend/+=) and is a container materialised in the "
    "constructor (literal, list()/tuple(), comprehension, [*x]) - never the caller's iterable itself, which may be a one-shot "
    "iterator that the first cleanup() exhausts; "
    "(R18.3) LocalProxy.__init__ performs no lookup on the proxied object (it is only type-tested and stored), every installed "
    "_get_current_object variant reads it at call time and keeps no state, _ProxyLookup.__get__ calls _get_current_object on "
    "every instance access and stores nothing, Local()/LocalStack() hand the local itself to the proxy; (R18.4) with an empty "
    "payload, Local.__getattr__/__delattr__ raise AttributeError and LocalStack.top/pop return None (abstract execution of the "
    "method with the payload known to be empty, following helpers of the module it calls), every `.get` on a storage passes an empty default (literally, or through a helper parameter at every call site), each proxy variant turns that "
    "outcome (AttributeError / None / LookupError) into RuntimeError, _ProxyLookup.__get__ catches RuntimeError, re-raises it exactly "
    "when no fallback was declared and otherwise returns the fallback, __bool__'s fallback returns False and __repr__'s fallback does "
    "not go through the bound object; (R18.5) Local/LocalStack instances have no storage besides the ContextVar (__slots__), the "
    "ContextVar is bound only in __init__, and the module keeps no mutable module-level or class-level container. "
    "Not decided: the interleaving semantics of contextvars itself (trusted), mutation through the list that LocalStack.push "
    "returns to its caller, behaviour of Local.__getattr__ for a missing name in a NON-empty namespace beyond the shape checked, "
    "the text of error messages, and the callable-proxy variant (nothing is 'unbound' for a callable)."
)
TRUSTED = [
    "CPython ast",
    "contextvars: a Context copy shares the payload objects of the parent; ContextVar.get() without default raises LookupError when unset; ContextVar.set() affects only the current context",
    "typeshed mutator tables of list/dict/set (bundled with the repo's mypy, read as text)",
    "list/dict: .copy(), slicing, list()/dict(), literals and a + b / a | b create new objects; indexing an empty list/dict raises IndexError/KeyError",
]
ASSUMPTIONS = [
    "private helpers (single underscore) of local.py are called only from local.py, so their parameters carry what the call sites in the module pass",
    "no context copy can happen between two statements of one method call (copies are made by the running code itself), so mutating an object created in the same call is invisible to other contexts even after it was bound",
]

LOCAL = "local"
CONTEXTVAR = "contextvars.ContextVar"


# ---------------------------------------------------------------------------
# storage slots


def _resolves_to(repo: Repo, mod: Module, e: ast.AST | None, fq: str) -> bool:
    if isinstance(e, ast.Subscript):
        e = e.value
    d = dotted(e) if e is not None else None
    return d is not None and repo.resolve(mod, d) == fq


def _ann_is_contextvar(repo: Repo, mod: Module, ann: ast.AST | None) -> bool:
    """annotation is ContextVar[...] possibly `| None` / Optional[...] - and nothing else."""
    if ann is None:
        return False
    if isinstance(ann, ast.Constant) and isinstance(ann.value, str):
        try:
            ann = ast.parse(ann.value, mode="eval").body
        except SyntaxError:
            return False
    if isinstance(ann, ast.BinOp) and isinstance(ann.op, ast.BitOr):
        parts = [ann.left, ann.right]
        members = []
        while parts:
            p = parts.pop()
            if isinstance(p, ast.BinOp) and isinstance(p.op, ast.BitOr):
                parts += [p.left, p.right]
            else:
                members.append(p)
        real = [m for m in members if not astq.is_none(m)]
        return bool(real) and all(_resolves_to(repo, mod, m, CONTEXTVAR) for m in real)
    if isinstance(ann, ast.Subscript) and (dotted(ann.value) or "").endswith("Optional"):
        return _ann_is_contextvar(repo, mod, ann.slice)
    return _resolves_to(repo, mod, ann, CONTEXTVAR)


def _is_contextvar(repo: Repo, u: Unit, e: ast.AST, depth: int = 0) -> bool:
    mod = u.fi.module
    if isinstance(e, ast.Call):
        return _resolves_to(repo, mod, e.func, CONTEXTVAR)
    if isinstance(e, ast.Name) and depth < 4:
        node = u.cfg.node_of(e)
        if node is None:
            return False
        defs = u.rd.reaching(node, e.id)
        if not defs:
            return False
        for d in defs:
            if d.kind == "param":
                a = u.fi.node.args
                arg = next((x for x in a.posonlyargs + a.args + a.kwonlyargs if x.arg == d.name), None)
                if arg is None or not _ann_is_contextvar(repo, mod, arg.annotation):
                    return False
            elif d.kind in ("assign", "walrus") and d.index is None and d.value is not None:
                if not _is_contextvar(repo, u, d.value, depth + 1):
                    return False
            else:
                return False
        return True
    return False


def _slot_stores(u: Unit) -> list[tuple[str, ast.AST, ast.AST]]:
    """(mangled attribute name, stored value, node) for every store of an attribute of the instance in u."""
    out: list[tuple[str, ast.AST, ast.AST]] = []
    sn = u.self_name()
    if sn is None:
        return out
    for n in u.walk():
        if isinstance(n, (ast.Assign, ast.AnnAssign)) and n.value is not None:
            tgs = n.targets if isinstance(n, ast.Assign) else [n.target]
            for tg in tgs:
                if isinstance(tg, ast.Attribute) and isinstance(tg.value, ast.Name) and tg.value.id == sn:
                    out.append((mangle(u.clsname, tg.attr), n.value, n))
        elif isinstance(n, ast.Call) and dotted(n.func) in ("object.__setattr__", "setattr", "super().__setattr__") and len(n.args) == 3:
            nm = astq.const_str(n.args[1])
            if nm is not None and isinstance(n.args[0], ast.Name) and n.args[0].id == sn:
                out.append((nm, n.args[2], n))
    return out


def _storage_classes(repo: Repo, mod: Module, probe: Flow) -> dict[str, tuple[ClassInfo, set[str]]]:
    out: dict[str, tuple[ClassInfo, set[str]]] = {}
    for c in mod.classes.values():
        slots: set[str] = set()
        for fi in c.methods.values():
            u = probe.unit_of(fi)
            for nm, val, _ in _slot_stores(u):
                if _is_contextvar(repo, u, val):
                    slots.add(nm)
        if slots:
            out[c.name] = (c, slots)
    return out


# ---------------------------------------------------------------------------
# small CFG helpers


def _only_raises(cfg: CFG, starts: list[Node], allowed: set[str | None]) -> tuple[bool, str]:
    """every path from starts ends at the raising exit, through raise statements of the allowed classes only."""
    if not starts:
        return False, "no such branch"
    r = cfg.reach(starts)
    if cfg.exit.id in r:
        return False, "a path from there returns normally"
    names = []
    for n in cfg.nodes:
        if n.id in r and isinstance(n.ast, ast.Raise):
            names.append(astq.raised_name(n.ast) if n.ast.exc is not None else None)
    if not names:
        return False, "no raise statement there"
    bad = [x for x in names if x not in allowed]
    return not bad, f"raises {sorted(set(str(x) if x else 're-raise' for x in names))}"


def _none_test(t: Node, is_subject) -> str | None:
    """label of the edge on which the tested subject IS None ('T' / 'F'), if t is such a test."""
    a = t.ast
    if t.kind != "test" or not isinstance(a, ast.Compare) or len(a.ops) != 1:
        return None
    l, op, r = a.left, a.ops[0], a.comparators[0]
    if astq.is_none(l):
        l, r = r, l
    if not astq.is_none(r) or not is_subject(l):
        return None
    if isinstance(op, (ast.Is, ast.Eq)):
        return "T"
    if isinstance(op, (ast.IsNot, ast.NotEq)):
        return "F"
    return None


def _other(label: str) -> str:
    return "F" if label == "T" else "T"


# ---------------------------------------------------------------------------


def run(ctx: Ctx) -> None:
    repo = ctx.repo
    mod = repo.module(LOCAL)
    for rid, text in {
        "R18.1": "copy-on-write: no object that may be the current ContextVar payload (result of <storage>.get) is mutated in place on any path, and every <storage>.set(v) binds an object created in the same call",
        "R18.2": "release rebinds the ContextVar to an empty container of the payload's kind on every path; release_local and LocalManager.cleanup release every managed local in the calling context, on every path and in every iteration (never as a short-circuited operand, under a test, or through a consumer that stops early); LocalManager.__init__ stores every local it was given, in a container materialised in the constructor (never the caller's possibly one-shot iterable)",
        "R18.3": "late binding: LocalProxy.__init__ only type-tests and stores the proxied object, each _get_current_object variant reads it at call time and keeps no state, _ProxyLookup.__get__ resolves on every instance access and stores nothing",
        "R18.4": "unbound behaviour: an empty payload reads as AttributeError / None, each proxy variant turns that into RuntimeError, _ProxyLookup.__get__ re-raises it exactly when no fallback is declared, __bool__ falls back to False and __repr__ to a text not derived from the bound object",
        "R18.5": "no other storage: Local/LocalStack instances hold only the ContextVar (__slots__), bound once in __init__; no mutable module-level or class-level container",
    }.items():
        ctx.rule(rid, text)

    probe = Flow(repo, mod, set())
    storage = _storage_classes(repo, mod, probe)
    ctx.floor("R18.5", "classes that keep a ContextVar in an instance slot", len(storage), 2)
    if not storage:
        raise AnalysisError("no class of werkzeug.local stores a ContextVar on its instances")
    slots: set[str] = set()
    for _, s in storage.values():
        slots |= s
    flow = Flow(repo, mod, slots)

    kinds = _payload_kinds(ctx, flow, storage)
    _r1(ctx, flow, storage)
    _r2(ctx, flow, storage, kinds)
    variants = _r3(ctx, flow, storage)
    _r4(ctx, flow, storage, kinds, variants)
    _r5(ctx, flow, storage)
    ctx.note("observation (not a finding): LocalStack.push returns the list it has just bound, so a caller can mutate the payload through it; outside the operations C18 quantifies over")


# ---------------------------------------------------------------------------
# payload kind + defaults


def _class_units(flow: Flow, c: ClassInfo) -> list[Unit]:
    return [u for u in flow.units if u.cls is c]


def _readers(flow: Flow, storage, c: ClassInfo) -> list[tuple[Unit, ast.Call]]:
    """`.get` calls on the ContextVar of storage class c: in its own methods, and in helpers outside the storage classes
    that are handed the ContextVar (or the instance) by a method of c."""
    out: list[tuple[Unit, ast.Call]] = []
    for u in flow.units:
        gets = flow.storage_calls(u, "get")
        if not gets:
            continue
        if u.cls is not None and u.cls.name in storage:
            owners = [u.cls]
        else:
            owners = [cu.cls for cu, _, _ in flow.call_sites(u) if cu.cls is not None and cu.cls.name in storage]
        for g in gets:
            own = list(owners)
            if not own:  # nobody in the module calls it: the class whose slot the receiver names
                recv = g.func.value if isinstance(g.func, ast.Attribute) else None
                if isinstance(recv, ast.Attribute):
                    own = [c2 for c2, sl in storage.values() if mangle(u.clsname, recv.attr) in sl]
            if any(o is c for o in own):
                out.append((u, g))
    return out


def _payload_kinds(ctx: Ctx, flow: Flow, storage) -> dict[str, str]:
    """per storage class the container kind its `.get(<default>)` calls agree on; each default is an R18.4 obligation."""
    kinds: dict[str, str] = {}
    for cname, (c, _) in sorted(storage.items()):
        seen: dict[str, int] = {}
        for u, g in _readers(flow, storage, c):
            k = flow.default_kind(g.args[0], u, c) if g.args else None
            who = u.fi.qualname if u.cls is c else f"{u.fi.qualname} (for {cname})"
            ctx.ob("R18.4", f"{who}: an unset context reads as the empty payload", k in ("dict", "list"),
                   f"`{norm(g)}`: default is {'an empty ' + k if k else 'missing or not an empty container literal (unset raises LookupError / differs from released)'}", u.fi, g, f"default of {norm(g)}" + ("" if u.cls is c else f" for {cname}"))
            if k:
                seen[k] = seen.get(k, 0) + 1
        if not seen:
            raise AnalysisError(f"{cname}: no `.get(<empty literal>)` on its ContextVar, payload kind unknown")
        kinds[cname] = max(seen, key=lambda k: seen[k])
        if len(seen) > 1:
            ctx.ob("R18.4", f"{cname}: all reads use the same empty default", False, f"defaults of kinds {seen}", c.fq, None, f"{cname} default kinds")
    return kinds


# ---------------------------------------------------------------------------
# R18.1


def _mutations(flow: Flow, u: Unit, muts: set[str]):
    """(node, receiver text, tags, construct) for every syntactic in-place mutation in u."""
    for n in u.walk():
        if isinstance(n, (ast.Subscript, ast.Attribute)) and isinstance(n.ctx, (ast.Store, ast.Del)):
            st = astq.stmt_of(u.fi, n) or n
            yield n, norm(n.value), flow.tags(n.value, u), norm(st) if not isinstance(st, (ast.For, ast.AsyncFor, ast.With, ast.AsyncWith)) else norm(n)
        elif isinstance(n, ast.AugAssign) and isinstance(n.target, ast.Name):
            yield n, n.target.id, flow.name_tags_at(n.target.id, n, u), norm(n)
        elif isinstance(n, ast.Call):
            f = n.func
            if isinstance(f, ast.Attribute) and f.attr in muts:
                yield n, norm(f.value), flow.tags(f.value, u), norm(n)
            if n.args:
                fq = flow.resolve_callee_name(n, u) or ""
                head, _, last = fq.rpartition(".")
                if (head in ("builtins.list", "builtins.dict", "builtins.set") and last in muts) or (head in ("operator", "_operator") and last in INPLACE_OPERATOR):
                    yield n, norm(n.args[0]), flow.tags(n.args[0], u), norm(n)


def _slot_uses_understood(ctx: Ctx, flow: Flow, storage) -> None:
    """every expression that evaluates to a storage ContextVar is used in a way the analysis follows: receiver of
    .get/.set, plain alias, argument of a helper of this module, identity test, or the constructor's store.  Anything
    else (returned, handed to foreign code, .reset ...) means reads or bindings may happen where the rules do not look:
    cannot decide.  This replaces a fixed count of `.get`/`.set` sites, which merged or extracted code undercuts."""
    for u in flow.units:
        for e in u.walk():
            if not isinstance(e, (ast.Attribute, ast.Name, ast.Call)) or not isinstance(getattr(e, "ctx", ast.Load()), ast.Load):
                continue
            if isinstance(e, ast.Attribute) and not (flow.self_ref(e.value, u) or isinstance(e.value, ast.Name)):
                continue
            if not flow.is_storage(e, u):
                continue
            par = astq.parent(e)
            while isinstance(par, ast.NamedExpr) and par.value is e:
                e, par = par, astq.parent(par)
            ok = False
            if isinstance(par, ast.Attribute) and par.value is e:
                ok = par.attr in ("get", "set", "name")
            elif isinstance(par, (ast.Assign, ast.AnnAssign)) and par.value is e:
                tgs = par.targets if isinstance(par, ast.Assign) else [par.target]
                ok = all(isinstance(x, ast.Name) for x in tgs) or (u.fi.name == "__init__" and u.outer is None)
            elif isinstance(par, ast.Compare) and all(isinstance(o, (ast.Is, ast.IsNot)) for o in par.ops):
                ok = True
            elif isinstance(par, ast.Expr):
                ok = True
            elif isinstance(par, ast.Call) and any(x is e for x in par.args) or isinstance(par, ast.keyword):
                call = par if isinstance(par, ast.Call) else astq.parent(par)
                if isinstance(call, ast.Call):
                    d = dotted(call.func)
                    if d in ("isinstance", "id", "type", "repr"):
                        ok = True
                    elif d in ("object.__setattr__", "setattr", "super().__setattr__"):
                        ok = u.fi.name == "__init__" and u.outer is None
                    else:
                        callees = flow.callees(call, u)
                        ok = bool(callees)
                        for cu, off in callees:
                            a = cu.fi.node.args
                            names = [x.arg for x in a.posonlyargs + a.args + a.kwonlyargs]
                            if not any(flow.site_arg(cu, nm, call, off)[1] is e for nm in names):
                                ok = False
            if not ok:
                ctx.error(f"R18.1: the storage ContextVar `{norm(e)}` in {u.fi.qualname} is used in a way the analysis does not follow (`{norm(par) if par is not None else '?'}`): reads/bindings may happen out of sight")


def _r1(ctx: Ctx, flow: Flow, storage) -> None:
    repo = ctx.repo
    muts = repo.mutators("list") | repo.mutators("dict") | repo.mutators("set")
    gets: list[tuple[Unit, ast.Call]] = []
    for u in flow.units:
        for g in flow.storage_calls(u, "get"):
            flow.tags(g, u)  # registers the origin
            gets.append((u, g))
    # every storage class has at least one read (checked with the payload kinds); merging duplicated reads into one helper
    # must not undercut the floor, so it only guards against the matcher finding nothing at all
    ctx.floor("R18.1", "reads of a storage ContextVar (`<storage>.get`)", len(gets), 1)
    for need, table in (("append", "list"), ("pop", "list"), ("update", "dict"), ("clear", "dict"), ("add", "set")):
        if need not in repo.mutators(table):
            raise AnalysisError(f"typeshed mutator table of {table} lacks `{need}`: in-place mutations would go unseen")
    _slot_uses_understood(ctx, flow, storage)

    reached: dict[int, list[str]] = {}
    n_mut = 0
    for u in flow.units:
        for node, recv, tags, construct in _mutations(flow, u, muts):
            sh = shared(tags)
            if FRESH not in tags and not sh:
                continue  # receiver is neither a payload nor a container built here (self, parameters, ...)
            n_mut += 1
            ctx.ob("R18.1", f"{u.fi.qualname}: `{construct}` mutates an object no other context can see", not sh,
                   f"receiver `{recv}` is {flow.describe(tags)}" + ("" if not sh else ": on some path it is the object other contexts may hold, mutated in place"), u.fi, node, construct)
            for s in sh:
                reached.setdefault(s[1], []).append(f"{u.fi.qualname}: `{construct}`")
    # no floor on n_mut: a functional rewrite (`{**old, k: v}`, `old + [x]`, a comprehension) legitimately has none
    for u, g in gets:
        if id(g) not in reached:
            ctx.ob("R18.1", f"{u.fi.qualname}: the payload read by `{norm(g)}` is never mutated in place", True, "reaches no mutation site (through names, helper returns or helper parameters)", u.fi, g, f"read {norm(g)}")

    n_set = 0
    for u in flow.units:
        for s in flow.storage_calls(u, "set"):
            n_set += 1
            arg = s.args[0] if s.args else next((k.value for k in s.keywords), None)
            tags = flow.tags(arg, u) if arg is not None else frozenset()
            ok = arg is not None and set(tags) == {FRESH}
            ctx.ob("R18.1", f"{u.fi.qualname}: `{norm(s)}` binds an object created in this call", ok,
                   f"argument is {flow.describe(tags)}" + ("" if ok else " on some path: not a private copy"), u.fi, s, norm(s))
    # a release method that lost its `.set` is reported by R18.2; it must not hide behind this floor
    lacking = [cn for cn, (c, _) in storage.items() if "__release_local__" in c.methods and not flow.bindings(flow.unit_of(c.methods["__release_local__"]))]
    ctx.floor("R18.1", "bindings of a storage ContextVar (`<storage>.set`; plus release methods without one, reported by R18.2)", n_set + len(lacking), 2)


# ---------------------------------------------------------------------------
# R18.2


class _Keeps:
    """does a value stored by LocalManager.__init__ contain what the caller passed in parameter ``lp``?  Local names are
    followed through their reaching definitions, conditional expressions and branches are excused exactly where the
    parameter is known to be None, and a container that starts empty may be filled afterwards."""

    GROW = {"append", "extend", "insert", "add", "update"}

    def __init__(self, flow: Flow, u: Unit, lp: str, attr: str):
        self.flow, self.u, self.lp, self.attr = flow, u, lp, attr
        cfg = u.cfg
        self.none_edges = []
        for t_ in cfg.tests():
            nl = _none_test(t_, lambda e: astq.is_name(e, lp))
            if nl is not None:
                self.none_edges.append((t_, nl))
            elif t_.kind == "test" and astq.is_name(t_.ast, lp):
                self.none_edges.append((t_, "F"))  # `if not locals`: None or an empty collection - nothing to keep either way

    def absent(self, node: Node) -> bool:
        return any(self.u.cfg.edge_dominates(t_, l, node) for t_, l in self.none_edges)

    def keeps(self, e: ast.AST | None, node: Node, depth: int = 0) -> str | None:
        """reason text when e (evaluated in node) keeps the locals, else None."""
        if e is None or depth > 6:
            return None
        if self.absent(node):
            return "only when no locals were given"
        if isinstance(e, ast.IfExp):
            nl = None
            t_ = e.test.operand if isinstance(e.test, ast.UnaryOp) and isinstance(e.test.op, ast.Not) else e.test
            flip = t_ is not e.test
            if isinstance(t_, ast.Compare) and len(t_.ops) == 1:
                l, op, r = t_.left, t_.ops[0], t_.comparators[0]
                if astq.is_none(l):
                    l, r = r, l
                if astq.is_none(r) and astq.is_name(l, self.lp):
                    nl = isinstance(op, (ast.Is, ast.Eq)) != flip  # True: body is the None branch
            elif astq.is_name(t_, self.lp):
                nl = flip  # `x if locals else []` / `[] if not locals else x`
            parts = []
            for is_body, br in ((True, e.body), (False, e.orelse)):
                if nl is not None and nl == is_body:
                    continue
                parts.append(self.keeps(br, node, depth + 1))
            return None if (not parts or any(p is None for p in parts)) else parts[0]
        for x in ast.walk(e):
            if not isinstance(x, ast.Name) or not isinstance(x.ctx, ast.Load):
                continue
            if x.id == self.lp:
                return "built from the parameter"
            defs = self.u.rd.reaching(node, x.id)
            if defs and all(self._def_keeps(d, depth) for d in defs):
                return f"built from `{x.id}`, which holds the parameter's locals"
        return None

    def _def_keeps(self, d, depth: int) -> bool:
        if d.node is None or d.value is None or d.kind not in ("assign", "walrus", "unpack", "for", "aug"):
            return False
        if self.keeps(d.value, d.node, depth + 1) is not None:
            return True
        return self.built_up(d.node, lambda e, nm=d.name: astq.is_name(e, nm))

    def built_up(self, start: Node, is_recv) -> bool:
        """every path from start to the normal exit on which locals were given passes a statement that puts them into the container."""
        cfg = self.u.cfg
        grow: list[Node] = []
        for n in cfg.nodes:
            a = n.ast
            if a is None or n is start:
                continue
            hit = False
            if n.kind == "stmt" and isinstance(a, ast.AugAssign) and is_recv(a.target) and self.keeps(a.value, n, 1) is not None:
                hit = True
            elif n.kind in ("stmt", "test"):
                for c_ in ast.walk(a):
                    if isinstance(c_, ast.Call) and isinstance(c_.func, ast.Attribute) and c_.func.attr in self.GROW and is_recv(c_.func.value) and any(self.keeps(x, n, 1) is not None for x in c_.args):
                        hit = True
            elif n.kind == "loop" and isinstance(a, (ast.For, ast.AsyncFor)) and self.keeps(a.iter, n, 1) is not None:
                # for x in <locals>: container.append(x)
                for st in a.body:
                    for c_ in ast.walk(st):
                        if isinstance(c_, ast.Call) and isinstance(c_.func, ast.Attribute) and c_.func.attr in self.GROW and is_recv(c_.func.value):
                            hit = True
            if hit:
                grow.append(n)
        if not grow:
            return False
        starts = [s for s, l in start.succs if l != "exc" and not any(s is g for g in grow)]
        if not starts:
            return True
        r = cfg.reach(starts, avoid_nodes=grow, avoid_edges=self.none_edges)
        return cfg.exit.id not in r

    def reiterable_guard(self, node: Node) -> bool:
        for t_, l in self.u.cfg.guards(node):
            e = t_.ast
            if l == "T" and isinstance(e, ast.Call) and dotted(e.func) == "isinstance" and len(e.args) == 2 and astq.is_name(e.args[0], self.lp):
                ts = e.args[1].elts if isinstance(e.args[1], ast.Tuple) else [e.args[1]]
                if ts and all(dotted(x) in ("list", "tuple", "set", "frozenset") for x in ts):
                    return True
        return False


RELEASE = "__release_local__"
COPYING = ("list", "tuple", "reversed", "iter", "sorted")


def _param_subject(u: Unit, pname: str):
    """recogniser of 'the object passed in parameter pname', not rebound on the way."""

    def is_subject(e: ast.AST) -> bool:
        if not astq.is_name(e, pname):
            return False
        n = u.cfg.node_of(e)
        defs = u.rd.reaching(n, pname) if n is not None else frozenset()
        return bool(defs) and all(d.kind == "param" for d in defs)

    return is_subject


def _param_receiving(flow: Flow, cu: Unit, call: ast.Call, off: int, is_subject) -> str | None:
    a = cu.fi.node.args
    for nm in [x.arg for x in a.posonlyargs + a.args + a.kwonlyargs]:
        how, arg = flow.site_arg(cu, nm, call, off)
        if how == "arg" and arg is not None and is_subject(arg):
            return nm
    return None


def _releases_param(flow: Flow, cu: Unit, pname: str, rl: FuncInfo | None, depth: int) -> bool:
    """does calling cu release, on every normal path and in the calling context, the local passed for pname?"""
    if isinstance(cu.fi.node, ast.AsyncFunctionDef) or any(isinstance(n, (ast.Yield, ast.YieldFrom)) for n in cu.walk()):
        return False  # calling a generator / coroutine function runs nothing
    calls = _release_calls(flow, cu, _param_subject(cu, pname), rl, depth)
    nodes = [x for x in (flow.run_node(c_, cu) for c_ in calls) if x is not None]
    return bool(nodes) and cu.cfg.all_paths_pass(cu.cfg.entry, [cu.cfg.exit], nodes)


def _release_calls(flow: Flow, u: Unit, is_subject, rl: FuncInfo | None, depth: int = 0) -> list[ast.Call]:
    """calls in u that release the local ``is_subject`` recognises: `<it>.__release_local__()`, `release_local(<it>)`
    (whose own body is a separate obligation), or a helper of this module that releases the parameter receiving it."""
    out: list[ast.Call] = []
    for c_ in u.walk():
        if not isinstance(c_, ast.Call):
            continue
        f = c_.func
        if isinstance(f, ast.Attribute) and f.attr == RELEASE and is_subject(f.value) and not c_.args and not c_.keywords:
            out.append(c_)
            continue
        callees = flow.callees(c_, u)
        good = bool(callees)
        for tu, off in callees:
            pn = _param_receiving(flow, tu, c_, off, is_subject)
            if pn is None:
                good = False
            elif rl is not None and tu.fi is rl:
                continue
            elif depth >= 2 or tu is u or not _releases_param(flow, tu, pn, rl, depth + 1):
                good = False
        if good:
            out.append(c_)
    return out


def _empty_edges(flow: Flow, cu: Unit, is_managed) -> list[tuple[Node, str]]:
    """(test, label) edges on which the managed container is known to be empty: nothing to release beyond them."""
    out: list[tuple[Node, str]] = []

    def is_len(e: ast.AST) -> bool:
        return isinstance(e, ast.Call) and dotted(e.func) == "len" and len(e.args) == 1 and is_managed(e.args[0], cu.cfg.node_of(e))

    for t_ in cu.cfg.tests():
        e = t_.ast
        if t_.kind != "test" or e is None:
            continue
        if is_managed(e, t_) or is_len(e):
            out.append((t_, "F"))
        elif isinstance(e, ast.Compare) and len(e.ops) == 1:
            l, op, r = e.left, e.ops[0], e.comparators[0]
            if isinstance(l, ast.Constant):
                l, r = r, l
                op = {ast.Lt: ast.Gt, ast.Gt: ast.Lt, ast.LtE: ast.GtE, ast.GtE: ast.LtE}.get(type(op), type(op))()
            if is_len(l) and isinstance(r, ast.Constant) and type(r.value) is int:
                k = r.value
                if (isinstance(op, ast.Eq) and k == 0) or (isinstance(op, ast.Lt) and k == 1) or (isinstance(op, ast.LtE) and k == 0):
                    out.append((t_, "T"))
                elif (isinstance(op, (ast.NotEq, ast.Gt)) and k == 0) or (isinstance(op, ast.GtE) and k == 1):
                    out.append((t_, "F"))
    return out


def _cleanup(ctx: Ctx, flow: Flow, cu: Unit, attr: str, rl: FuncInfo) -> None:
    """LocalManager.cleanup: some iteration over ALL managed locals executes a release of the element in EVERY
    iteration (not as a short-circuited operand, not on some paths only, not pulled lazily by a consumer that stops
    early), is never left early, and is reached on every path on which there is something to release."""
    cfg = cu.cfg
    cleanup = cu.fi

    def is_managed(e: ast.AST | None, at: Node | None, depth: int = 0) -> bool:
        """e evaluates to the managed locals (the attribute, a plain alias, a full copy / re-ordering of it)."""
        if e is None or depth > 6:
            return False
        if isinstance(e, ast.NamedExpr):
            return is_managed(e.value, at, depth + 1)
        if isinstance(e, ast.Call) and dotted(e.func) in COPYING and len(e.args) == 1 and not e.keywords:
            return is_managed(e.args[0], at, depth + 1)
        if isinstance(e, ast.Subscript) and isinstance(e.slice, ast.Slice) and e.slice.lower is None and e.slice.upper is None and e.slice.step is None:
            return is_managed(e.value, at, depth + 1)
        if isinstance(e, ast.Name) and at is not None:
            defs = cu.rd.reaching(at, e.id)
            if len(defs) == 1:
                d0 = next(iter(defs))
                if d0.kind in ("assign", "walrus") and d0.index is None and d0.value is not None:
                    return is_managed(d0.value, d0.node, depth + 1)
            return False
        return isinstance(e, ast.Attribute) and flow.self_ref(e.value, cu) and e.attr == attr

    def element(target: ast.AST, it: ast.AST, at: Node | None) -> str | None:
        """name bound to each managed local by `for <target> in <it>` (also `for i, x in enumerate(<managed>)`)."""
        if isinstance(target, ast.Name) and is_managed(it, at):
            return target.id
        if isinstance(target, (ast.Tuple, ast.List)) and len(target.elts) == 2 and isinstance(target.elts[1], ast.Name) and isinstance(it, ast.Call) and dotted(it.func) == "enumerate" and it.args and is_managed(it.args[0], at):
            return target.elts[1].id
        return None

    def never_left_early(loop: ast.AST) -> bool:
        head = cfg.node_of(loop)
        if head is None:
            return False
        r = cfg.reach(cfg.succ(head, "T"), avoid_nodes=[head])
        return cfg.exit.id not in r and cfg.raise_exit.id not in r

    def consumer_verdict(lazy: ast.AST) -> tuple[str, str]:
        """who pulls a lazy iterator (generator expression / map object), and does it pull to the end?"""
        par = astq.parent(lazy)
        if isinstance(par, ast.Call) and par.args and par.args[0] is lazy:
            d = dotted(par.func) or "?"
            if d in STOPPING_EARLY:
                return "bad", f"it is pulled by `{d}()`, which stops at the first deciding element: the locals after it are never released"
            if d in EXHAUSTING:
                return "ok", f"pulled to the end by `{d}()`"
            return "unknown", f"pulled by `{d}(...)`: unknown whether to the end"
        if isinstance(par, (ast.For, ast.AsyncFor)) and par.iter is lazy:
            if never_left_early(par):
                return "ok", "pulled to the end by a for loop that is never left early"
            return "bad", "the for loop pulling it can be left early (break / return / raise)"
        if isinstance(par, ast.Expr):
            return "bad", "it is never consumed: nothing runs"
        return "unknown", f"handed to `{norm(par) if par is not None else '?'}`: unknown whether it is pulled to the end"

    empty = _empty_edges(flow, cu, is_managed)

    def always_reached(node: Node | None) -> bool:
        return node is not None and cfg.exit.id not in cfg.reach(cfg.entry, avoid_nodes=[node], avoid_edges=empty)

    verdicts: list[tuple[str, str, ast.AST, str]] = []  # status, fact, node, construct

    for x in cu.walk():
        # ---- for statement ---------------------------------------------------------------------------
        if isinstance(x, (ast.For, ast.AsyncFor)):
            head = cfg.node_of(x)
            var = element(x.target, x.iter, head)
            if var is None or head is None:
                continue
            inside = {id(y) for st in x.body for y in ast.walk(st)}

            def is_elem(e: ast.AST, var=var, head=head) -> bool:
                if not astq.is_name(e, var):
                    return False
                n_ = cfg.node_of(e)
                defs = cu.rd.reaching(n_, var) if n_ is not None else frozenset()
                return bool(defs) and all(d.kind == "for" and d.node is head for d in defs)

            rel = [c_ for c_ in _release_calls(flow, cu, is_elem, rl) if id(c_) in inside]
            key = f"cleanup releases {var}"
            if not rel:
                verdicts.append(("bad", "no call in the loop body releases the loop variable (`<it>.__release_local__()`, `release_local(<it>)`, or a helper of the module that does so on every path)", x, key))
                continue
            rnodes = [n_ for n_ in (flow.run_node(c_, cu) for c_ in rel) if n_ is not None]
            if not rnodes:
                verdicts.append(("bad", f"`{norm(rel[0])}` is not executed in every iteration: {flow.why_not_run(rel[0], cu)}", x, key))
                continue
            starts = [s for s in cfg.succ(head, "T") if not any(s is r_ for r_ in rnodes)]
            r = cfg.reach(starts, avoid_nodes=rnodes) if starts else set()
            if any(n_.id in r for n_ in (head, cfg.exit, cfg.raise_exit)):
                verdicts.append(("bad", "a path through the loop body (or out of the loop) skips the release", x, key))
            elif not never_left_early(x):
                verdicts.append(("bad", "the loop can be left (break / return / raise) before every managed local was released", x, key))
            elif not always_reached(head):
                verdicts.append(("bad", "a path through the method on which locals may be managed bypasses the release loop", x, key))
            else:
                verdicts.append(("ok", f"`{norm(rel[0])}` is executed in every iteration, the loop is never left early and is reached on every path (paths where nothing is managed excepted)", x, key))
        # ---- comprehension ---------------------------------------------------------------------------
        elif isinstance(x, (ast.ListComp, ast.SetComp, ast.DictComp, ast.GeneratorExp)):
            node = cfg.node_of(x)
            g0 = x.generators[0]
            var = element(g0.target, g0.iter, node)
            if var is None or node is None:
                continue
            inside = {id(y) for y in ast.walk(x)}

            def is_elem(e: ast.AST, var=var, g0=g0) -> bool:
                return isinstance(e, ast.Name) and e.id == var and bound_in_enclosing_comp(e, cu.fi.node) is g0

            rel = [c_ for c_ in _release_calls(flow, cu, is_elem, rl) if id(c_) in inside]
            key = "cleanup releases in a comprehension"
            if not rel:
                continue  # a comprehension over the locals that releases nothing: not the release iteration
            whys = [why_conditional(c_, node.ast, stop=x) for c_ in rel]
            if g0.ifs:
                verdicts.append(("bad", f"the comprehension filters the managed locals (`if {norm(g0.ifs[0])}`): the others are not released", x, key))
            elif all(w is not None for w in whys):
                verdicts.append(("bad", f"`{norm(rel[0])}` is not executed for every element: {whys[0]}", x, key))
            else:
                status, fact = ("ok", "built eagerly, element by element") if not isinstance(x, ast.GeneratorExp) else consumer_verdict(x)
                outer = astq.parent(x) if isinstance(x, ast.GeneratorExp) and isinstance(astq.parent(x), ast.Call) else x
                w = why_conditional(outer, node.ast)
                if status == "ok" and w is not None:
                    status, fact = "bad", f"the comprehension itself is not always evaluated: {w}"
                elif status == "ok" and not always_reached(node):
                    status, fact = "bad", "a path through the method on which locals may be managed bypasses the releasing comprehension"
                verdicts.append((status, f"`{norm(rel[0])}` for every element of `{norm(g0.iter)}`; {fact}", x, key))
        # ---- map(release, managed) -------------------------------------------------------------------
        elif isinstance(x, ast.Call) and dotted(x.func) == "map" and len(x.args) == 2 and not x.keywords:
            node = cfg.node_of(x)
            if node is None or not is_managed(x.args[1], node):
                continue
            fn = x.args[0]
            target = None
            if isinstance(fn, ast.Name) and not cu.rd.reaching(node, fn.id) and fn.id in flow.module.functions:
                target = flow.unit_of(flow.module.functions[fn.id])
            releasing = False
            if isinstance(fn, ast.Lambda) and len(fn.args.args) == 1 and isinstance(fn.body, ast.Call):
                # map(lambda x: x.__release_local__(), ...) / map(lambda x: release_local(x), ...): the body IS the release
                b, pn = fn.body, fn.args.args[0].arg
                releasing = (isinstance(b.func, ast.Attribute) and b.func.attr == RELEASE and astq.is_name(b.func.value, pn) and not b.args) or (
                    isinstance(b.func, ast.Name) and flow.module.functions.get(b.func.id) is rl and not cu.rd.reaching(node, b.func.id) and len(b.args) == 1 and astq.is_name(b.args[0], pn))
            if target is not None:
                a_ = target.fi.node.args
                pos = [y.arg for y in a_.posonlyargs + a_.args]
                releasing = bool(pos) and (target.fi is rl or _releases_param(flow, target, pos[0], rl, 1))
            if not releasing:
                continue
            key = "cleanup releases through map"
            status, fact = consumer_verdict(x)
            w = why_conditional(x, node.ast)
            if status == "ok" and w is not None:
                status, fact = "bad", f"the map is not always evaluated: {w}"
            elif status == "ok" and not always_reached(node):
                status, fact = "bad", "a path through the method on which locals may be managed bypasses it"
            verdicts.append((status, f"`{norm(x)}`: {fact}", x, key))

    oks = [v for v in verdicts if v[0] == "ok"]
    fact0 = f"{len(verdicts)} iteration(s) over self.{attr} (for loop / comprehension / map)"
    if not verdicts:
        # why not?  an iteration over only a part of the container is a defect; a release in a shape that is not modelled
        # (while loop over a work list, recursion, a callable built elsewhere ...) cannot be decided either way
        def mentions(e: ast.AST) -> bool:
            return any(isinstance(y, ast.Attribute) and y.attr == attr and flow.self_ref(y.value, cu) for y in ast.walk(e))

        partial_ = [it for it in ([x.iter for x in cu.walk() if isinstance(x, (ast.For, ast.AsyncFor))] + [g.iter for x in cu.walk() if isinstance(x, (ast.ListComp, ast.SetComp, ast.DictComp, ast.GeneratorExp)) for g in x.generators])
                    if any(isinstance(y, ast.Subscript) and is_managed(y.value, cfg.node_of(y)) and not is_managed(y, cfg.node_of(y)) for y in ast.walk(it))]
        releasing_somehow = any(
            isinstance(y, ast.Call) and ((isinstance(y.func, ast.Attribute) and y.func.attr == RELEASE) or any(tu.fi is rl for tu, _ in flow.callees(y, cu)) or any(astq.is_name(a_, rl.name) for a_ in y.args))
            for y in ast.walk(cleanup.node))
        if partial_:
            fact0 = f"iterates over `{norm(partial_[0])}`: only a part of self.{attr}"
        elif releasing_somehow and mentions(cleanup.node):
            ctx.error(f"R18.2: LocalManager.cleanup uses self.{attr} and releases something, but not in an iteration this rule understands (for loop / comprehension / map over the container): cannot decide whether every managed local is released")
            return
    ctx.ob("R18.2", "LocalManager.cleanup iterates over all managed locals", bool(verdicts), fact0, cleanup, cleanup.node, "cleanup loop")
    if oks:
        for _, fact, node_, key in oks:
            ctx.ob("R18.2", "LocalManager.cleanup releases each managed local unconditionally", True, fact, cleanup, node_, key)
        return
    if any(v[0] == "unknown" for v in verdicts) and not any(v[0] == "bad" for v in verdicts):
        ctx.error("R18.2: LocalManager.cleanup releases its locals through a lazy iterator whose consumer is not understood (" + "; ".join(v[1] for v in verdicts if v[0] == "unknown") + ")")
        return
    for status, fact, node_, key in verdicts:
        if status == "bad":
            ctx.ob("R18.2", "LocalManager.cleanup releases each managed local unconditionally", False, fact, cleanup, node_, key)


def _r2(ctx: Ctx, flow: Flow, storage, kinds: dict[str, str]) -> None:
    repo = ctx.repo
    mod = flow.module
    n = 0
    for cname, (c, _) in sorted(storage.items()):
        rel = c.methods.get("__release_local__")
        if rel is None:
            raise AnalysisError(f"{cname}.__release_local__ missing")
        u = flow.unit_of(rel)
        sets = flow.bindings(u)
        nodes = [x for x in (flow.run_node(s, u) for s, _ in sets) if x is not None]
        covered = bool(nodes) and u.cfg.all_paths_pass(u.cfg.entry, [u.cfg.exit], nodes)
        cond = next((f"`{norm(s)}`: {w}" for s, w in ((s, flow.why_not_run(s, u)) for s, _ in sets) if w is not None), None)
        n += 1
        ctx.ob("R18.2", f"{cname}.__release_local__ rebinds the ContextVar on every path", covered,
               f"{len(sets)} `.set` call(s)" + ("" if covered else f"; {cond}" if cond else "; a normal path through the method binds nothing: the payload stays (or is emptied in place)"), rel, rel.node, f"{cname} release rebinds")
        for s, v in sets:
            k = flow.default_kind(v, u, c)
            ctx.ob("R18.2", f"{cname}.__release_local__ binds an empty {kinds[cname]}", k == kinds[cname], f"`{norm(s)}`: {'empty ' + k if k else 'not an empty container literal'}; reads default to an empty {kinds[cname]}", rel, s, f"{cname} release value {norm(s)}")
    ctx.floor("R18.2", "storage classes with a __release_local__", n, 2)

    # release_local(x) -> x.__release_local__()
    rl = mod.functions.get("release_local")
    if rl is None:
        raise AnalysisError("release_local missing")
    ru = flow.unit_of(rl)
    a = rl.node.args
    p = (a.posonlyargs + a.args)[0].arg if (a.posonlyargs + a.args) else None
    calls = _release_calls(flow, ru, _param_subject(ru, p), None) if p is not None else []
    nodes = [x for x in (flow.run_node(c_, ru) for c_ in calls) if x is not None]
    cond = next((f"; `{norm(c_)}`: {w}" for c_, w in ((c_, flow.why_not_run(c_, ru)) for c_ in calls) if w is not None), "")
    ctx.ob("R18.2", "release_local calls its argument's __release_local__ on every path", bool(nodes) and ru.cfg.all_paths_pass(ru.cfg.entry, [ru.cfg.exit], nodes), f"{len(calls)} call(s) of `{p}.__release_local__()`{cond}", rl, rl.node, "release_local delegates")

    # LocalManager
    lm = repo.cls(f"{LOCAL}.LocalManager")
    init = lm.methods.get("__init__")
    cleanup = lm.methods.get("cleanup")
    if init is None or cleanup is None:
        raise AnalysisError("LocalManager.__init__ / cleanup missing")
    iu = flow.unit_of(init)
    ia = init.node.args
    ipos = [x.arg for x in ia.posonlyargs + ia.args]
    if len(ipos) < 2:
        raise AnalysisError("LocalManager.__init__ takes no locals parameter")
    lp = ipos[1]
    stores = [(nm, v, node) for nm, v, node in _slot_stores(iu)]
    attrs = {nm for nm, _, _ in stores}
    if len(attrs) != 1:
        raise AnalysisError(f"LocalManager.__init__ stores {sorted(attrs)}: expected one attribute holding the managed locals")
    attr = next(iter(attrs))
    snodes = [x for x in (flow.run_node(node, iu) for _, _, node in stores) if x is not None]
    ctx.ob("R18.2", "LocalManager.__init__ records the managed locals on every path", iu.cfg.all_paths_pass(iu.cfg.entry, [iu.cfg.exit], snodes), f"{len(stores)} store(s) of self.{attr}", init, init.node, "manager records locals")
    keeper = _Keeps(flow, iu, lp, attr)
    for _, v, node in stores:
        cn = iu.cfg.node_of(node)
        why = keeper.keeps(v, cn) if cn is not None else None
        if why is None and cn is not None and keeper.built_up(cn, lambda e: isinstance(e, ast.Attribute) and e.attr == attr and flow.self_ref(e.value, iu)):
            why = f"filled from `{lp}` afterwards on every path where locals were given"
        ctx.ob("R18.2", f"LocalManager.__init__: `{norm(node)}` keeps every local it was given", why is not None,
               why or f"does not use `{lp}` although locals were given", init, node, norm(node))
        # cleanup() iterates the stored object once per call: it must be a container built here, not the caller's
        # iterable (a generator / iterator argument would be exhausted by the first cleanup, later ones release nothing)
        tags = flow.tags(v, iu)
        own = set(tags) == {FRESH}
        fact = f"stored value is {flow.describe(tags)}"
        if not own and cn is not None and keeper.reiterable_guard(cn):
            own, fact = True, f"`{lp}` itself, but only when it is a builtin list/tuple/set (re-iterable)"
        ctx.ob("R18.2", f"LocalManager.__init__: `{norm(node)}` stores a container materialised in the constructor", own,
               fact + ("" if own else f": `{lp}` may be a one-shot iterator, exhausted by the first cleanup() so that later cleanups release nothing"), init, node, f"materialises {norm(node)}")

    _cleanup(ctx, flow, flow.unit_of(cleanup), attr, rl)


# ---------------------------------------------------------------------------
# R18.3


ALLOWED_ON_TARGET = {"isinstance", "callable", "type", "id", "object.__setattr__"}


class Variant:
    def __init__(self, unit: Unit, kind: str, defnode: ast.AST):
        self.unit = unit
        self.kind = kind  # Local | LocalStack | ContextVar | callable | ?
        self.defnode = defnode


def _r3(ctx: Ctx, flow: Flow, storage) -> list[Variant]:
    repo = ctx.repo
    mod = flow.module
    lp = repo.cls(f"{LOCAL}.LocalProxy")
    init = lp.methods.get("__init__")
    if init is None:
        raise AnalysisError("LocalProxy.__init__ missing")
    iu = flow.unit_of(init)
    a = init.node.args
    pos = [x.arg for x in a.posonlyargs + a.args]
    if len(pos) < 2:
        raise AnalysisError("LocalProxy.__init__ takes no proxied object")
    P = pos[1]

    # (a) every use of the proxied object at construction time is a type test or the store
    outer_exprs: list[ast.AST] = []
    for n in iu.walk():
        outer_exprs.append(n)
        if isinstance(n, (ast.FunctionDef, ast.AsyncFunctionDef)):
            extra = list(n.decorator_list) + list(n.args.defaults) + [d for d in n.args.kw_defaults if d is not None]
            for e in extra:
                outer_exprs.extend(ast.walk(e))
    n_use = 0
    for n in outer_exprs:
        if not (isinstance(n, ast.Name) and n.id == P):
            continue
        if isinstance(n.ctx, ast.Store):
            ctx.ob("R18.3", "LocalProxy.__init__ does not rebind the proxied object", False, f"`{P}` is reassigned in the constructor", init, n, f"rebinds {P}")
            continue
        par = astq.parent(n)
        ok = isinstance(par, ast.Call) and any(x is n for x in par.args) and dotted(par.func) in ALLOWED_ON_TARGET
        n_use += 1
        ctx.ob("R18.3", f"LocalProxy.__init__ only type-tests or stores `{P}`", ok,
               f"`{norm(par) if par is not None else P}`" + ("" if ok else ": evaluated when the proxy is created, not when it is used"), init, n, f"constructor use {norm(par) if par is not None else P}")
    ctx.floor("R18.3", "uses of the proxied object in LocalProxy.__init__ outside the nested functions", n_use, 4)

    # (b) the installed _get_current_object variants
    installs = [c_ for c_ in iu.walk() if isinstance(c_, ast.Call) and dotted(c_.func) in ("object.__setattr__", "setattr") and len(c_.args) == 3 and astq.const_str(c_.args[1]) == "_get_current_object"]
    if len(installs) != 1:
        raise AnalysisError(f"LocalProxy.__init__: {len(installs)} installation(s) of _get_current_object, expected 1")
    inst = installs[0]
    inode = iu.cfg.node_of(inst)
    ctx.ob("R18.3", "LocalProxy.__init__ installs _get_current_object on every normal path", inode is not None and flow.run_node(inst, iu) is inode and iu.cfg.all_paths_pass(iu.cfg.entry, [iu.cfg.exit], [inode]), norm(inst) + (f": {flow.why_not_run(inst, iu)}" if flow.why_not_run(inst, iu) else ""), init, inst, "installs resolver")
    val = inst.args[2]
    variants: list[Variant] = []
    kind_names = {f"werkzeug.{LOCAL}.Local": "Local", f"werkzeug.{LOCAL}.LocalStack": "LocalStack", CONTEXTVAR: "ContextVar"}

    def plain(e: ast.AST, at: Node, depth: int = 0) -> ast.AST:
        """a name that is a plain copy of another expression (one reaching definition) stands for that expression."""
        if isinstance(e, ast.NamedExpr):
            return plain(e.value, at, depth)
        if isinstance(e, ast.Name) and depth < 4:
            defs = iu.rd.reaching(at, e.id)
            if len(defs) == 1:
                d0 = next(iter(defs))
                if d0.kind in ("assign", "walrus") and d0.index is None and d0.value is not None and d0.node is not None:
                    return plain(d0.value, d0.node, depth + 1)
        return e

    def type_test(t_: Node, label: str) -> str | None:
        """kind of the proxied object that taking edge (t_, label) establishes."""
        e = plain(t_.ast, t_) if t_.ast is not None else None
        if label != "T" or not isinstance(e, ast.Call) or not e.args or not astq.is_name(e.args[0], P):
            return None
        fn = dotted(e.func)
        if fn == "isinstance" and len(e.args) == 2:
            fq = repo.resolve(mod, dotted(e.args[1]) or "?") or ""
            return kind_names.get(fq, fq or "?")
        if fn == "callable":
            return "callable"
        return None

    def resolver_defs(name: str, at: Node, depth: int = 0) -> list | None:
        """function definitions a name may stand for (through plain renamings `getter = _from_stack`)."""
        out = []
        for d in iu.rd.reaching(at, name):
            if d.kind == "def" and isinstance(d.stmt, (ast.FunctionDef, ast.AsyncFunctionDef)):
                out.append(d)
            elif d.kind in ("assign", "walrus") and d.index is None and isinstance(d.value, ast.Name) and d.node is not None and depth < 4:
                sub = resolver_defs(d.value.id, d.node, depth + 1)
                if sub is None:
                    return None
                out.extend(sub)
            else:
                return None
        return out or None

    rdefs = resolver_defs(val.id, inode) if isinstance(val, ast.Name) and inode is not None else None
    if rdefs is None:
        # a factory call, a lambda, functools.partial ...: nothing says it is wrong, but its body cannot be inspected here
        raise AnalysisError(f"LocalProxy.__init__ installs `{norm(val)}` as _get_current_object: not (only) functions defined in the constructor, cannot inspect the resolvers")
    seen_defs: set[int] = set()
    for d in sorted(rdefs, key=lambda d: getattr(d.stmt, "lineno", 0)):
        if id(d.stmt) in seen_defs:
            continue
        seen_defs.add(id(d.stmt))
        vu = flow.unit_of(d.stmt)
        kind = "?"
        dn = iu.cfg.node_of(d.stmt)
        if dn is not None:
            for t_, l in iu.cfg.guards(dn):
                k_ = type_test(t_, l)
                if k_ is not None:
                    kind = k_
        variants.append(Variant(vu, kind, d.stmt))
    ctx.floor("R18.3", "_get_current_object variants", len(variants), 4)
    kinds_found = sorted(v.kind for v in variants)
    for need in ("ContextVar", "Local", "LocalStack"):
        if need not in kinds_found:
            raise AnalysisError(f"no _get_current_object variant guarded by isinstance({P}, {need}) (found {kinds_found})")

    muts = repo.mutators("list") | repo.mutators("dict") | repo.mutators("set")
    for v in variants:
        fn = v.unit.fi.node
        reads = [n for n in ast.walk(fn) if isinstance(n, ast.Name) and n.id == P and isinstance(n.ctx, ast.Load)]
        shadow = P in v.unit.fi.params
        ctx.ob("R18.3", f"the {v.kind} resolver reads the proxied object when it is called", bool(reads) and not shadow, f"{len(reads)} read(s) of `{P}` in its body", init, fn, f"{v.kind} resolver reads target")
        state = []
        bound_here = set(v.unit.fi.params) | {d.name for ds in v.unit.rd.gen.values() for d in ds}
        for n in ast.walk(fn):
            if isinstance(n, (ast.Nonlocal, ast.Global)):
                state.append(norm(n))
            elif isinstance(n, (ast.Attribute, ast.Subscript)) and isinstance(n.ctx, (ast.Store, ast.Del)):
                state.append(norm(n))
            elif isinstance(n, ast.Call) and dotted(n.func) in ("setattr", "object.__setattr__"):
                state.append(norm(n))
            elif isinstance(n, ast.Call) and isinstance(n.func, ast.Attribute) and n.func.attr in muts and isinstance(n.func.value, ast.Name) and n.func.value.id not in bound_here:
                state.append(norm(n) + " (mutates an object of the enclosing scope)")
        if fn.decorator_list:
            state.append("decorated: " + ", ".join(norm(d) for d in fn.decorator_list))
        if fn.args.defaults or any(d is not None for d in fn.args.kw_defaults):
            state.append("default arguments (evaluated at proxy creation)")
        ctx.ob("R18.3", f"the {v.kind} resolver keeps no state between calls", not state, "no nonlocal/global, attribute or item store, decorator or default argument" if not state else f"{state}", init, fn, f"{v.kind} resolver stateless")

    # (c) _ProxyLookup.__get__
    pl = repo.cls(f"{LOCAL}._ProxyLookup")
    get = pl.methods.get("__get__")
    if get is None:
        raise AnalysisError("_ProxyLookup.__get__ missing")
    gu = flow.unit_of(get)
    ga = get.node.args
    gpos = [x.arg for x in ga.posonlyargs + ga.args]
    if len(gpos) < 2:
        raise AnalysisError("_ProxyLookup.__get__ has no instance parameter")
    inst_p = gpos[1]
    calls = [c_ for c_ in gu.walk() if isinstance(c_, ast.Call) and isinstance(c_.func, ast.Attribute) and c_.func.attr == "_get_current_object" and astq.is_name(c_.func.value, inst_p)]
    cnodes = [x for x in (flow.run_node(c_, gu) for c_ in calls) if x is not None]  # not as a short-circuited operand / conditional-expression branch
    class_edges = []
    for t_ in gu.cfg.tests():
        nl = _none_test(t_, lambda e: astq.is_name(e, inst_p))
        if nl is not None:
            class_edges.append((t_, nl))
    r = gu.cfg.reach(gu.cfg.entry, avoid_nodes=cnodes, avoid_edges=class_edges)
    ok = bool(cnodes) and gu.cfg.exit.id not in r
    p_ = gu.cfg.path(gu.cfg.entry, gu.cfg.exit, avoid_nodes=cnodes, avoid_edges=class_edges) if cnodes and not ok else None
    ctx.ob("R18.3", "_ProxyLookup.__get__ resolves the current object on every instance access", ok,
           f"{len(calls)} call(s) of `{inst_p}._get_current_object()`; class access (`{inst_p} is None`) excepted" + (f"; path without it: {gu.cfg.fmt_path(p_)}" if p_ else ""), get, calls[0] if calls else get.node, "__get__ resolves per access")
    kept = []
    for n in gu.walk():
        if isinstance(n, (ast.Attribute, ast.Subscript)) and isinstance(n.ctx, (ast.Store, ast.Del)):
            kept.append(norm(astq.stmt_of(get, n) or n))
        elif isinstance(n, (ast.Nonlocal, ast.Global)):
            kept.append(norm(n))
        elif isinstance(n, ast.Call) and dotted(n.func) in ("setattr", "object.__setattr__"):
            kept.append(norm(n))
    ctx.ob("R18.3", "_ProxyLookup.__get__ stores the resolved object nowhere", not kept, "no attribute/item store, setattr, nonlocal or global" if not kept else f"{kept}", get, get.node, "__get__ keeps nothing")

    # (d) Local()/LocalStack() hand the local itself to the proxy
    n_mk = 0
    for cname, (c, _) in sorted(storage.items()):
        for u in _class_units(flow, c):
            for c_ in u.walk():
                if isinstance(c_, ast.Call) and repo.resolve(mod, dotted(c_.func) or "?") == lp.fq:
                    n_mk += 1
                    first = c_.args[0] if c_.args else None
                    ctx.ob("R18.3", f"{u.fi.qualname} proxies the local itself, not a value read now", first is not None and flow.self_ref(first, u), f"`{norm(c_)}`", u.fi, c_, f"{cname} proxy of {norm(first) if first is not None else '?'}")
    ctx.floor("R18.3", "proxy constructions in Local / LocalStack", n_mk, 2)
    return variants


# ---------------------------------------------------------------------------
# R18.4


def _expect(ctx: Ctx, flow: Flow, fi: FuncInfo, kind: str, what: str, want_kind: str, want_detail: str, label: str) -> None:
    u = flow.unit_of(fi)
    run_ = EmptyRun(flow, u, kind)
    good = bool(run_.outcomes) and all(o.kind == want_kind and o.detail == want_detail for o in run_.outcomes)
    bad = next((o for o in run_.outcomes if not (o.kind == want_kind and o.detail == want_detail)), None)
    ctx.ob("R18.4", f"{fi.qualname}: {what}", good and run_.decided > 0,
           f"with an empty {kind} payload the method can only: {run_.summary()} ({run_.decided} payload-dependent branch(es) decided)", fi, bad.node.ast if bad is not None and bad.node.ast is not None else fi.node, label)


def _r4(ctx: Ctx, flow: Flow, storage, kinds: dict[str, str], variants: list[Variant]) -> None:
    repo = ctx.repo
    mod = flow.module
    by_kind = {v.kind: v for v in variants}
    lp = repo.cls(f"{LOCAL}.LocalProxy")
    init = lp.methods["__init__"]
    P = [x.arg for x in init.node.args.posonlyargs + init.node.args.args][1]

    # --- what "nothing bound" looks like at the local's own interface -----------------
    lc = repo.cls(f"{LOCAL}.Local")
    ls = repo.cls(f"{LOCAL}.LocalStack")
    if lc.name not in storage or ls.name not in storage:
        raise AnalysisError("Local / LocalStack no longer store a ContextVar")
    for nm in ("__getattr__", "__delattr__"):
        fi = lc.methods.get(nm)
        if fi is None:
            raise AnalysisError(f"Local.{nm} missing")
        _expect(ctx, flow, fi, kinds[lc.name], "an empty namespace reports every name missing with AttributeError", "raise", "AttributeError", f"Local.{nm} on empty")

    # the LocalStack resolver tells us which attribute is the 'top' read
    sv = by_kind["LocalStack"]
    top_reads = [n for n in ast.walk(sv.defnode) if isinstance(n, ast.Attribute) and astq.is_name(n.value, P) and isinstance(n.ctx, ast.Load)]
    if not top_reads:  # read moved out of the resolver (R18.3 reports that): still find which property is meant
        top_reads = [n for n in ast.walk(init.node) if isinstance(n, ast.Attribute) and astq.is_name(n.value, P) and isinstance(n.ctx, ast.Load) and n.attr in ls.methods]
    top_names = sorted({n.attr for n in top_reads})
    if len(top_names) != 1 or top_names[0] not in ls.methods:
        raise AnalysisError(f"LocalStack resolver reads {top_names} of the stack: expected one property of LocalStack")
    top = ls.methods[top_names[0]]
    _expect(ctx, flow, top, kinds[ls.name], "an empty stack has no top (None)", "return", "None", "LocalStack.top on empty")
    pop = ls.methods.get("pop")
    if pop is None:
        raise AnalysisError("LocalStack.pop missing")
    _expect(ctx, flow, pop, kinds[ls.name], "popping an empty stack returns None", "return", "None", "LocalStack.pop on empty")

    # --- each resolver turns that into RuntimeError -------------------------------------------------------
    def lookup_nodes(v: Variant) -> list[Node]:
        out = []
        for n in v.unit.cfg.nodes:
            if n.ast is not None and n.kind in ("stmt", "test") and not isinstance(n.ast, (ast.FunctionDef, ast.AsyncFunctionDef)):
                if any(isinstance(x, ast.Name) and x.id == P for x in ast.walk(n.ast)):
                    out.append(n)
        return out

    def handled(v: Variant, exc: str, what: str) -> None:
        cfg = v.unit.cfg
        lks = lookup_nodes(v)
        if not lks:
            ctx.ob("R18.4", f"the {v.kind} resolver converts {exc} into RuntimeError", False, "no lookup in the resolver", init, v.defnode, f"{v.kind} resolver converts {exc}")
            return
        for lk in lks:
            hs = [s for s, l in lk.succs if l == "exc" and isinstance(s.ast, ast.ExceptHandler)]
            catching = [h for h in hs if handler_catches(h.ast, exc)]  # type: ignore[arg-type]
            if not catching:
                ok, fact = False, f"`{lk.text()}` {what} raises {exc}; handlers around it: {[h.text() for h in hs] or 'none'}"
            else:
                ok, fact = _only_raises(cfg, [s for s, _ in catching[0].succs], {"RuntimeError"})
                fact = f"`{lk.text()}` under `{catching[0].text()}`: {fact}"
            ctx.ob("R18.4", f"the {v.kind} resolver converts {exc} ({what}) into RuntimeError", ok, fact, init, lk.ast, f"{v.kind} resolver converts {exc}")

    handled(by_kind["Local"], "AttributeError", "of a name missing in the namespace")
    cv = by_kind["ContextVar"]
    handled(cv, "LookupError", "of an unset ContextVar")
    for c_ in ast.walk(cv.defnode):
        if isinstance(c_, ast.Call) and isinstance(c_.func, ast.Attribute) and c_.func.attr == "get" and astq.is_name(c_.func.value, P):
            ctx.ob("R18.4", "the ContextVar resolver reads without a default", not c_.args and not c_.keywords, f"`{norm(c_)}`" + ("" if not c_.args else ": with a default an unset variable resolves to the default instead of reporting unbound"), init, c_, "ContextVar resolver get")

    # LocalStack: None top -> RuntimeError
    cfg = sv.unit.cfg

    def is_top(e: ast.AST) -> bool:
        if isinstance(e, ast.Attribute) and astq.is_name(e.value, P) and e.attr == top_names[0]:
            return True
        if isinstance(e, ast.NamedExpr):
            return is_top(e.value)
        if isinstance(e, ast.Name):
            node = cfg.node_of(e)
            defs = sv.unit.rd.reaching(node, e.id) if node is not None else frozenset()
            return bool(defs) and all(d.kind in ("assign", "walrus") and d.index is None and d.value is not None and is_top(d.value) for d in defs)
        return False

    tests = [(t_, _none_test(t_, is_top)) for t_ in cfg.tests()]
    tests = [(t_, l) for t_, l in tests if l is not None]
    if not tests:
        ctx.ob("R18.4", "the LocalStack resolver converts a None top into RuntimeError", False, f"no `is None` test of `{P}.{top_names[0]}` in the resolver", init, sv.defnode, "LocalStack resolver tests top")
    for t_, l in tests:
        ok, fact = _only_raises(cfg, cfg.succ(t_, l), {"RuntimeError"})
        ctx.ob("R18.4", "the LocalStack resolver converts a None top into RuntimeError", ok, f"`{t_.text()}` when true for None: {fact}", init, t_.ast, "LocalStack resolver none branch")
    if tests:
        rets = [n for n in cfg.nodes if isinstance(n.ast, ast.Return)]
        t0, l0 = tests[0]
        unguarded = [n for n in rets if not cfg.edge_dominates(t0, _other(l0), n)]
        ctx.ob("R18.4", "the LocalStack resolver returns only after the None test", bool(rets) and not unguarded, f"{len(rets)} return(s), {len(unguarded)} not dominated by the not-None edge of `{t0.text()}`", init, (unguarded[0].ast if unguarded else sv.defnode), "LocalStack resolver return guarded")

    # --- _ProxyLookup.__get__ --------------------------------------------------------------
    pl = repo.cls(f"{LOCAL}._ProxyLookup")
    get = pl.methods["__get__"]
    gu = flow.unit_of(get)
    gcfg = gu.cfg
    inst_p = [x.arg for x in get.node.args.posonlyargs + get.node.args.args][1]
    calls = [c_ for c_ in gu.walk() if isinstance(c_, ast.Call) and isinstance(c_.func, ast.Attribute) and c_.func.attr == "_get_current_object" and astq.is_name(c_.func.value, inst_p)]
    pinit = pl.methods.get("__init__")
    if pinit is None:
        raise AnalysisError("_ProxyLookup.__init__ missing")
    fb_attrs = sorted({nm for nm, v, _ in _slot_stores(flow.unit_of(pinit)) if astq.is_name(v, "fallback")})
    ctx.ob("R18.4", "_ProxyLookup.__init__ keeps the declared fallback", len(fb_attrs) == 1 and "fallback" in flow.unit_of(pinit).fi.params, f"stored as {fb_attrs}", pinit, pinit.node, "fallback stored")
    fb_attr = fb_attrs[0] if fb_attrs else "fallback"

    def is_fb(e: ast.AST, depth: int = 0) -> bool:
        if isinstance(e, ast.NamedExpr):
            return is_fb(e.value, depth)
        if isinstance(e, ast.Name) and depth < 4:  # declared = self.fallback ... if declared is None
            node = gcfg.node_of(e)
            defs = gu.rd.reaching(node, e.id) if node is not None else frozenset()
            return bool(defs) and all(d.kind in ("assign", "walrus") and d.index is None and d.value is not None and is_fb(d.value, depth + 1) for d in defs)
        return isinstance(e, ast.Attribute) and flow.self_ref(e.value, gu) and e.attr == fb_attr

    for c_ in calls:
        cn = gcfg.node_of(c_)
        if cn is None:
            continue
        hs = [s for s, l in cn.succs if l == "exc" and isinstance(s.ast, ast.ExceptHandler)]
        catching = [h for h in hs if handler_catches(h.ast, "RuntimeError")]  # type: ignore[arg-type]
        ctx.ob("R18.4", "_ProxyLookup.__get__ catches the RuntimeError of an unbound proxy", bool(catching), f"handlers around `{norm(c_)}`: {[h.text() for h in hs] or 'none'}", get, c_, "__get__ catches unbound")
        if not catching:
            continue
        h = catching[0]
        region = gcfg.reach(h)
        ftests = [(t_, _none_test(t_, is_fb)) for t_ in gcfg.tests() if t_.id in region]
        ftests = [(t_, l) for t_, l in ftests if l is not None]
        if not ftests:
            ctx.ob("R18.4", "_ProxyLookup.__get__ re-raises when no fallback is declared", False, f"no `self.{fb_attr} is None` test in the handler", get, h.ast, "__get__ fallback test")
            continue
        t0, l0 = ftests[0]
        ok, fact = _only_raises(gcfg, gcfg.succ(t0, l0), {None, "RuntimeError"})
        ctx.ob("R18.4", "_ProxyLookup.__get__ re-raises when no fallback is declared", ok, f"`{t0.text()}` true: {fact}", get, t0.ast, "__get__ re-raises without fallback")
        # with a fallback: returns, and what it returns comes from the fallback
        other_starts = gcfg.succ(t0, _other(l0))
        r2 = gcfg.reach(other_starts)
        raises = [n for n in gcfg.nodes if n.id in r2 and isinstance(n.ast, ast.Raise)]
        rets = [n for n in gcfg.nodes if n.id in r2 and isinstance(n.ast, ast.Return)]

        def from_fb(e: ast.AST | None, depth: int = 0) -> bool:
            if e is None or depth > 10:
                return False
            if is_fb(e):
                return True
            if isinstance(e, ast.IfExp):
                return from_fb(e.body, depth + 1) and from_fb(e.orelse, depth + 1)
            if isinstance(e, ast.Call):
                return from_fb(e.func, depth + 1) or any(from_fb(a_, depth + 1) for a_ in e.args)
            if isinstance(e, ast.Attribute):
                return from_fb(e.value, depth + 1)
            if isinstance(e, ast.Name):
                node = gcfg.node_of(e)
                defs = gu.rd.reaching(node, e.id) if node is not None else frozenset()
                return bool(defs) and all(d.kind in ("assign", "walrus") and d.index is None and from_fb(d.value, depth + 1) for d in defs)
            return False

        ok2 = bool(rets) and not raises and gcfg.raise_exit.id not in r2 and all(from_fb(n.ast.value) for n in rets)  # type: ignore[union-attr]
        ctx.ob("R18.4", "_ProxyLookup.__get__ answers from the fallback when one is declared", ok2,
               f"{len(rets)} return(s) in the handler: {[norm(n.ast) for n in rets]}; raises: {[norm(n.ast) for n in raises]}", get, t0.ast, "__get__ uses fallback")

    # --- declared fallbacks -----------------------------------------------------------------------
    fallbacks: dict[str, ast.AST | None] = {}
    for name, v in lp.attrs.items():
        if isinstance(v, ast.Call) and (repo.resolve(mod, dotted(v.func) or "?") or "").startswith(f"werkzeug.{LOCAL}._Proxy"):
            fallbacks[name] = astq.arg_or_kw(v, 1, "fallback")
    with_fb = {k for k, v in fallbacks.items() if v is not None and not astq.is_none(v)}

    def fb_function(e: ast.AST | None) -> tuple[list[str], list[ast.AST]] | None:
        """(parameter names, returned expressions) of a fallback given as lambda or module function."""
        if isinstance(e, ast.Lambda):
            return [x.arg for x in e.args.posonlyargs + e.args.args], [e.body]
        if isinstance(e, ast.Name) and e.id in mod.functions:
            fi = mod.functions[e.id]
            return [x.arg for x in fi.node.args.posonlyargs + fi.node.args.args], [r.value for r in astq.returns_of(fi.node)]
        return None

    for special in ("__bool__", "__repr__"):
        if special not in fallbacks:
            raise AnalysisError(f"LocalProxy.{special} is not a _ProxyLookup")
    fb = fallbacks["__bool__"]
    ff = fb_function(fb)
    ok = ff is not None and bool(ff[1]) and all(isinstance(r, ast.Constant) and r.value is False for r in ff[1])
    ctx.ob("R18.4", "an unbound proxy is falsy", ok, f"__bool__ fallback: `{norm(fb) if fb is not None else None}`", lp.fq, lp.attrs["__bool__"], "__bool__ fallback")
    fb = fallbacks["__repr__"]
    ff = fb_function(fb)
    if ff is None:
        ctx.ob("R18.4", "an unbound proxy has a repr of its own", False, f"__repr__ fallback: `{norm(fb) if fb is not None else None}`", lp.fq, lp.attrs["__repr__"], "__repr__ fallback")
    else:
        params, rets = ff
        me = params[0] if params else None
        touches = []
        for r in rets:
            for n in ast.walk(r) if r is not None else []:
                if isinstance(n, ast.Name) and n.id == me:
                    par = astq.parent(n)
                    if isinstance(par, ast.Call) and any(x is n for x in par.args) and dotted(par.func) in ("type", "id", "object.__repr__"):
                        continue
                    if isinstance(par, ast.Attribute) and (par.attr in with_fb or par.attr.startswith("_LocalProxy__")):
                        continue
                    touches.append(norm(par) if par is not None else n.id)
        ctx.ob("R18.4", "an unbound proxy has a repr that does not go through the bound object", bool(rets) and not touches,
               f"__repr__ fallback `{norm(fb)}`" + (f" uses {touches}: resolved through the (unbound) proxy" if touches else " uses only type(self) / attributes that have a fallback"), lp.fq, lp.attrs["__repr__"], "__repr__ fallback")


# ---------------------------------------------------------------------------
# R18.5


MUTABLE_CTORS = {"dict", "list", "set", "defaultdict", "OrderedDict", "deque", "WeakKeyDictionary", "WeakValueDictionary", "WeakSet", "Counter", "ChainMap", "bytearray"}


def _mutable_container(e: ast.AST | None) -> bool:
    if isinstance(e, (ast.List, ast.Dict, ast.Set, ast.ListComp, ast.DictComp, ast.SetComp)):
        return True
    if isinstance(e, ast.Call):
        f = e.func.value if isinstance(e.func, ast.Subscript) else e.func
        return (dotted(f) or "").rsplit(".", 1)[-1] in MUTABLE_CTORS
    return False


def _r5(ctx: Ctx, flow: Flow, storage) -> None:
    repo = ctx.repo
    mod = flow.module
    for cname, (c, slots) in sorted(storage.items()):
        sl = c.attrs.get("__slots__")
        declared: set[str] | None = None
        if isinstance(sl, (ast.Tuple, ast.List)) and all(astq.const_str(e) is not None for e in sl.elts):
            declared = {mangle(c.name, astq.const_str(e) or "") for e in sl.elts}
        elif sl is not None and astq.const_str(sl) is not None:
            declared = {mangle(c.name, astq.const_str(sl) or "")}
        ctx.ob("R18.5", f"{cname} instances hold nothing but the ContextVar", declared is not None and declared == slots,
               f"__slots__ = {sorted(declared) if declared is not None else 'absent (instances get a __dict__)'}; ContextVar slot(s) {sorted(slots)}", c.fq, sl if sl is not None else c.node, f"{cname} slots")
        bases = repo.bases(c)
        okb = all(getattr(b, "fq", "") in ("typing.Generic",) for b in bases)
        ctx.ob("R18.5", f"{cname} inherits no instance dictionary", okb, f"bases: {[getattr(b, 'fq', '?') for b in bases] or 'none (typing.Generic excepted)'}", c.fq, c.node, f"{cname} bases")
        for an, av in sorted(c.attrs.items()):
            if an == "__slots__":
                continue
            ctx.ob("R18.5", f"{cname}.{an} is not a class-level container shared by all contexts", not _mutable_container(av), f"`{an} = {norm(av)}`", c.fq, av, f"{cname} class attribute {an}")
        # the ContextVar is bound in __init__ only
        n_bind = 0
        for u in flow.units:
            for nm, _, node in _slot_stores(u):
                if nm in slots and u.cls is c:
                    n_bind += 1
                    ctx.ob("R18.5", f"{cname}: the ContextVar slot is bound only by the constructor", u.fi.name == "__init__" and u.outer is None,
                           f"`{norm(node)}` in {u.fi.qualname}" + ("" if u.fi.name == "__init__" else ": a new ContextVar detaches every context's data"), u.fi, node, f"{cname} binds slot in {u.fi.qualname}")
        if not n_bind:
            raise AnalysisError(f"{cname}: store of the ContextVar slot not found")
    # module level
    bad = []
    for name, vals in mod.assigns.items():
        for v in vals:
            if _mutable_container(v):
                bad.append(f"{name} = {norm(v)}")
    ctx.ob("R18.5", "werkzeug.local keeps no mutable module-level container", not bad, f"module-level bindings: {sorted(mod.assigns)}" if not bad else f"{bad}", mod.name, None, "module-level containers")
    globs = [norm(n) for n in ast.walk(mod.tree) if isinstance(n, ast.Global)]
    ctx.ob("R18.5", "no function of werkzeug.local rebinds a module-level name", not globs, "no `global` statement" if not globs else f"{globs}", mod.name, None, "global statements")
