"""C18 - context-local data never leaks between concurrent contexts (structural clauses)."""

from __future__ import annotations

import ast
import typing as t

from .. import astq
from ..cfg import Node
from ..loader import AnalysisError, ClassInfo, FuncInfo, Module, Repo, dotted, norm, walk_no_nested
from ..report import Ctx
from ..dataflow import bound_in_enclosing_comp
from ._c18_helpers import raised_class, ARG, CannotFollow, Cont, SingleObjectRun, EXHAUSTING, FRESH, INPLACE_OPERATOR, STOPPING_EARLY, EmptyRun, Flow, Unit, handler_catches, mangle, shared, why_conditional

LEVEL_TEXT = (
    "Static decision of structural clauses of C18 on /repo's current source (werkzeug/local.py): (R18.1) copy-on-write - "
    "flow-sensitively, on every path, no object that may be the one currently held in a Local/LocalStack ContextVar (the result "
    "of `<storage>.get(...)`, through local names, helper returns and helper parameters) is the receiver of an in-place mutation "
    "(subscript store/delete, augmented assignment, typeshed's list/dict/set mutator methods, operator.setitem & co.), and every "
    "object bound with `<storage>.set(v)` was created in the same call (literal, .copy(), slice, list()/dict(), a + b, `*rest` unpacking); "
    "a ContextVar handed to a helper of the module as an argument stays a storage inside the helper, and any other use of it "
    "(returned, passed to foreign code, .reset) is ANALYSIS-ERROR because reads/bindings could then happen out of sight; (R18.2) "
    "release rebinds the ContextVar (directly or through a helper that unconditionally sets its parameter) to an empty container "
    "of the payload's kind (a literal, through local names, a conditional expression, or what a factory helper of the module returns on every exit) on every path and mutates nothing, "
    "release_local / LocalManager.cleanup release every managed local by a call in the calling context that is executed on every path "
    "AND for every element: some iteration over all managed locals (for loop, eager comprehension, generator expression / map "
    "pulled to its end by list()/tuple()/set()/deque()/`[*it]`/a loop, a for loop over `range(len(locals))`, a while loop driven by a "
    "cursor - a copy popped until it is empty, an iterator pulled with next() until its sentinel / StopIteration, an index counted "
    "up to len(locals) -, in cleanup itself or in a helper of the module that is handed the locals; the locals may come through "
    "a helper / property / generator of the module that hands all of them on) executes the release in every iteration. A release is "
    "a call of the element's bound `__release_local__` however it was obtained (`x.__release_local__`, `getattr(x, \"__release_local__\")`, "
    "`operator.attrgetter(...)(x)` - also as the loop variable of `map(attrgetter(...), locals)` / `(x.__release_local__ for x in locals)` "
    "or a local name set in the same iteration), `operator.methodcaller(\"__release_local__\")(x)`, `type(x).__release_local__(x)`, "
    "`release_local(x)`, or a helper of the module that releases its parameter on every path - decided on the CFG between "
    "statements and on the expression tree inside one statement: not a later operand of `and`/`or` (unless the earlier operands only "
    "test that there are locals), not a branch of a conditional "
    "expression, not under a test (also one fed by earlier iterations), not filtered by a comprehension `if`, not pulled by "
    "any()/all()/next() (which stop early), not inside an `assert` - the loop is never left early (break / return / raise) and "
    "is bypassed only on paths where the container is known to be empty (its truthiness or length tested directly, negated, or through a flag computed before the branch; a bypass under a test of the locals that is not understood, "
    "or a loop variable handed to code that is not understood, is ANALYSIS-ERROR, not a violation); the same in-statement conditionality applies to the "
    "`.set` of a release method, the delegation in release_local, the installation of _get_current_object and the resolution "
    "in _ProxyLookup.__get__; "
    "what LocalManager.__init__ stores contains the locals it was given on every path where some were given (through local names, "
    "conditional expressions, or a container filled afterwards by append/extend/+=) and is a container materialised in the "
    "constructor (literal, list()/tuple(), comprehension, [*x]) - never the caller's iterable itself, which may be a one-shot "
    "iterator that the first cleanup() exhausts; given ONE managed local instead of a collection, the constructor stores a container "
    "holding that very object and nothing obtained by iterating it - decided per class of managed local (the module's classes with "
    "a __release_local__) by following the constructor statement by statement with the argument bound to one object of the class, "
    "the facts about it taken from the class table: isinstance against its classes (collections.abc / typing ABCs by the methods "
    "they require), hasattr / callable by the names the classes define, truthiness, and iterability - a class that defines __iter__ "
    "(Local does: it yields the (name, value) pairs of the current context) is iterated successfully and yields its items, not "
    "itself, any other class raises TypeError, which goes to the except clause that covers it; so a constructor that tells a "
    "single local from a collection by duck typing (try list()/iter()/extend/yield from first, hasattr(x, '__iter__'), an "
    "Iterable test) is a violation exactly when a managed class is iterable, however it is spelled (branches, conditional "
    "expressions, local names, containers filled afterwards, helpers and generators of the module); a run that raises rejects the "
    "argument loudly and is not judged (today a single LocalStack is rejected with TypeError), a constructor that cannot be "
    "followed is ANALYSIS-ERROR; "
    "(R18.3) LocalProxy.__init__ performs no lookup on the proxied object (it is only type-tested and stored), every installed "
    "_get_current_object variant reads it at call time and keeps no state, _ProxyLookup.__get__ calls _get_current_object on "
    "every instance access and stores nothing, Local()/LocalStack() hand the local itself to the proxy; (R18.4) with an empty "
    "payload, Local.__getattr__/__delattr__ raise AttributeError and LocalStack.top/pop return None (abstract execution of the "
    "method with the payload known to be empty: constants, len/bool/not/comparisons/integer arithmetic, conditional expressions, local names whose every "
    "reaching definition - on a branch the empty payload does not rule out - has the same value, `next(iter(<empty>), d)`, `<empty dict>.get(k, d)` with a "
    "module-level sentinel, any/all over nothing; helpers of the module it calls are followed; an exit that is reached only beyond a payload-dependent "
    "condition or value the run cannot evaluate is ANALYSIS-ERROR, never a violation), every `.get` on a storage passes an empty default (literally, or through a helper parameter at every call site), each proxy variant turns that "
    "outcome (AttributeError / None / LookupError) into RuntimeError (an except clause, or - for a value that is a sentinel when nothing is bound: None top, "
    "`var.get(<module-level object()>)`, `getattr(local, name, <module-level object()>)` - an identity test (in the branch condition, or in a flag computed before it) whose sentinel branch can only raise it; the raise may "
    "sit in a nested / module helper that never returns, the exception may be built first or by a helper, the test may sit in a helper that is handed the value), "
    "_ProxyLookup.__get__ catches RuntimeError, re-raises it exactly "
    "when no fallback was declared and otherwise returns a value produced from the fallback (decided by walking the code that handles the exception under both "
    "valuations of 'a fallback is declared' - tests of the fallback slot through local names, `is None` / truthiness, `not` / `and` / `or` / bool() of those, and flags computed from it before the branch (`missing = self.fallback is None`) -, following helpers of the module "
    "called from the handler, where a bare `raise` re-raises the exception being handled, and flags set in the handler and tested after the try statement), "
    "__bool__'s fallback returns False and __repr__'s fallback does "
    "not go through the bound object; (R18.5) Local/LocalStack instances have no storage besides the ContextVar (__slots__), the "
    "ContextVar is bound only in __init__, and the module keeps no mutable module-level or class-level container; "
    "(R18.6) a write is never dropped: every path on which Local.__setattr__ / LocalStack.push return normally passes an unconditionally "
    "evaluated `<storage>.set(...)` (directly, through a helper that sets its parameter, or through a helper of the module every normal "
    "path of which binds) - for __setattr__ except on the edge of a test that establishes that the payload holds THIS VERY OBJECT under "
    "this name already (`<payload>[name] is value`, `<payload>.get(name, <module-level object()>) is value`, `<payload>.get(name) is value` "
    "only where `name in <payload>` is known because a missing name reads as None there; through `not` / `and` / `or`, local aliases and "
    "flags computed before the branch): skipping the copy is unobservable only then, whereas equality, truthiness or membership alone "
    "leave the context holding another object (an equal one inherited from the parent context) or none; for push no test excuses a "
    "dropped write; an identity comparison / id() / operator.is_ in __setattr__ that the analysis cannot tie to that meaning, next to a "
    "path without binding, is ANALYSIS-ERROR, not a violation; (R18.7) nothing is reported missing unasked: walking the CFG of "
    "Local.__getattr__ / __delattr__ (AttributeError) and LocalStack.top / pop (return None / falling off the end) from the entry along "
    "normal edges, without going beyond any test or loop whose condition depends on the payload (a read of the storage, a local name fed "
    "by one, a helper / property of the module that reads it), beyond a return, or into an exception handler, reaches no such exit - in the "
    "method or in a never-returning helper of the module it calls; so the names __getattr__ refuses before consulting the payload are "
    "exactly those __setattr__ refuses to store (none), a test of the name for the instance's own storage slot name "
    "(`name == \"_Local__storage\"`, which the slot descriptor answers) aside. "
    "Not decided: the interleaving semantics of contextvars itself (trusted), mutation through the list that LocalStack.push "
    "returns to its caller, WHAT the container bound by a write holds (that it is the old entries plus exactly the assigned object under "
    "the given name / on top - R18.6 decides only that a binding happens, R18.1 that the bound container is a fresh one), "
    "behaviour of Local.__getattr__ for a missing name in a NON-empty namespace beyond the shape checked and whether a lookup that does "
    "consult the payload consults it for the right key (R18.7 decides only that no verdict is reached without a payload-dependent decision; "
    "refusals raised from inside an exception handler are not followed), "
    "the text of error messages, and the callable-proxy variant (nothing is 'unbound' for a callable)."
)
TRUSTED = [
    "CPython ast",
    "contextvars: a Context copy shares the payload objects of the parent; ContextVar.get() without default raises LookupError when unset; ContextVar.set() affects only the current context",
    "typeshed mutator tables of list/dict/set (bundled with the repo's mypy, read as text)",
    "list/dict: .copy(), slicing, list()/dict(), literals and a + b / a | b create new objects; indexing an empty list/dict raises IndexError/KeyError",
]
ASSUMPTIONS = [
    "private helpers (single underscore) of local.py are called only from local.py, so their parameters carry what the call sites in the module pass",
    "no context copy can happen between two statements of one method call (copies are made by the running code itself), so mutating an object created in the same call is invisible to other contexts even after it was bound",
]

LOCAL = "local"
CONTEXTVAR = "contextvars.ContextVar"


# ---------------------------------------------------------------------------
# storage slots


def _resolves_to(repo: Repo, mod: Module, e: ast.AST | None, fq: str) -> bool:
    if isinstance(e, ast.Subscript):
        e = e.value
    d = dotted(e) if e is not None else None
    return d is not None and repo.resolve(mod, d) == fq


def _ann_is_contextvar(repo: Repo, mod: Module, ann: ast.AST | None) -> bool:
    """annotation is ContextVar[...] possibly `| None` / Optional[...] - and nothing else."""
    if ann is None:
        return False
    if isinstance(ann, ast.Constant) and isinstance(ann.value, str):
        try:
            ann = ast.parse(ann.value, mode="eval").body
        except SyntaxError:
            return False
    if isinstance(ann, ast.BinOp) and isinstance(ann.op, ast.BitOr):
        parts = [ann.left, ann.right]
        members = []
        while parts:
            p = parts.pop()
            if isinstance(p, ast.BinOp) and isinstance(p.op, ast.BitOr):
                parts += [p.left, p.right]
            else:
                members.append(p)
        real = [m for m in members if not astq.is_none(m)]
        return bool(real) and all(_resolves_to(repo, mod, m, CONTEXTVAR) for m in real)
    if isinstance(ann, ast.Subscript) and (dotted(ann.value) or "").endswith("Optional"):
        return _ann_is_contextvar(repo, mod, ann.slice)
    return _resolves_to(repo, mod, ann, CONTEXTVAR)


def _is_contextvar(repo: Repo, u: Unit, e: ast.AST, depth: int = 0) -> bool:
    mod = u.fi.module
    if isinstance(e, ast.Call):
        return _resolves_to(repo, mod, e.func, CONTEXTVAR)
    if isinstance(e, ast.Name) and depth < 4:
        node = u.cfg.node_of(e)
        if node is None:
            return False
        defs = u.rd.reaching(node, e.id)
        if not defs:
            return False
        for d in defs:
            if d.kind == "param":
                a = u.fi.node.args
                arg = next((x for x in a.posonlyargs + a.args + a.kwonlyargs if x.arg == d.name), None)
                if arg is None or not _ann_is_contextvar(repo, mod, arg.annotation):
                    return False
            elif d.kind in ("assign", "walrus") and d.index is None and d.value is not None:
                if not _is_contextvar(repo, u, d.value, depth + 1):
                    return False
            else:
                return False
        return True
    return False


def _slot_stores(u: Unit) -> list[tuple[str, ast.AST, ast.AST]]:
    """(mangled attribute name, stored value, node) for every store of an attribute of the instance in u."""
    out: list[tuple[str, ast.AST, ast.AST]] = []
    sn = u.self_name()
    if sn is None:
        return out
    for n in u.walk():
        if isinstance(n, (ast.Assign, ast.AnnAssign)) and n.value is not None:
            tgs = n.targets if isinstance(n, ast.Assign) else [n.target]
            for tg in tgs:
                if isinstance(tg, ast.Attribute) and isinstance(tg.value, ast.Name) and tg.value.id == sn:
                    out.append((mangle(u.clsname, tg.attr), n.value, n))
        elif isinstance(n, ast.Call) and dotted(n.func) in ("object.__setattr__", "setattr", "super().__setattr__") and len(n.args) == 3:
            nm = astq.const_str(n.args[1])
            if nm is not None and isinstance(n.args[0], ast.Name) and n.args[0].id == sn:
                out.append((nm, n.args[2], n))
    return out


def _storage_classes(repo: Repo, mod: Module, probe: Flow) -> dict[str, tuple[ClassInfo, set[str]]]:
    out: dict[str, tuple[ClassInfo, set[str]]] = {}
    for c in mod.classes.values():
        slots: set[str] = set()
        for fi in c.methods.values():
            u = probe.unit_of(fi)
            for nm, val, _ in _slot_stores(u):
                if _is_contextvar(repo, u, val):
                    slots.add(nm)
        if slots:
            out[c.name] = (c, slots)
    return out


# ---------------------------------------------------------------------------
# small CFG helpers


def _raise_names(flow: Flow, u: Unit, starts: list[Node], depth: int = 0) -> list[str | None] | str:
    """names of the exception classes raised (None = bare re-raise) when every path from starts ends raising - in the
    function itself or in a helper of the module (nested function, module function, method) it calls that can only raise;
    otherwise the reason (a text) why some path does not."""
    cfg = u.cfg
    names: list[str | None] = []
    seen: set[int] = set()
    work = list(starts)
    while work:
        n = work.pop()
        if n.id in seen:
            continue
        seen.add(n.id)
        if n is cfg.exit:
            return "a path from there returns normally"
        a = n.ast
        if isinstance(a, ast.Raise):
            names.append(raised_class(u, a, flow))
            work.extend(s for s, l in n.succs if l == "exc")
            continue
        if n.kind == "stmt" and a is not None and depth < 2 and not isinstance(a, (ast.FunctionDef, ast.AsyncFunctionDef, ast.ClassDef)):
            ended = False
            for c_ in [x for x in [a, *walk_no_nested(a)] if isinstance(x, ast.Call)]:
                callees = flow.callees(c_, u)
                if len(callees) != 1 or callees[0][0] is u or why_conditional(c_, a) is not None:
                    continue
                tu = callees[0][0]
                if isinstance(tu.fi.node, ast.AsyncFunctionDef) or any(isinstance(y, (ast.Yield, ast.YieldFrom)) for y in tu.walk()):
                    continue
                sub = _raise_names(flow, tu, [tu.cfg.entry], depth + 1)
                if isinstance(sub, list) and sub:
                    names.extend(sub)  # the helper never returns: whatever it raises is raised here
                    ended = True
                    break
            if ended:
                work.extend(s for s, l in n.succs if l == "exc")
                continue
        work.extend(s for s, _ in n.succs)
    return names


def _only_raises(flow: Flow, u: Unit, starts: list[Node], allowed: set[str | None]) -> tuple[bool | None, str]:
    """every path from starts ends at the raising exit, through raise statements of the allowed classes only.
    (None, why) when a raise statement raises something whose class cannot be told."""
    if not starts:
        return False, "no such branch"
    names = _raise_names(flow, u, starts)
    if isinstance(names, str):
        return False, names
    if not names:
        return False, "no raise statement there"
    fact = f"raises {sorted(set(str(x) if x else 're-raise' for x in names))}"
    bad = [x for x in names if x not in allowed]
    if bad and all((x or "").startswith("?") for x in bad):
        return None, fact + ": the class of what is raised cannot be told"
    return not bad, fact


def _sentinel_when(e: ast.AST | None, u: Unit, is_subject, is_sentinel, depth: int = 0) -> str | None:
    """the truth value ('T' / 'F') of condition e that means "the subject IS the sentinel": an identity / equality test of
    it, `not` / bool() of such a condition, or a local name every reaching definition of which is such a condition with the
    same answer (a flag computed before the branch: `unbound = obj is None`); None for anything else."""
    if e is None or depth > 6:
        return None
    if isinstance(e, ast.NamedExpr):
        return _sentinel_when(e.value, u, is_subject, is_sentinel, depth + 1)
    if isinstance(e, ast.UnaryOp) and isinstance(e.op, ast.Not):
        r = _sentinel_when(e.operand, u, is_subject, is_sentinel, depth + 1)
        return None if r is None else _other(r)
    if isinstance(e, ast.Call) and dotted(e.func) == "bool" and len(e.args) == 1 and not e.keywords:
        return _sentinel_when(e.args[0], u, is_subject, is_sentinel, depth + 1)
    if isinstance(e, ast.Compare) and len(e.ops) == 1:
        l, op, r = e.left, e.ops[0], e.comparators[0]
        if is_sentinel(l) and not is_sentinel(r):
            l, r = r, l
        if not is_sentinel(r) or not is_subject(l):
            return None
        return "T" if isinstance(op, (ast.Is, ast.Eq)) else "F" if isinstance(op, (ast.IsNot, ast.NotEq)) else None
    if isinstance(e, ast.Name) and not is_subject(e):
        node = u.cfg.node_of(e)
        defs = u.rd.reaching(node, e.id) if node is not None else frozenset()
        got = set()
        for d in defs:
            if d.kind not in ("assign", "walrus") or d.index is not None or d.value is None:
                return None
            got.add(_sentinel_when(d.value, u, is_subject, is_sentinel, depth + 1))
        return next(iter(got)) if len(got) == 1 else None
    return None


def _none_test(t: Node, is_subject, is_sentinel=astq.is_none, u: Unit | None = None) -> str | None:
    """label of the edge on which the tested subject IS None - or, with ``is_sentinel``, is that sentinel - ('T' / 'F'), if t is such a test
    (with ``u``: also through `not`, bool() and flags held in local names of that unit)."""
    a = t.ast
    if t.kind == "test" and u is not None and a is not None and not (isinstance(a, ast.Compare) and len(a.ops) == 1):
        return _sentinel_when(a, u, is_subject, is_sentinel)
    if t.kind != "test" or not isinstance(a, ast.Compare) or len(a.ops) != 1:
        return None
    l, op, r = a.left, a.ops[0], a.comparators[0]
    if is_sentinel(l) and not is_sentinel(r):
        l, r = r, l
    if not is_sentinel(r) or not is_subject(l):
        return None
    if isinstance(op, (ast.Is, ast.Eq)):
        return "T"
    if isinstance(op, (ast.IsNot, ast.NotEq)):
        return "F"
    return None


def _other(label: str) -> str:
    return "F" if label == "T" else "T"


# ---------------------------------------------------------------------------


def run(ctx: Ctx) -> None:
    repo = ctx.repo
    mod = repo.module(LOCAL)
    for rid, text in {
        "R18.1": "copy-on-write: no object that may be the current ContextVar payload (result of <storage>.get) is mutated in place on any path, and every <storage>.set(v) binds an object created in the same call",
        "R18.2": "release rebinds the ContextVar to an empty container of the payload's kind on every path; release_local and LocalManager.cleanup release every managed local in the calling context, on every path and in every iteration (never as a short-circuited operand, under a test, or through a consumer that stops early); LocalManager.__init__ stores every local it was given, in a container materialised in the constructor (never the caller's possibly one-shot iterable), and wraps a single local instead of iterating it (a Local is iterable)",
        "R18.3": "late binding: LocalProxy.__init__ only type-tests and stores the proxied object, each _get_current_object variant reads it at call time and keeps no state, _ProxyLookup.__get__ resolves on every instance access and stores nothing",
        "R18.4": "unbound behaviour: an empty payload reads as AttributeError / None, each proxy variant turns that into RuntimeError, _ProxyLookup.__get__ re-raises it exactly when no fallback is declared, __bool__ falls back to False and __repr__ to a text not derived from the bound object",
        "R18.5": "no other storage: Local/LocalStack instances hold only the ContextVar (__slots__), bound once in __init__; no mutable module-level or class-level container",
        "R18.6": "a write is never dropped: every way of returning from Local.__setattr__ / LocalStack.push has rebound the ContextVar, except (for __setattr__) where the payload is known to hold this very object under this name already (an identity test, not equality / truthiness / membership alone)",
        "R18.7": "nothing is reported missing unasked: Local.__getattr__ / __delattr__ raise AttributeError, and LocalStack.top / pop return None, only behind a decision that depends on the payload of the current context - never on a test of the name alone",
    }.items():
        ctx.rule(rid, text)

    probe = Flow(repo, mod, set())
    storage = _storage_classes(repo, mod, probe)
    ctx.floor("R18.5", "classes that keep a ContextVar in an instance slot", len(storage), 2)
    if not storage:
        raise AnalysisError("no class of werkzeug.local stores a ContextVar on its instances")
    slots: set[str] = set()
    for _, s in storage.values():
        slots |= s
    flow = Flow(repo, mod, slots)

    kinds = _payload_kinds(ctx, flow, storage)
    _r1(ctx, flow, storage)
    _r2(ctx, flow, storage, kinds)
    variants = _r3(ctx, flow, storage)
    _r4(ctx, flow, storage, kinds, variants)
    _r5(ctx, flow, storage)
    _r6(ctx, flow, storage)
    _r7(ctx, flow, storage, kinds)
    ctx.note("observation (not a finding): LocalStack.push returns the list it has just bound, so a caller can mutate the payload through it; outside the operations C18 quantifies over")


# ---------------------------------------------------------------------------
# payload kind + defaults


def _class_units(flow: Flow, c: ClassInfo) -> list[Unit]:
    return [u for u in flow.units if u.cls is c]


def _readers(flow: Flow, storage, c: ClassInfo) -> list[tuple[Unit, ast.Call]]:
    """`.get` calls on the ContextVar of storage class c: in its own methods, and in helpers outside the storage classes
    that are handed the ContextVar (or the instance) by a method of c."""
    out: list[tuple[Unit, ast.Call]] = []
    for u in flow.units:
        gets = flow.storage_calls(u, "get")
        if not gets:
            continue
        if u.cls is not None and u.cls.name in storage:
            owners = [u.cls]
        else:
            owners = [cu.cls for cu, _, _ in flow.call_sites(u) if cu.cls is not None and cu.cls.name in storage]
        for g in gets:
            own = list(owners)
            if not own:  # nobody in the module calls it: the class whose slot the receiver names
                recv = g.func.value if isinstance(g.func, ast.Attribute) else None
                if isinstance(recv, ast.Attribute):
                    own = [c2 for c2, sl in storage.values() if mangle(u.clsname, recv.attr) in sl]
            if any(o is c for o in own):
                out.append((u, g))
    return out


def _payload_kinds(ctx: Ctx, flow: Flow, storage) -> dict[str, str]:
    """per storage class the container kind its `.get(<default>)` calls agree on; each default is an R18.4 obligation."""
    kinds: dict[str, str] = {}
    for cname, (c, _) in sorted(storage.items()):
        seen: dict[str, int] = {}
        for u, g in _readers(flow, storage, c):
            k = flow.default_kind(g.args[0], u, c) if g.args else None
            who = u.fi.qualname if u.cls is c else f"{u.fi.qualname} (for {cname})"
            if k is None and g.args and not flow.default_wrong(g.args[0], u, c):
                ctx.error(f"R18.4: {who}: `{norm(g)}`: the default is neither an empty container literal (directly, through local names, through a helper parameter at every call site) nor certainly something else: cannot decide what an unset context reads as")
                continue
            ctx.ob("R18.4", f"{who}: an unset context reads as the empty payload", k in ("dict", "list"),
                   f"`{norm(g)}`: default is {'an empty ' + k if k else 'missing or not an empty container literal (unset raises LookupError / differs from released)'}", u.fi, g, f"default of {norm(g)}" + ("" if u.cls is c else f" for {cname}"))
            if k:
                seen[k] = seen.get(k, 0) + 1
        if not seen:
            raise AnalysisError(f"{cname}: no `.get(<empty literal>)` on its ContextVar, payload kind unknown")
        kinds[cname] = max(seen, key=lambda k: seen[k])
        if len(seen) > 1:
            ctx.ob("R18.4", f"{cname}: all reads use the same empty default", False, f"defaults of kinds {seen}", c.fq, None, f"{cname} default kinds")
    return kinds


# ---------------------------------------------------------------------------
# R18.1


def _mutations(flow: Flow, u: Unit, muts: set[str]):
    """(node, receiver text, tags, construct) for every syntactic in-place mutation in u."""
    for n in u.walk():
        if isinstance(n, (ast.Subscript, ast.Attribute)) and isinstance(n.ctx, (ast.Store, ast.Del)):
            st = astq.stmt_of(u.fi, n) or n
            yield n, norm(n.value), flow.tags(n.value, u), norm(st) if not isinstance(st, (ast.For, ast.AsyncFor, ast.With, ast.AsyncWith)) else norm(n)
        elif isinstance(n, ast.AugAssign) and isinstance(n.target, ast.Name):
            yield n, n.target.id, flow.name_tags_at(n.target.id, n, u), norm(n)
        elif isinstance(n, ast.Call):
            f = n.func
            if isinstance(f, ast.Attribute) and f.attr in muts:
                yield n, norm(f.value), flow.tags(f.value, u), norm(n)
            if n.args:
                fq = flow.resolve_callee_name(n, u) or ""
                head, _, last = fq.rpartition(".")
                if (head in ("builtins.list", "builtins.dict", "builtins.set") and last in muts) or (head in ("operator", "_operator") and last in INPLACE_OPERATOR):
                    yield n, norm(n.args[0]), flow.tags(n.args[0], u), norm(n)


def _slot_uses_understood(ctx: Ctx, flow: Flow, storage) -> None:
    """every expression that evaluates to a storage ContextVar is used in a way the analysis follows: receiver of
    .get/.set, plain alias, argument of a helper of this module, identity test, or the constructor's store.  Anything
    else (returned, handed to foreign code, .reset ...) means reads or bindings may happen where the rules do not look:
    cannot decide.  This replaces a fixed count of `.get`/`.set` sites, which merged or extracted code undercuts."""
    for u in flow.units:
        for e in u.walk():
            if not isinstance(e, (ast.Attribute, ast.Name, ast.Call)) or not isinstance(getattr(e, "ctx", ast.Load()), ast.Load):
                continue
            if isinstance(e, ast.Attribute) and not (flow.self_ref(e.value, u) or isinstance(e.value, ast.Name)):
                continue
            if not flow.is_storage(e, u):
                continue
            par = astq.parent(e)
            while isinstance(par, ast.NamedExpr) and par.value is e:
                e, par = par, astq.parent(par)
            ok = False
            if isinstance(par, ast.Attribute) and par.value is e:
                ok = par.attr in ("get", "set", "name")
            elif isinstance(par, (ast.Assign, ast.AnnAssign)) and par.value is e:
                tgs = par.targets if isinstance(par, ast.Assign) else [par.target]
                ok = all(isinstance(x, ast.Name) for x in tgs) or (u.fi.name == "__init__" and u.outer is None)
            elif isinstance(par, ast.Compare) and all(isinstance(o, (ast.Is, ast.IsNot)) for o in par.ops):
                ok = True
            elif isinstance(par, ast.Expr):
                ok = True
            elif isinstance(par, ast.Call) and any(x is e for x in par.args) or isinstance(par, ast.keyword):
                call = par if isinstance(par, ast.Call) else astq.parent(par)
                if isinstance(call, ast.Call):
                    d = dotted(call.func)
                    if d in ("isinstance", "id", "type", "repr"):
                        ok = True
                    elif d in ("object.__setattr__", "setattr", "super().__setattr__"):
                        ok = u.fi.name == "__init__" and u.outer is None
                    else:
                        callees = flow.callees(call, u)
                        ok = bool(callees)
                        for cu, off in callees:
                            a = cu.fi.node.args
                            names = [x.arg for x in a.posonlyargs + a.args + a.kwonlyargs]
                            if not any(flow.site_arg(cu, nm, call, off)[1] is e for nm in names):
                                ok = False
            if not ok:
                ctx.error(f"R18.1: the storage ContextVar `{norm(e)}` in {u.fi.qualname} is used in a way the analysis does not follow (`{norm(par) if par is not None else '?'}`): reads/bindings may happen out of sight")


def _r1(ctx: Ctx, flow: Flow, storage) -> None:
    repo = ctx.repo
    muts = repo.mutators("list") | repo.mutators("dict") | repo.mutators("set")
    gets: list[tuple[Unit, ast.Call]] = []
    for u in flow.units:
        for g in flow.storage_calls(u, "get"):
            flow.tags(g, u)  # registers the origin
            gets.append((u, g))
    # every storage class has at least one read (checked with the payload kinds); merging duplicated reads into one helper
    # must not undercut the floor, so it only guards against the matcher finding nothing at all
    ctx.floor("R18.1", "reads of a storage ContextVar (`<storage>.get`)", len(gets), 1)
    for need, table in (("append", "list"), ("pop", "list"), ("update", "dict"), ("clear", "dict"), ("add", "set")):
        if need not in repo.mutators(table):
            raise AnalysisError(f"typeshed mutator table of {table} lacks `{need}`: in-place mutations would go unseen")
    _slot_uses_understood(ctx, flow, storage)

    reached: dict[int, list[str]] = {}
    n_mut = 0
    for u in flow.units:
        for node, recv, tags, construct in _mutations(flow, u, muts):
            sh = shared(tags)
            if FRESH not in tags and not sh:
                continue  # receiver is neither a payload nor a container built here (self, parameters, ...)
            n_mut += 1
            ctx.ob("R18.1", f"{u.fi.qualname}: `{construct}` mutates an object no other context can see", not sh,
                   f"receiver `{recv}` is {flow.describe(tags)}" + ("" if not sh else ": on some path it is the object other contexts may hold, mutated in place"), u.fi, node, construct)
            for s in sh:
                reached.setdefault(s[1], []).append(f"{u.fi.qualname}: `{construct}`")
    # no floor on n_mut: a functional rewrite (`{**old, k: v}`, `old + [x]`, a comprehension) legitimately has none
    for u, g in gets:
        if id(g) not in reached:
            ctx.ob("R18.1", f"{u.fi.qualname}: the payload read by `{norm(g)}` is never mutated in place", True, "reaches no mutation site (through names, helper returns or helper parameters)", u.fi, g, f"read {norm(g)}")

    n_set = 0
    for u in flow.units:
        for s in flow.storage_calls(u, "set"):
            n_set += 1
            arg = s.args[0] if s.args else next((k.value for k in s.keywords), None)
            tags = flow.tags(arg, u) if arg is not None else frozenset()
            ok = arg is not None and set(tags) == {FRESH}
            ctx.ob("R18.1", f"{u.fi.qualname}: `{norm(s)}` binds an object created in this call", ok,
                   f"argument is {flow.describe(tags)}" + ("" if ok else " on some path: not a private copy"), u.fi, s, norm(s))
    # a release method that lost its `.set` is reported by R18.2; it must not hide behind this floor
    lacking = [cn for cn, (c, _) in storage.items() if "__release_local__" in c.methods and not flow.bindings(flow.unit_of(c.methods["__release_local__"]))]
    ctx.floor("R18.1", "bindings of a storage ContextVar (`<storage>.set`; plus release methods without one, reported by R18.2)", n_set + len(lacking), 2)


# ---------------------------------------------------------------------------
# R18.2


class _Keeps:
    """does a value stored by LocalManager.__init__ contain what the caller passed in parameter ``lp``?  Local names are
    followed through their reaching definitions, conditional expressions and branches are excused exactly where the
    parameter is known to be None, and a container that starts empty may be filled afterwards."""

    GROW = {"append", "extend", "insert", "add", "update"}

    def __init__(self, flow: Flow, u: Unit, lp: str, attr: str):
        self.flow, self.u, self.lp, self.attr = flow, u, lp, attr
        cfg = u.cfg
        self.none_edges = []
        for t_ in cfg.tests():
            nl = _none_test(t_, lambda e: astq.is_name(e, lp))
            if nl is not None:
                self.none_edges.append((t_, nl))
            elif t_.kind == "test" and astq.is_name(t_.ast, lp):
                self.none_edges.append((t_, "F"))  # `if not locals`: None or an empty collection - nothing to keep either way

    def absent(self, node: Node) -> bool:
        return any(self.u.cfg.edge_dominates(t_, l, node) for t_, l in self.none_edges)

    def keeps(self, e: ast.AST | None, node: Node, depth: int = 0) -> str | None:
        """reason text when e (evaluated in node) keeps the locals, else None."""
        if e is None or depth > 6:
            return None
        if self.absent(node):
            return "only when no locals were given"
        if isinstance(e, ast.IfExp):
            nl = None
            t_ = e.test.operand if isinstance(e.test, ast.UnaryOp) and isinstance(e.test.op, ast.Not) else e.test
            flip = t_ is not e.test
            if isinstance(t_, ast.Compare) and len(t_.ops) == 1:
                l, op, r = t_.left, t_.ops[0], t_.comparators[0]
                if astq.is_none(l):
                    l, r = r, l
                if astq.is_none(r) and astq.is_name(l, self.lp):
                    nl = isinstance(op, (ast.Is, ast.Eq)) != flip  # True: body is the None branch
            elif astq.is_name(t_, self.lp):
                nl = flip  # `x if locals else []` / `[] if not locals else x`
            parts = []
            for is_body, br in ((True, e.body), (False, e.orelse)):
                if nl is not None and nl == is_body:
                    continue
                parts.append(self.keeps(br, node, depth + 1))
            return None if (not parts or any(p is None for p in parts)) else parts[0]
        # the parameter handed to a helper of the module (a normalising function, a generator): the helper is looked into
        for c_ in ast.walk(e):
            if isinstance(c_, ast.Call) and depth < 4:
                callees = self.flow.callees(c_, self.u)
                if len(callees) == 1:
                    tu, off = callees[0]
                    pn = _param_receiving(self.flow, tu, c_, off, lambda a_: astq.is_name(a_, self.lp))
                    if pn is not None and tu is not self.u:
                        return f"built by {tu.fi.name}({self.lp}), which hands on the locals it is given on every path" if self._helper_keeps(tu, pn, depth) else None
        for x in ast.walk(e):
            if not isinstance(x, ast.Name) or not isinstance(x.ctx, ast.Load):
                continue
            if x.id == self.lp:
                return "built from the parameter"
            defs = self.u.rd.reaching(node, x.id)
            if defs and all(self._def_keeps(d, depth) for d in defs):
                return f"built from `{x.id}`, which holds the parameter's locals"
        return None

    def _helper_keeps(self, tu: Unit, pn: str, depth: int) -> bool:
        """a helper that is handed the locals returns (or, a generator, yields) them on every path where some were given."""
        sub = _Keeps(self.flow, tu, pn, self.attr)
        if isinstance(tu.fi.node, ast.AsyncFunctionDef):
            return False
        yields = [n for n in tu.walk() if isinstance(n, (ast.Yield, ast.YieldFrom))]
        if not yields:
            rets = [n for n in tu.walk() if isinstance(n, ast.Return)]
            return bool(rets) and all(r.value is not None and tu.cfg.node_of(r) is not None and sub.keeps(r.value, tu.cfg.node_of(r), depth + 1) is not None for r in rets)  # type: ignore[arg-type]
        grow = []
        for y in yields:
            n_ = tu.cfg.node_of(y)
            if n_ is not None and isinstance(astq.parent(y), ast.Expr) and y.value is not None and sub.keeps(y.value, n_, depth + 1) is not None:
                grow.append(n_)
        if not grow:
            return False
        r = tu.cfg.reach(tu.cfg.entry, avoid_nodes=grow, avoid_edges=sub.none_edges)
        return tu.cfg.exit.id not in r

    def _def_keeps(self, d, depth: int) -> bool:
        if d.node is None or d.value is None or d.kind not in ("assign", "walrus", "unpack", "for", "aug"):
            return False
        if self.keeps(d.value, d.node, depth + 1) is not None:
            return True
        return self.built_up(d.node, lambda e, nm=d.name: astq.is_name(e, nm))

    def built_up(self, start: Node, is_recv) -> bool:
        """every path from start to the normal exit on which locals were given passes a statement that puts them into the container."""
        cfg = self.u.cfg
        grow: list[Node] = []
        for n in cfg.nodes:
            a = n.ast
            if a is None or n is start:
                continue
            hit = False
            if n.kind == "stmt" and isinstance(a, ast.AugAssign) and is_recv(a.target) and self.keeps(a.value, n, 1) is not None:
                hit = True
            elif n.kind in ("stmt", "test"):
                for c_ in ast.walk(a):
                    if isinstance(c_, ast.Call) and isinstance(c_.func, ast.Attribute) and c_.func.attr in self.GROW and is_recv(c_.func.value) and any(self.keeps(x, n, 1) is not None for x in c_.args):
                        hit = True
            elif n.kind == "loop" and isinstance(a, (ast.For, ast.AsyncFor)) and self.keeps(a.iter, n, 1) is not None:
                # for x in <locals>: container.append(x)
                for st in a.body:
                    for c_ in ast.walk(st):
                        if isinstance(c_, ast.Call) and isinstance(c_.func, ast.Attribute) and c_.func.attr in self.GROW and is_recv(c_.func.value):
                            hit = True
            if hit:
                grow.append(n)
        if not grow:
            return False
        starts = [s for s, l in start.succs if l != "exc" and not any(s is g for g in grow)]
        if not starts:
            return True
        r = cfg.reach(starts, avoid_nodes=grow, avoid_edges=self.none_edges)
        return cfg.exit.id not in r

    def reiterable_guard(self, node: Node) -> bool:
        for t_, l in self.u.cfg.guards(node):
            e = t_.ast
            if l == "T" and isinstance(e, ast.Call) and dotted(e.func) == "isinstance" and len(e.args) == 2 and astq.is_name(e.args[0], self.lp):
                ts = e.args[1].elts if isinstance(e.args[1], ast.Tuple) else [e.args[1]]
                if ts and all(dotted(x) in ("list", "tuple", "set", "frozenset") for x in ts):
                    return True
        return False


LAZY = {"builtins.iter", "builtins.reversed", "builtins.map", "builtins.filter", "builtins.zip", "builtins.enumerate"}


def _foreign_result(flow: Flow, u: Unit, e: ast.AST | None, at: Node | None, depth: int = 0) -> str | None:
    """text of a call into unseen code (not a builtin / stdlib constructor the tag analysis knows, not a lazy builtin, not a
    helper of the module) whose result e may evaluate to - through local names and conditional expressions."""
    if e is None or depth > 4:
        return None
    if isinstance(e, ast.NamedExpr):
        return _foreign_result(flow, u, e.value, at, depth)
    if isinstance(e, ast.IfExp):
        return _foreign_result(flow, u, e.body, at, depth + 1) or _foreign_result(flow, u, e.orelse, at, depth + 1)
    if isinstance(e, ast.Name) and at is not None:
        for d in u.rd.reaching(at, e.id):
            if d.kind in ("assign", "walrus") and d.index is None and d.value is not None:
                r = _foreign_result(flow, u, d.value, d.node, depth + 1)
                if r is not None:
                    return r
        return None
    if isinstance(e, ast.Call):
        if isinstance(e.func, ast.Attribute) and e.func.attr in ("copy", "__copy__"):
            return None
        fq = flow.resolve_callee_name(e, u)
        if flow.callees(e, u) or (fq is not None and (fq in LAZY or fq.startswith("itertools.") or fq.startswith("builtins.") or fq.startswith("collections.") or fq.startswith("copy."))):
            return None
        return norm(e)
    return None


RELEASE = "__release_local__"
COPYING = ("list", "tuple", "reversed", "iter", "sorted")
INERT_CALLS = {"isinstance", "type", "id", "repr", "str", "print", "len", "hasattr", "getattr", "callable", "bool", "hash"}


def _param_subject(u: Unit, pname: str):
    """recogniser of 'the object passed in parameter pname', not rebound on the way."""

    def is_subject(e: ast.AST) -> bool:
        if not astq.is_name(e, pname):
            return False
        n = u.cfg.node_of(e)
        defs = u.rd.reaching(n, pname) if n is not None else frozenset()
        return bool(defs) and all(d.kind == "param" for d in defs)

    return is_subject


def _param_receiving(flow: Flow, cu: Unit, call: ast.Call, off: int, is_subject) -> str | None:
    a = cu.fi.node.args
    for nm in [x.arg for x in a.posonlyargs + a.args + a.kwonlyargs]:
        how, arg = flow.site_arg(cu, nm, call, off)
        if how == "arg" and arg is not None and is_subject(arg):
            return nm
    return None


class _Rel:
    """Recognition of "this call releases the local S, now" - by meaning, shared by release_local, LocalManager.cleanup and
    the helpers they call.  A release is a call of S's bound `__release_local__` - however the bound method was obtained
    (`S.__release_local__`, `getattr(S, "__release_local__")`, `attrgetter("__release_local__")(S)`, a local name holding
    one of these, set in the same iteration) - or `methodcaller("__release_local__")(S)`, `type(S).__release_local__(S)`,
    `release_local(S)`, or a helper of the module that releases the parameter receiving S on every path."""

    def __init__(self, flow: Flow, rl: FuncInfo | None):
        self.flow, self.rl = flow, rl

    # -- small recognisers -------------------------------------------------------------------------------
    def _op(self, call: ast.AST | None, u: Unit, name: str) -> bool:
        """call is operator.<name>("__release_local__")."""
        if not isinstance(call, ast.Call) or len(call.args) != 1 or call.keywords or astq.const_str(call.args[0]) != RELEASE:
            return False
        return (self.flow.resolve_callee_name(call, u) or "") in (f"operator.{name}", f"_operator.{name}")

    def _stands_for(self, e: ast.Name, u: Unit) -> list[ast.AST] | None:
        """the expressions a name used as a function stands for: its reaching plain assignments, or its module-level
        binding(s); None when it is something else (parameter, loop variable, function ...)."""
        node = u.cfg.node_of(e)
        defs = u.rd.reaching(node, e.id) if node is not None else frozenset()
        if defs:
            if all(d.kind in ("assign", "walrus") and d.index is None and d.value is not None for d in defs):
                return [d.value for d in defs]  # type: ignore[misc]
            return None
        o = u.outer
        while o is not None:
            if Flow._binds(o, e.id):
                return None
            o = o.outer
        mod = self.flow.module
        if e.id in mod.functions or e.id in mod.classes:
            return None
        vals = mod.assigns.get(e.id)
        return list(vals) if vals else None

    @staticmethod
    def _same_iteration(u: Unit, dnode: Node | None, use: Node | None, head: Node | None) -> bool:
        """a definition made in a loop body is the one of THIS iteration when every path from the loop head to the use passes it."""
        if head is None or dnode is None or use is None or dnode is use:
            return dnode is not None and use is not None
        starts = [s for s, l in head.succs if l in ("T", None) and s is not dnode]  # for loop: the body edge; while loop (join node): its condition
        return use.id not in u.cfg.reach(starts, avoid_nodes=[dnode])

    def subject(self, e: ast.AST, u: Unit, is_subject, head: Node | None = None, depth: int = 0) -> bool:
        """e is S, or a local name that is a plain copy of S made in the same iteration."""
        if is_subject(e):
            return True
        if isinstance(e, ast.NamedExpr):
            return self.subject(e.value, u, is_subject, head, depth)
        if isinstance(e, ast.Name) and depth < 3 and bound_in_enclosing_comp(e, u.fi.node) is None:
            use = u.cfg.node_of(e)
            defs = u.rd.reaching(use, e.id) if use is not None else frozenset()
            return bool(defs) and all(
                d.kind in ("assign", "walrus") and d.index is None and d.value is not None and self.subject(d.value, u, is_subject, head, depth + 1) and self._same_iteration(u, d.node, use, head)
                for d in defs)
        return False

    def binder(self, fn: ast.AST, u: Unit, depth: int = 0) -> bool:
        """fn(x) evaluates to x's bound __release_local__ (and does nothing else)."""
        if depth > 3:
            return False
        if self._op(fn, u, "attrgetter"):
            return True
        if isinstance(fn, ast.Lambda) and len(fn.args.args) == 1 and not (fn.args.posonlyargs or fn.args.kwonlyargs or fn.args.vararg or fn.args.kwarg):
            pn = fn.args.args[0].arg
            return self.bound(fn.body, u, lambda e: astq.is_name(e, pn))
        if isinstance(fn, ast.Name):
            vals = self._stands_for(fn, u)
            return bool(vals) and all(self.binder(v, u, depth + 1) for v in vals)
        return False

    def bound(self, e: ast.AST | None, u: Unit, is_subject, head: Node | None = None, depth: int = 0) -> bool:
        """e evaluates to the bound `__release_local__` of S."""
        if e is None or depth > 4:
            return False
        if isinstance(e, ast.NamedExpr):
            return self.bound(e.value, u, is_subject, head, depth)
        if isinstance(e, ast.Attribute):
            return e.attr == RELEASE and self.subject(e.value, u, is_subject, head)
        if isinstance(e, ast.Call) and not e.keywords:
            if dotted(e.func) == "getattr" and len(e.args) == 2 and astq.const_str(e.args[1]) == RELEASE and not self.flow._locally_bound("getattr", e, u):
                return self.subject(e.args[0], u, is_subject, head)
            if len(e.args) == 1 and self.binder(e.func, u):
                return self.subject(e.args[0], u, is_subject, head)
            return False
        if isinstance(e, ast.Name) and bound_in_enclosing_comp(e, u.fi.node) is None:
            use = u.cfg.node_of(e)
            defs = u.rd.reaching(use, e.id) if use is not None else frozenset()
            return bool(defs) and all(
                d.kind in ("assign", "walrus") and d.index is None and d.value is not None and self.bound(d.value, u, is_subject, head, depth + 1) and self._same_iteration(u, d.node, use, head)
                for d in defs)
        return False

    def releaser(self, fn: ast.AST, u: Unit, depth: int = 0) -> bool:
        """calling fn(x) releases x before it returns."""
        if depth > 3:
            return False
        if self._op(fn, u, "methodcaller"):
            return True
        if isinstance(fn, ast.Lambda) and len(fn.args.args) == 1 and not (fn.args.posonlyargs or fn.args.kwonlyargs or fn.args.vararg or fn.args.kwarg):
            pn = fn.args.args[0].arg
            calls = [c_ for c_ in ast.walk(fn.body) if isinstance(c_, ast.Call) and self.is_release(c_, u, lambda e: astq.is_name(e, pn), depth + 1)]
            return any(why_conditional(c_, fn.body) is None for c_ in calls)
        target: Unit | None = None
        first = 0
        if isinstance(fn, ast.Name):
            vals = self._stands_for(fn, u)
            if vals is not None:
                return bool(vals) and all(self.releaser(v, u, depth + 1) for v in vals)
            node = u.cfg.node_of(fn)
            if (node is None or not u.rd.reaching(node, fn.id)) and fn.id in self.flow.module.functions and self.flow.resolve_callee_name(ast.Call(func=fn, args=[], keywords=[]), u) is not None:
                target = self.flow.unit_of(self.flow.module.functions[fn.id])
        elif isinstance(fn, ast.Attribute) and self.flow.self_ref(fn.value, u) and u.cls is not None:
            _, what = self.flow.repo.lookup(u.cls, fn.attr)
            if isinstance(what, FuncInfo) and id(what.node) in self.flow.by_node:
                target = self.flow.by_node[id(what.node)]
                first = 0 if "staticmethod" in what.decorators else 1
        if target is None:
            return False
        a_ = target.fi.node.args
        pos = [y.arg for y in a_.posonlyargs + a_.args]
        if len(pos) <= first:
            return False
        return (self.rl is not None and target.fi is self.rl) or self.releases_param(target, pos[first], depth + 1)

    # -- the two questions the rules ask --------------------------------------------------------------------
    def is_release(self, c_: ast.Call, u: Unit, is_subject, depth: int = 0, head: Node | None = None) -> bool:
        f = c_.func
        if not c_.args and not c_.keywords and self.bound(f, u, is_subject, head):
            return True
        if len(c_.args) == 1 and not c_.keywords and self.subject(c_.args[0], u, is_subject, head):
            if self._op(f, u, "methodcaller"):
                return True
            if isinstance(f, ast.Attribute) and f.attr == RELEASE and isinstance(f.value, ast.Call) and dotted(f.value.func) == "type" and len(f.value.args) == 1 and self.subject(f.value.args[0], u, is_subject, head):
                return True
            if isinstance(f, ast.Name) and not self.flow.callees(c_, u):
                vals = self._stands_for(f, u)
                if vals and all(self.releaser(v, u, depth + 1) for v in vals):
                    return True
        callees = self.flow.callees(c_, u)
        good = bool(callees)
        for tu, off in callees:
            pn = _param_receiving(self.flow, tu, c_, off, lambda e: self.subject(e, u, is_subject, head))
            if pn is None:
                good = False
            elif self.rl is not None and tu.fi is self.rl:
                continue
            elif depth >= 2 or tu is u or not self.releases_param(tu, pn, depth + 1):
                good = False
        return good

    def calls(self, u: Unit, is_subject, depth: int = 0, head: Node | None = None, within: ast.AST | None = None) -> list[ast.Call]:
        """calls in u (inside ``within`` when given, nested lambdas excluded) that release S."""
        it = u.walk() if within is None else walk_no_nested(within)
        return [c_ for c_ in it if isinstance(c_, ast.Call) and self.is_release(c_, u, is_subject, depth, head)]

    def releases_param(self, cu: Unit, pname: str, depth: int) -> bool:
        """does calling cu release, on every normal path and in the calling context, the local passed for pname?"""
        if isinstance(cu.fi.node, ast.AsyncFunctionDef) or any(isinstance(n, (ast.Yield, ast.YieldFrom)) for n in cu.walk()):
            return False  # calling a generator / coroutine function runs nothing
        calls = self.calls(cu, _param_subject(cu, pname), depth)
        nodes = [x for x in (self.flow.run_node(c_, cu) for c_ in calls) if x is not None]
        return bool(nodes) and cu.cfg.all_paths_pass(cu.cfg.entry, [cu.cfg.exit], nodes)

    def unclear_use(self, is_var, within: ast.AST, u: Unit, depth: int = 0) -> str | None:
        """a call in the iteration that involves the loop variable in a way that is not understood (it may well release it).
        A helper of the module is looked into: what it does with the parameter is visible."""
        for c_ in walk_no_nested(within):
            if not isinstance(c_, ast.Call) or dotted(c_.func) in INERT_CALLS:
                continue
            if isinstance(c_.func, ast.Call) and dotted(c_.func.func) == "getattr" and len(c_.func.args) >= 2 and astq.const_str(c_.func.args[1]) is not None:
                continue  # a method looked up by a constant name: were it the release, `bound` would have said so (other name / a default that may be taken instead)
            if not any(isinstance(y, ast.Name) and is_var(y) for part in [c_.func, *c_.args, *[k.value for k in c_.keywords]] for y in ast.walk(part)):
                continue
            callees = self.flow.callees(c_, u)
            if not callees or depth >= 2:
                return norm(c_)
            for tu, off in callees:
                if self.rl is not None and tu.fi is self.rl:
                    continue
                pn = _param_receiving(self.flow, tu, c_, off, is_var)
                if pn is None:
                    return norm(c_)
                inner = self.unclear_use(_param_subject(tu, pn), tu.fi.node, tu, depth + 1)
                if inner is not None:
                    return f"{norm(c_)} -> {inner}"
        return None


def _empty_edges(flow: Flow, cu: Unit, is_managed, understood: set[int] | None = None) -> list[tuple[Node, str]]:
    """(test, label) edges on which the managed container is known to be empty: nothing to release beyond them.
    ``understood`` collects the tests whose meaning is known although no edge of them implies emptiness (`len(x) < 2`)."""
    out: list[tuple[Node, str]] = []

    def is_len(e: ast.AST) -> bool:
        return isinstance(e, ast.Call) and dotted(e.func) == "len" and len(e.args) == 1 and is_managed(e.args[0], cu.cfg.node_of(e))

    def is_count(e: ast.AST, depth: int = 0) -> bool:
        """len(<managed>) or a local name holding it."""
        if is_len(e):
            return True
        if isinstance(e, ast.NamedExpr):
            return is_count(e.value, depth)
        if isinstance(e, ast.Name) and depth < 3:
            node = cu.cfg.node_of(e)
            defs = cu.rd.reaching(node, e.id) if node is not None else frozenset()
            return bool(defs) and all(d.kind in ("assign", "walrus") and d.index is None and d.value is not None and is_count(d.value, depth + 1) for d in defs)
        return False

    def empty_when(e: ast.AST | None, at: Node | None, depth: int = 0) -> str | None:
        """the truth value ("T" / "F") of condition e that implies the managed container is empty; "?" when e is a
        comparison of its length that implies emptiness on neither side; None when e is not a test of it.  Through `not`,
        bool(), a walrus, and a local name every reaching definition of which is such a condition with the same answer (a
        flag computed before the branch: `nothing = not self.locals`)."""
        if e is None or depth > 6:
            return None
        if isinstance(e, ast.NamedExpr):
            return empty_when(e.value, at, depth + 1)
        if is_managed(e, at) or is_count(e):
            return "F"
        if isinstance(e, ast.UnaryOp) and isinstance(e.op, ast.Not):
            r_ = empty_when(e.operand, at, depth + 1)
            return {"T": "F", "F": "T"}.get(r_, r_)  # type: ignore[arg-type]
        if isinstance(e, ast.Call) and dotted(e.func) == "bool" and len(e.args) == 1 and not e.keywords:
            return empty_when(e.args[0], at, depth + 1)
        if isinstance(e, ast.Compare) and len(e.ops) == 1:
            l, op, r = e.left, e.ops[0], e.comparators[0]
            if isinstance(l, ast.Constant):
                l, r = r, l
                op = {ast.Lt: ast.Gt, ast.Gt: ast.Lt, ast.LtE: ast.GtE, ast.GtE: ast.LtE}.get(type(op), type(op))()
            if is_count(l) and isinstance(r, ast.Constant) and type(r.value) is int:
                k = r.value
                if (isinstance(op, ast.Eq) and k == 0) or (isinstance(op, ast.Lt) and k == 1) or (isinstance(op, ast.LtE) and k == 0):
                    return "T"
                if (isinstance(op, (ast.NotEq, ast.Gt)) and k == 0) or (isinstance(op, ast.GtE) and k == 1):
                    return "F"
                return "?"
            return None
        if isinstance(e, ast.Name):
            node = cu.cfg.node_of(e)
            defs = cu.rd.reaching(node, e.id) if node is not None else frozenset()
            got = set()
            for d in defs:
                if d.kind not in ("assign", "walrus") or d.index is not None or d.value is None:
                    return None
                got.add(empty_when(d.value, d.node, depth + 1))
            return next(iter(got)) if len(got) == 1 else ("?" if got and None not in got else None)
        return None

    for t_ in cu.cfg.tests():
        e = t_.ast
        if t_.kind != "test" or e is None:
            continue
        w = empty_when(e, t_)
        if w is None:
            continue
        if understood is not None and not (is_managed(e, t_) or is_count(e)):
            understood.add(id(t_))
        if w in ("T", "F"):
            out.append((t_, w))
    return out


Verdict = t.Tuple[str, str, ast.AST, str]  # status (ok | bad | unknown), fact, node, construct


class _Scan:
    """Iterations over ALL managed locals in one function, and for each: is a release of the element executed in EVERY
    iteration (not as a short-circuited operand, not on some paths only, not pulled lazily by a consumer that stops early),
    is the iteration never left early, and is it reached on every path on which there is something to release.

    "The managed locals" are the manager's attribute, a parameter that the call site feeds with them (when the iteration
    was moved into a helper), a plain alias / full copy / re-ordering of those, or a helper / generator of the module that
    hands all of them on.  The loop variable may stand for the local itself, for its bound `__release_local__`
    (`map(attrgetter(...), locals)`, `(x.__release_local__ for x in locals)`), or for its index (`range(len(locals))`)."""

    def __init__(self, flow: Flow, rel: _Rel, cu: Unit, attr: str, self_ok: bool = True, managed_params: t.Iterable[str] = (), depth: int = 0, what: str = "cleanup"):
        self.flow, self.rel, self.cu, self.attr = flow, rel, cu, attr
        self.self_ok, self.params, self.depth = self_ok, set(managed_params), depth
        self.cfg = cu.cfg
        self.what = what
        self.understood: set[int] = set()
        self.empty = _empty_edges(flow, cu, self.is_managed, self.understood)

    # -- what is iterated ------------------------------------------------------------------------------------
    def _hands_on_all(self, call: ast.Call, depth: int) -> bool:
        """a helper of the module (function, method, generator) whose result is / yields all managed locals."""
        if self.depth + depth > 3:
            return False
        callees = self.flow.callees(call, self.cu)
        if len(callees) != 1:
            return False
        tu, off = callees[0]
        return self._unit_hands_on(tu, call, off)

    def _unit_hands_on(self, tu: Unit, call: ast.Call | None, off: int) -> bool:
        if tu is self.cu or isinstance(tu.fi.node, ast.AsyncFunctionDef):
            return False
        params: set[str] = set()
        if call is not None:
            a = tu.fi.node.args
            for nm in [x.arg for x in a.posonlyargs + a.args + a.kwonlyargs]:
                how, arg = self.flow.site_arg(tu, nm, call, off)
                if how == "arg" and arg is not None and self.is_managed(arg, self.cfg.node_of(arg)):
                    params.add(nm)
        sub = _Scan(self.flow, self.rel, tu, self.attr, self.self_ok and off == 1 and tu.cls is self.cu.cls, params, self.depth + 1)
        yields = [n for n in tu.walk() if isinstance(n, (ast.Yield, ast.YieldFrom))]
        if not yields:
            rets = [n for n in tu.walk() if isinstance(n, ast.Return)]
            return bool(rets) and all(r.value is not None and sub.is_managed(r.value, tu.cfg.node_of(r)) for r in rets)
        # generator: one `yield from <managed>` / `for x in <managed>: yield x` passed on every path, nothing that ends it early
        if any(isinstance(n, ast.Return) for n in tu.walk()):
            return False
        good: list[Node] = []
        for y in yields:
            node = tu.cfg.node_of(y)
            st = astq.parent(y)
            if node is None or not isinstance(st, ast.Expr):
                return False
            if isinstance(y, ast.YieldFrom):
                if not sub.is_managed(y.value, node):
                    return False
                good.append(node)
            else:
                loop = astq.parent(st)
                if not (isinstance(loop, (ast.For, ast.AsyncFor)) and len(loop.body) == 1 and loop.body[0] is st and not loop.orelse and isinstance(loop.target, ast.Name)
                        and astq.is_name(y.value, loop.target.id) and sub.is_managed(loop.iter, tu.cfg.node_of(loop))):
                    return False
                head = tu.cfg.node_of(loop)
                if head is None:
                    return False
                good.append(head)
        return bool(good) and tu.cfg.all_paths_pass(tu.cfg.entry, [tu.cfg.exit], good)

    def is_managed(self, e: ast.AST | None, at: Node | None, depth: int = 0) -> bool:
        """e evaluates to the managed locals (the attribute, a plain alias, a full copy / re-ordering of it ...)."""
        cu = self.cu
        if e is None or depth > 6:
            return False
        if isinstance(e, ast.NamedExpr):
            return self.is_managed(e.value, at, depth + 1)
        if isinstance(e, ast.Starred):
            return False
        if isinstance(e, (ast.List, ast.Tuple)) and len(e.elts) == 1 and isinstance(e.elts[0], ast.Starred):
            return self.is_managed(e.elts[0].value, at, depth + 1)  # [*managed]
        if isinstance(e, ast.Call):
            if dotted(e.func) in COPYING and len(e.args) == 1 and not e.keywords:
                return self.is_managed(e.args[0], at, depth + 1)
            if isinstance(e.func, ast.Attribute) and e.func.attr in ("copy", "__iter__", "__reversed__") and not e.args and not e.keywords:
                return self.is_managed(e.func.value, at, depth + 1)
            if (dotted(e.func) or "").endswith("cast") and len(e.args) == 2:
                return self.is_managed(e.args[1], at, depth + 1)
            return self._hands_on_all(e, depth)
        if isinstance(e, ast.Subscript) and isinstance(e.slice, ast.Slice):
            s_ = e.slice
            full = s_.lower is None and s_.upper is None and (s_.step is None or (isinstance(s_.step, ast.UnaryOp) and isinstance(s_.step.op, ast.USub) and isinstance(s_.step.operand, ast.Constant) and s_.step.operand.value == 1)
                                                             or (isinstance(s_.step, ast.Constant) and s_.step.value in (1, -1)))
            return full and self.is_managed(e.value, at, depth + 1)
        if isinstance(e, ast.Name) and at is not None:
            if bound_in_enclosing_comp(e, cu.fi.node) is not None:
                return False
            defs = cu.rd.reaching(at, e.id)
            if len(defs) == 1:
                d0 = next(iter(defs))
                if d0.kind in ("assign", "walrus") and d0.index is None and d0.value is not None:
                    return self.is_managed(d0.value, d0.node, depth + 1)
                if d0.kind == "param":
                    return e.id in self.params
            return False
        if isinstance(e, ast.Attribute) and self.flow.self_ref(e.value, cu):
            if e.attr == self.attr:
                return self.self_ok
            if cu.cls is not None and self.self_ok:
                _, what = self.flow.repo.lookup(cu.cls, e.attr)
                if isinstance(what, FuncInfo) and id(what.node) in self.flow.by_node and any(d.endswith("property") for d in what.decorators):
                    return self._unit_hands_on(self.flow.by_node[id(what.node)], None, 1)
        return False

    def _is_count(self, e: ast.AST, depth: int = 0) -> bool:
        """len(<managed>), or a local name holding it."""
        if isinstance(e, ast.Call) and dotted(e.func) == "len" and len(e.args) == 1 and not e.keywords:
            return self.is_managed(e.args[0], self.cfg.node_of(e))
        if isinstance(e, ast.NamedExpr):
            return self._is_count(e.value, depth)
        if isinstance(e, ast.Name) and depth < 3:
            n_ = self.cfg.node_of(e)
            defs = self.cu.rd.reaching(n_, e.id) if n_ is not None else frozenset()
            return bool(defs) and all(d.kind in ("assign", "walrus") and d.index is None and d.value is not None and self._is_count(d.value, depth + 1) for d in defs)
        return False

    def mentions(self, e: ast.AST, depth: int = 0) -> bool:
        """e reads the managed locals - directly, or through local names computed from them (`n = len(self.locals)`)."""
        for y in ast.walk(e):
            if (isinstance(y, ast.Attribute) and y.attr == self.attr and self.flow.self_ref(y.value, self.cu)) or (isinstance(y, ast.Name) and y.id in self.params):
                return True
            if isinstance(y, ast.Name) and isinstance(y.ctx, ast.Load) and depth < 4:
                node = self.cfg.node_of(y)
                for d in (self.cu.rd.reaching(node, y.id) if node is not None else ()):
                    if d.kind in ("assign", "walrus", "unpack") and d.value is not None and d.value is not e and self.mentions(d.value, depth + 1):
                        return True
        return False

    def role(self, e: ast.AST | None, at: Node | None, depth: int = 0) -> str | None:
        """what iterating e yields for every managed local: "elem" (the local), "bound" (its bound release method) or
        "index" (its position)."""
        if e is None or depth > 6:
            return None
        if self.is_managed(e, at):
            return "elem"
        if isinstance(e, ast.NamedExpr):
            return self.role(e.value, at, depth + 1)
        if isinstance(e, ast.Name) and at is not None and bound_in_enclosing_comp(e, self.cu.fi.node) is None:
            defs = self.cu.rd.reaching(at, e.id)
            if len(defs) == 1:
                d0 = next(iter(defs))
                if d0.kind in ("assign", "walrus") and d0.index is None and d0.value is not None:
                    return self.role(d0.value, d0.node, depth + 1)
            return None
        if isinstance(e, ast.Call) and not e.keywords:
            d = dotted(e.func)
            if d in COPYING and len(e.args) == 1:
                return self.role(e.args[0], at, depth + 1)
            if d == "map" and len(e.args) == 2 and self.role(e.args[1], at, depth + 1) == "elem" and self.rel.binder(e.args[0], self.cu):
                return "bound"
            if d == "range" and (len(e.args) == 1 or (len(e.args) == 2 and isinstance(e.args[0], ast.Constant) and e.args[0].value == 0)):
                if self._is_count(e.args[-1]):
                    return "index"
            return None
        if isinstance(e, (ast.GeneratorExp, ast.ListComp, ast.SetComp)) and len(e.generators) == 1:
            g = e.generators[0]
            if g.ifs or g.is_async or not isinstance(g.target, ast.Name) or self.role(g.iter, at, depth + 1) != "elem":
                return None
            v = g.target.id
            if astq.is_name(e.elt, v):
                return "elem"
            if self.rel.bound(e.elt, self.cu, lambda x: astq.is_name(x, v) and bound_in_enclosing_comp(x, self.cu.fi.node) is g):
                return "bound"
        return None

    def element(self, target: ast.AST, it: ast.AST, at: Node | None) -> tuple[str, str] | None:
        """(name, role) bound for each managed local by `for <target> in <it>` (also `for i, x in enumerate(<it>)`)."""
        if isinstance(target, ast.Name):
            r = self.role(it, at)
            return (target.id, r) if r is not None else None
        if isinstance(target, (ast.Tuple, ast.List)) and len(target.elts) == 2 and isinstance(target.elts[1], ast.Name) and isinstance(it, ast.Call) and dotted(it.func) == "enumerate" and it.args:
            r = self.role(it.args[0], at)
            return (target.elts[1].id, r) if r in ("elem", "bound") else None
        return None

    def _subject_of(self, var: str, role: str, is_var):
        """recogniser of "the managed local of this iteration" in terms of the loop variable."""
        if role == "index":
            return lambda e: isinstance(e, ast.Subscript) and not isinstance(e.slice, ast.Slice) and is_var(e.slice) and self.is_managed(e.value, self.cfg.node_of(e))
        return is_var

    def _releases(self, var: str, role: str, is_var, within: ast.AST, head: Node | None) -> list[ast.Call]:
        if role == "bound":
            return [c_ for c_ in walk_no_nested(within) if isinstance(c_, ast.Call) and not c_.args and not c_.keywords and self.rel.subject(c_.func, self.cu, is_var, head)]
        return self.rel.calls(self.cu, self._subject_of(var, role, is_var), 0, head, within)

    # -- control flow ------------------------------------------------------------------------------------------
    def never_left_early(self, loop: ast.AST) -> bool:
        head = self.cfg.node_of(loop)
        if head is None:
            return False
        r = self.cfg.reach(self.cfg.succ(head, "T"), avoid_nodes=[head])
        return self.cfg.exit.id not in r and self.cfg.raise_exit.id not in r

    def consumer_verdict(self, lazy: ast.AST) -> tuple[str, str]:
        """who pulls a lazy iterator (generator expression / map object), and does it pull to the end?"""
        par = astq.parent(lazy)
        if isinstance(par, ast.Call) and par.args and par.args[0] is lazy:
            d = dotted(par.func) or "?"
            if d in STOPPING_EARLY:
                return "bad", f"it is pulled by `{d}()`, which stops at the first deciding element: the locals after it are never released"
            if d in EXHAUSTING:
                return "ok", f"pulled to the end by `{d}()`"
            return "unknown", f"pulled by `{d}(...)`: unknown whether to the end"
        if isinstance(par, ast.Starred) and isinstance(astq.parent(par), (ast.List, ast.Tuple, ast.Set)) and isinstance(getattr(astq.parent(par), "ctx", ast.Load()), ast.Load):
            return "ok", "unpacked to the end into a display (`[*it]`)"
        if isinstance(par, (ast.For, ast.AsyncFor)) and par.iter is lazy:
            if self.never_left_early(par):
                return "ok", "pulled to the end by a for loop that is never left early"
            return "bad", "the for loop pulling it can be left early (break / return / raise)"
        if isinstance(par, ast.Expr):
            return "bad", "it is never consumed: nothing runs"
        return "unknown", f"handed to `{norm(par) if par is not None else '?'}`: unknown whether it is pulled to the end"

    def why_skipped(self, x: ast.AST, root: ast.AST | None) -> str | None:
        """why_conditional, except that being skipped exactly when nothing is managed does not count:
        `self.locals and self._release_all()`, `[...] if self.locals else None`."""
        w_ = why_conditional(x, root)
        if w_ is None or root is None:
            return w_
        at = self.cfg.node_of(x)
        cur: ast.AST = x
        while cur is not root:
            par = astq.parent(cur)
            if par is None:
                return w_
            if isinstance(par, ast.BoolOp) and cur is not par.values[0]:
                i = next(i for i, v in enumerate(par.values) if v is cur)
                if not (isinstance(par.op, ast.And) and all(self.is_managed(v, at) or self._is_count(v) for v in par.values[:i])):
                    return w_
            elif isinstance(par, ast.IfExp) and cur is not par.test:
                t_ = par.test
                neg = isinstance(t_, ast.UnaryOp) and isinstance(t_.op, ast.Not)
                t_ = t_.operand if neg else t_  # type: ignore[union-attr]
                if not ((self.is_managed(t_, at) or self._is_count(t_)) and (cur is par.orelse) == neg):
                    return w_
            elif isinstance(par, (ast.Lambda, ast.FunctionDef, ast.AsyncFunctionDef, ast.comprehension, ast.ListComp, ast.SetComp, ast.DictComp, ast.GeneratorExp, ast.Assert)) or (isinstance(par, ast.Compare) and cur is not par.left):
                return w_
            cur = par
        return None

    def always_reached(self, node: Node | None) -> bool:
        return node is not None and self.cfg.exit.id not in self.cfg.reach(self.cfg.entry, avoid_nodes=[node], avoid_edges=self.empty)

    def _bypass(self, node: Node | None, what: str) -> tuple[str, str]:
        """verdict for an iteration that some path through the method does not reach."""
        known = {id(t_) for t_, _ in self.empty} | self.understood
        odd = [t_ for t_ in self.cfg.tests() if t_.kind == "test" and t_.ast is not None and id(t_) not in known and self.mentions(t_.ast)]
        if odd:
            return "unknown", f"{what} is bypassed on some path, under a test of the managed locals that is not understood (`{odd[0].text()}`)"
        return "bad", f"a path through the method on which locals may be managed bypasses {what}"

    # -- while loops: a cursor over the managed locals ------------------------------------------------------------
    def _region(self, head: Node) -> set[int]:
        """ids of the nodes of the loop headed by ``head`` (reachable from it, and it from them)."""
        back: set[int] = set()
        st = [head]
        while st:
            n = st.pop()
            for p, _ in n.preds:
                if p.id not in back:
                    back.add(p.id)
                    st.append(p)
        return (self.cfg.reach(head) & back) | {head.id}

    def _while(self, x: ast.While) -> Verdict | None:
        """`while` driven by a cursor over the managed locals: a work list (a copy that is popped until it is empty), an
        iterator (`next(it, sentinel)` / `next(it)` + StopIteration) or an index (`i < len(locals)`).  Every element the
        cursor hands out must be released before the next one is taken, and the loop may end only when the cursor is done."""
        cu, cfg, flow = self.cu, self.cfg, self.flow
        head = cfg.node_of(x)
        if head is None or head.kind != "join":
            return None
        region = self._region(head)
        inside = [cfg.nodes[i] for i in sorted(region)]
        key = f"{self.what} releases in a while loop"
        at_head = {}
        names = {y.id for n in inside if n.ast is not None and n is not head for y in ast.walk(n.ast) if isinstance(y, ast.Name) and isinstance(y.ctx, ast.Load)}
        for nm in sorted(names):
            defs = cu.rd.reaching(head, nm)
            outer = [d for d in defs if d.node is None or d.node.id not in region]
            inner = [d for d in defs if d.node is not None and d.node.id in region]
            if len(outer) != 1 or outer[0].kind != "assign" or outer[0].index is not None or outer[0].value is None:
                continue
            v = outer[0].value
            kind = None
            if not inner:
                if isinstance(v, ast.Call) and dotted(v.func) in ("iter", "reversed") and len(v.args) == 1 and self.role(v.args[0], outer[0].node) == "elem":
                    kind = "iter"
                elif self.is_managed(v, outer[0].node) and (set(flow.tags(v, cu)) == {FRESH} or (isinstance(v, ast.Call) and (dotted(v.func) or "").rsplit(".", 1)[-1] == "deque")):
                    kind = "work"
                elif isinstance(v, ast.Call) and (dotted(v.func) or "").rsplit(".", 1)[-1] == "deque" and len(v.args) == 1 and self.is_managed(v.args[0], outer[0].node):
                    kind = "work"
            elif isinstance(v, ast.Constant) and v.value == 0 and type(v.value) is int:
                kind = "index"
            if kind is not None:
                at_head[nm] = (kind, outer[0], inner)
        if not at_head:
            return None
        exits = [(n, l, s) for n in inside for s, l in n.succs if s.id not in region and l != "exc"]
        starts = [s for s, _ in head.succs]

        def left_early(allowed) -> str | None:
            badx = [(n, l, s) for n, l, s in exits if not allowed(n, l)]
            if not badx:
                return None
            n = badx[0][0]
            return f"the loop can be left at `{n.text()}` before every managed local was released"

        for nm, (kind, d0, inner) in sorted(at_head.items()):
            def is_cur(e: ast.AST | None, nm=nm, d0=d0) -> bool:
                if not astq.is_name(e, nm):
                    return False
                n_ = cfg.node_of(e)
                return n_ is not None and set(cu.rd.reaching(n_, nm)) == {d0}

            if kind in ("iter", "work"):
                def is_pull(c_: ast.AST, kind=kind, is_cur=is_cur) -> bool:
                    if not isinstance(c_, ast.Call) or c_.keywords:
                        return False
                    if kind == "iter":
                        return dotted(c_.func) == "next" and 1 <= len(c_.args) <= 2 and is_cur(c_.args[0])
                    f = c_.func
                    return isinstance(f, ast.Attribute) and f.attr in ("pop", "popleft") and is_cur(f.value) and (
                        not c_.args or (f.attr == "pop" and len(c_.args) == 1 and isinstance(c_.args[0], ast.Constant) and c_.args[0].value in (0, -1)))

                loads = [y for y in cu.walk() if isinstance(y, ast.Name) and y.id == nm and isinstance(y.ctx, ast.Load) and is_cur(y)]
                pulls = [c_ for c_ in walk_no_nested(x) if is_pull(c_)]
                odd = []
                for y in loads:
                    par = astq.parent(y)
                    n_ = cfg.node_of(y)
                    if n_ is None or n_.id not in region:
                        odd.append(y)
                    elif isinstance(par, ast.Call) and is_pull(par):
                        continue
                    elif isinstance(par, ast.Attribute) and is_pull(astq.parent(par)):
                        continue
                    elif kind == "work" and (n_.ast is y or (isinstance(par, ast.Call) and dotted(par.func) == "len") or (isinstance(par, ast.UnaryOp) and isinstance(par.op, ast.Not))):
                        continue
                    else:
                        odd.append(y)
                if not pulls:
                    continue
                if odd:
                    return ("unknown", f"the cursor `{nm}` over the managed locals is also used as `{norm(astq.parent(odd[0]) or odd[0])}`: not understood", x, key)
                # every element handed out is released before the loop comes round again
                for p_ in pulls:
                    pn = cfg.node_of(p_)
                    if pn is None or why_conditional(p_, pn.ast) is not None:
                        return ("unknown", f"`{norm(p_)}` is evaluated conditionally inside one statement", x, key)
                    rel = self.rel.calls(cu, lambda e, p_=p_: e is p_, 0, head, x)
                    rnodes = [n_ for n_ in (flow.run_node(c_, cu) for c_ in rel) if n_ is not None]
                    if not rnodes:
                        odd_use = self.rel.unclear_use(lambda e, p_=p_: self.rel.subject(e, cu, lambda z: z is p_, head), ast.Module(body=x.body, type_ignores=[]), cu)
                        par_ = astq.parent(p_)
                        if odd_use is None and not rel and isinstance(par_, ast.Call) and dotted(par_.func) not in INERT_CALLS:
                            odd_use = norm(par_)
                        if odd_use is not None and not rel:
                            return ("unknown", f"the local taken by `{norm(p_)}` is handed to `{odd_use}`: not understood whether that releases it", x, key)
                        return ("bad", f"the local taken by `{norm(p_)}` is not released" + (f": `{norm(rel[0])}` {flow.why_not_run(rel[0], cu)}" if rel else ""), x, key)
                    if not any(r_ is pn for r_ in rnodes):
                        st_ = [s for s, l in pn.succs if l != "exc" and not any(s is r_ for r_ in rnodes)]
                        if st_ and head.id in cfg.reach(st_, avoid_nodes=rnodes):
                            return ("bad", f"a path from `{norm(p_)}` back to the loop head skips the release of the local it took", x, key)
                # the loop ends only when the cursor is exhausted
                if kind == "work":
                    done = _empty_edges(flow, cu, lambda e, at, is_cur=is_cur: is_cur(e))
                    why = left_early(lambda n, l: any(n is t_ and l == lab for t_, lab in done))
                else:
                    def done_edge(n: Node, l: str | None) -> bool:
                        a = n.ast
                        if n.kind == "test" and isinstance(a, ast.Compare) and len(a.ops) == 1:
                            s_ = a.comparators[0]
                            for p_ in pulls:
                                if len(p_.args) == 2 and ast.dump(p_.args[1]) == ast.dump(s_) and isinstance(s_, (ast.Constant, ast.Name)) and self.rel.subject(a.left, cu, lambda z, p_=p_: z is p_, head):
                                    return l == ("T" if isinstance(a.ops[0], (ast.Is, ast.Eq)) else "F") and isinstance(a.ops[0], (ast.Is, ast.Eq, ast.IsNot, ast.NotEq))
                        if isinstance(a, ast.Break):
                            for h_ in inside:
                                if h_.kind == "handler" and isinstance(h_.ast, ast.ExceptHandler) and handler_catches(h_.ast, "StopIteration") and n.id not in cfg.reach(starts, avoid_nodes=[h_]):
                                    tr = astq.parent(h_.ast)
                                    if isinstance(tr, ast.Try) and any(len(p_.args) == 1 and any(y is p_ for st_ in tr.body for y in ast.walk(st_)) for p_ in pulls):
                                        return True
                        return False

                    why = left_early(done_edge)
                if why is not None:
                    return ("bad", why, x, key)
                if not self.always_reached(head):
                    st_, fact = self._bypass(head, "the release loop")
                    return (st_, fact, x, key)
                return ("ok", f"every local taken from the {'work list' if kind == 'work' else 'iterator'} `{nm}` ({', '.join(sorted({norm(p_) for p_ in pulls}))}) is released before the next one, and the loop ends only when `{nm}` is exhausted", x, key)
            # ---- index cursor ----------------------------------------------------------------------------------------
            incs = [d for d in inner]
            if not incs or not all(
                    (d.kind == "aug" and isinstance(d.stmt, ast.AugAssign) and isinstance(d.stmt.op, ast.Add) and isinstance(d.stmt.value, ast.Constant) and d.stmt.value.value == 1)
                    or (d.kind == "assign" and isinstance(d.value, ast.BinOp) and isinstance(d.value.op, ast.Add) and astq.is_name(d.value.left, nm) and isinstance(d.value.right, ast.Constant) and d.value.right.value == 1)
                    for d in incs) or len({id(d.node) for d in incs}) != 1:
                continue
            inc = incs[0].node
            head_defs = set(cu.rd.reaching(head, nm))

            def is_idx(e: ast.AST, nm=nm, head_defs=head_defs) -> bool:
                if not astq.is_name(e, nm):
                    return False
                n_ = cfg.node_of(e)
                return n_ is not None and set(cu.rd.reaching(n_, nm)) == head_defs

            def is_count(e: ast.AST, depth: int = 0) -> bool:
                if isinstance(e, ast.Call) and dotted(e.func) == "len" and len(e.args) == 1 and self.is_managed(e.args[0], cfg.node_of(e)):
                    return True
                if isinstance(e, ast.Name) and depth < 3:
                    n_ = cfg.node_of(e)
                    defs = cu.rd.reaching(n_, e.id) if n_ is not None else frozenset()
                    return bool(defs) and all(d.kind == "assign" and d.index is None and d.value is not None and d.node is not None and d.node.id not in region and is_count(d.value, depth + 1) for d in defs)
                return False

            def done_edge(n: Node, l: str | None) -> bool:
                a = n.ast
                if n.kind != "test" or not isinstance(a, ast.Compare) or len(a.ops) != 1:
                    return False
                le, op, ri = a.left, a.ops[0], a.comparators[0]
                if is_idx(le) and is_count(ri) and isinstance(op, (ast.Lt, ast.NotEq)):
                    return l == "F"
                if is_count(le) and is_idx(ri) and isinstance(op, (ast.Gt, ast.NotEq)):
                    return l == "F"
                if is_idx(le) and is_count(ri) and isinstance(op, (ast.GtE, ast.Eq)):
                    return l == "T"
                if is_count(le) and is_idx(ri) and isinstance(op, (ast.LtE, ast.Eq)):
                    return l == "T"
                return False

            if not any(done_edge(n, l) for n, l, _ in exits):
                continue
            subj = self._subject_of(nm, "index", is_idx)
            rel = self.rel.calls(cu, subj, 0, head, x)
            rnodes = [n_ for n_ in (flow.run_node(c_, cu) for c_ in rel) if n_ is not None]
            if not rnodes:
                if rel:
                    return ("bad", f"`{norm(rel[0])}` is not executed in every iteration: {flow.why_not_run(rel[0], cu)}", x, key)
                odd_use = self.rel.unclear_use(is_idx, ast.Module(body=x.body, type_ignores=[]), cu)
                return ("unknown" if odd_use else "bad", f"no call in the loop releases `<locals>[{nm}]`" + (f"; `{odd_use}` is not understood" if odd_use else ""), x, key)
            round_ = cfg.reach(starts, avoid_nodes=rnodes + [head])
            if any(p.id in round_ for p, _ in head.preds if p.id in region):
                return ("bad", "a path through the loop body skips the release", x, key)
            round_i = cfg.reach(starts, avoid_nodes=[inc, head])
            if any(p.id in round_i for p, _ in head.preds if p.id in region):
                return ("unknown", f"`{nm}` is not advanced on every path through the loop body", x, key)
            if inc.id in cfg.reach([s for s, l in inc.succs if l != "exc" and s is not head], avoid_nodes=[head]):
                return ("unknown", f"`{nm}` may be advanced more than once per iteration", x, key)
            why = left_early(done_edge)
            if why is not None:
                return ("bad", why, x, key)
            if not self.always_reached(head):
                st_, fact = self._bypass(head, "the release loop")
                return (st_, fact, x, key)
            return ("ok", f"`{norm(rel[0])}` for every index `{nm}` from 0 up to the number of managed locals, advanced once per iteration; the loop ends only when `{nm}` reaches it", x, key)
        return None

    # -- the scan ------------------------------------------------------------------------------------------------
    def verdicts(self) -> list[Verdict]:
        cu, cfg, flow = self.cu, self.cfg, self.flow
        out: list[Verdict] = []
        w = self.what
        for x in cu.walk():
            # ---- for statement ---------------------------------------------------------------------------
            if isinstance(x, (ast.For, ast.AsyncFor)):
                head = cfg.node_of(x)
                vr = self.element(x.target, x.iter, head)
                if vr is None or head is None:
                    continue
                var, role = vr
                body = ast.Module(body=x.body, type_ignores=[])

                def is_var(e: ast.AST, var=var, head=head) -> bool:
                    if not astq.is_name(e, var):
                        return False
                    n_ = cfg.node_of(e)
                    defs = cu.rd.reaching(n_, var) if n_ is not None else frozenset()
                    return bool(defs) and all(d.kind == "for" and d.node is head for d in defs)

                rel = self._releases(var, role, is_var, body, head)
                key = f"{w} releases {var}"
                if not rel:
                    odd = self.rel.unclear_use(is_var, body, cu)
                    if odd is not None:
                        out.append(("unknown", f"the loop over the managed locals hands `{var}` to `{odd}`: not understood whether that releases it", x, key))
                    else:
                        out.append(("bad", "no call in the loop body releases the loop variable (`<it>.__release_local__()`, `release_local(<it>)`, or a helper of the module that does so on every path)", x, key))
                    continue
                rnodes = [n_ for n_ in (flow.run_node(c_, cu) for c_ in rel) if n_ is not None]
                if not rnodes:
                    out.append(("bad", f"`{norm(rel[0])}` is not executed in every iteration: {flow.why_not_run(rel[0], cu)}", x, key))
                    continue
                starts = [s for s in cfg.succ(head, "T") if not any(s is r_ for r_ in rnodes)]
                r = cfg.reach(starts, avoid_nodes=rnodes) if starts else set()
                if any(n_.id in r for n_ in (head, cfg.exit, cfg.raise_exit)):
                    out.append(("bad", "a path through the loop body (or out of the loop) skips the release", x, key))
                elif not self.never_left_early(x):
                    out.append(("bad", "the loop can be left (break / return / raise) before every managed local was released", x, key))
                elif not self.always_reached(head):
                    st, fact = self._bypass(head, "the release loop")
                    out.append((st, fact, x, key))
                else:
                    out.append(("ok", f"`{norm(rel[0])}` is executed in every iteration, the loop is never left early and is reached on every path (paths where nothing is managed excepted)", x, key))
            # ---- comprehension ---------------------------------------------------------------------------
            elif isinstance(x, (ast.ListComp, ast.SetComp, ast.DictComp, ast.GeneratorExp)):
                node = cfg.node_of(x)
                g0 = x.generators[0]
                vr = self.element(g0.target, g0.iter, node)
                if vr is None or node is None:
                    continue
                var, role = vr

                def is_var(e: ast.AST, var=var, g0=g0) -> bool:
                    return isinstance(e, ast.Name) and e.id == var and bound_in_enclosing_comp(e, cu.fi.node) is g0

                rel = self._releases(var, role, is_var, x, None)
                key = f"{w} releases in a comprehension"
                if not rel:
                    continue  # a comprehension over the locals that releases nothing: not the release iteration
                whys = [why_conditional(c_, node.ast, stop=x) for c_ in rel]
                if g0.ifs:
                    out.append(("bad", f"the comprehension filters the managed locals (`if {norm(g0.ifs[0])}`): the others are not released", x, key))
                elif all(w_ is not None for w_ in whys):
                    out.append(("bad", f"`{norm(rel[0])}` is not executed for every element: {whys[0]}", x, key))
                else:
                    status, fact = ("ok", "built eagerly, element by element") if not isinstance(x, ast.GeneratorExp) else self.consumer_verdict(x)
                    outer = astq.parent(x) if isinstance(x, ast.GeneratorExp) and isinstance(astq.parent(x), ast.Call) else x
                    w_ = self.why_skipped(outer, node.ast)
                    if status == "ok" and w_ is not None:
                        status, fact = "bad", f"the comprehension itself is not always evaluated: {w_}"
                    elif status == "ok" and not self.always_reached(node):
                        status, fact = self._bypass(node, "the releasing comprehension")
                    out.append((status, f"`{norm(rel[0])}` for every element of `{norm(g0.iter)}`; {fact}", x, key))
            # ---- map(release, managed) -------------------------------------------------------------------
            elif isinstance(x, ast.Call) and dotted(x.func) == "map" and len(x.args) == 2 and not x.keywords:
                node = cfg.node_of(x)
                if node is None or self.role(x.args[1], node) != "elem" or not self.rel.releaser(x.args[0], cu):
                    continue
                key = f"{w} releases through map"
                status, fact = self.consumer_verdict(x)
                w_ = self.why_skipped(astq.parent(x) if isinstance(astq.parent(x), ast.Call) and status == "ok" else x, node.ast)
                if status == "ok" and w_ is not None:
                    status, fact = "bad", f"the map is not always evaluated: {w_}"
                elif status == "ok" and not self.always_reached(node):
                    status, fact = self._bypass(node, "it")
                out.append((status, f"`{norm(x)}`: {fact}", x, key))
            # ---- while loop over a cursor ------------------------------------------------------------------
            elif isinstance(x, ast.While):
                v_ = self._while(x)
                if v_ is not None:
                    out.append(v_)
            # ---- the iteration lives in a helper that is handed the managed locals ----------------------------
            elif isinstance(x, ast.Call) and self.depth < 2:
                callees = flow.callees(x, cu)
                if len(callees) != 1:
                    continue
                tu, off = callees[0]
                if tu is cu or (self.rel.rl is not None and tu.fi is self.rel.rl):
                    continue
                if isinstance(tu.fi.node, ast.AsyncFunctionDef) or any(isinstance(n, (ast.Yield, ast.YieldFrom)) for n in tu.walk()):
                    continue
                node = cfg.node_of(x)
                params = set()
                a = tu.fi.node.args
                for nm in [y.arg for y in a.posonlyargs + a.args + a.kwonlyargs]:
                    how, arg = flow.site_arg(tu, nm, x, off)
                    if how == "arg" and arg is not None and self.is_managed(arg, node):
                        params.add(nm)
                same_obj = self.self_ok and off == 1 and tu.cls is cu.cls
                if not params and not same_obj:
                    continue
                sub = _Scan(flow, self.rel, tu, self.attr, same_obj, params, self.depth + 1, what=w).verdicts()
                if not sub or node is None:
                    continue
                key = f"{w} releases through {tu.fi.name}"
                best = next((v for v in sub if v[0] == "ok"), None)
                if best is None:
                    for st, fact, _, _ in sub:
                        out.append((st, f"in {tu.fi.qualname}, called as `{norm(x)}`: {fact}", x, key))
                    continue
                w_ = self.why_skipped(x, node.ast)
                if w_ is not None:
                    out.append(("bad", f"`{norm(x)}` (which holds the release iteration) is not always evaluated: {w_}", x, key))
                elif not self.always_reached(node):
                    st, fact = self._bypass(node, f"the call of {tu.fi.name}")
                    out.append((st, fact, x, key))
                else:
                    out.append(("ok", f"`{norm(x)}` is executed on every path; in {tu.fi.qualname}: {best[1]}", x, key))
        return out


def _cleanup(ctx: Ctx, flow: Flow, cu: Unit, attr: str, rl: FuncInfo) -> None:
    """LocalManager.cleanup: some iteration over ALL managed locals executes a release of the element in EVERY
    iteration (see _Scan), in cleanup itself or in a helper of the module that cleanup hands the locals to."""
    cleanup = cu.fi
    scan = _Scan(flow, _Rel(flow, rl), cu, attr)
    verdicts = scan.verdicts()
    oks = [v for v in verdicts if v[0] == "ok"]
    fact0 = f"{len(verdicts)} iteration(s) over self.{attr} (for loop / comprehension / map, here or in a helper)"
    if not verdicts:
        # why not?  an iteration over only a part of the container is a defect, a method that does not touch the container
        # at all releases nothing; anything else that uses the container is a shape that is not modelled (while loop over a
        # work list, recursion, a callable built elsewhere ...): cannot be decided either way
        cfg = cu.cfg
        its = [x.iter for x in cu.walk() if isinstance(x, (ast.For, ast.AsyncFor))] + [g.iter for x in cu.walk() if isinstance(x, (ast.ListComp, ast.SetComp, ast.DictComp, ast.GeneratorExp)) for g in x.generators]
        partial_ = [it for it in its
                    if any(isinstance(y, ast.Subscript) and isinstance(y.slice, ast.Slice) and scan.is_managed(y.value, cfg.node_of(y)) and not scan.is_managed(y, cfg.node_of(y)) for y in ast.walk(it))]
        uses_self = any(isinstance(y, ast.Call) and isinstance(y.func, ast.Attribute) and flow.self_ref(y.func.value, cu) for y in cu.walk()) or \
            any(isinstance(y, ast.Call) and any(flow.self_ref(a_, cu) for a_ in y.args) for y in cu.walk())
        if partial_:
            fact0 = f"iterates over `{norm(partial_[0])}`: only a part of self.{attr}"
        elif scan.mentions(cleanup.node) or uses_self:
            ctx.error(f"R18.2: LocalManager.cleanup uses self.{attr} (or hands the manager on), but not in an iteration this rule understands (for loop / comprehension / map over the container, here or in a helper of the module): cannot decide whether every managed local is released")
            return
        else:
            fact0 = f"the method never touches self.{attr}: nothing is released"
    ctx.ob("R18.2", "LocalManager.cleanup iterates over all managed locals", bool(verdicts), fact0, cleanup, cleanup.node, "cleanup loop")
    if oks:
        for _, fact, node_, key in oks:
            ctx.ob("R18.2", "LocalManager.cleanup releases each managed local unconditionally", True, fact, cleanup, node_, key)
        return
    if any(v[0] == "unknown" for v in verdicts) and not any(v[0] == "bad" for v in verdicts):
        ctx.error("R18.2: LocalManager.cleanup releases its locals in a way that is not understood (" + "; ".join(v[1] for v in verdicts if v[0] == "unknown") + ")")
        return
    for status, fact, node_, key in verdicts:
        if status == "bad":
            ctx.ob("R18.2", "LocalManager.cleanup releases each managed local unconditionally", False, fact, cleanup, node_, key)


def _single_local_wrapped(ctx: Ctx, flow: Flow, iu: Unit, init: FuncInfo, lp: str, attr: str, storage) -> None:
    """LocalManager(<one local>) must manage that local.  Decided per class of managed local (the classes of the module
    with a __release_local__) by following the constructor with the argument bound to ONE object of the class, the facts
    about it read off the class table - in particular whether the class is iterable: a Local defines __iter__ (it yields
    the (name, value) pairs of the current context), so a constructor that tells a single local from a collection of
    locals by trying to iterate it stores those pairs (usually: nothing) instead of the Local, and cleanup() releases
    nothing.  On every run that ends normally the stored container must hold the argument itself and nothing obtained by
    iterating it; a run that raises rejects the argument loudly, which this clause does not judge."""
    managed = [c for _cn, (c, _slots) in sorted(storage.items()) if RELEASE in c.methods]
    ctx.floor("R18.2", "classes of managed locals (with __release_local__) the constructor is followed on", len(managed), 2)
    for k in managed:
        run = SingleObjectRun(flow, iu, lp, k, attr)
        how = f"{k.name} defines {'__iter__' if '__iter__' in run.names else '__getitem__'}: iterating it yields its items, not the {k.name}" if run.iterable else f"{k.name} is not iterable (iterating it raises TypeError)"
        try:
            outs = run.outcomes()
        except CannotFollow as e:
            ctx.error(f"R18.2: LocalManager.__init__ cannot be followed statement by statement on a single {k.name} argument ({e}): cannot decide whether that local is stored or iterated")
            continue
        stored = [v for v, exc in outs if exc is None]
        raised = sorted({exc for _v, exc in outs if exc is not None})
        bad: list[str] = []
        unknown = False
        for v in stored:
            if isinstance(v, Cont):
                if "ITEMS" in v.elems:
                    bad.append(f"stores what iterating the {k.name} yields (its items in the constructing context - usually nothing), not the {k.name}: cleanup() then releases nothing")
                elif "ARG" not in v.elems and "?" not in v.elems:
                    bad.append(f"stores a container that does not hold the {k.name}")
                elif "ARG" not in v.elems:
                    unknown = True
            elif v is ARG:
                bad.append(f"stores the {k.name} itself, not a container of it: cleanup() would iterate the {k.name}")
            elif isinstance(v, str) and v == "unset":
                bad.append(f"leaves self.{attr} unset")
            else:
                unknown = True
        if bad and run.undecided:
            ctx.error(f"R18.2: LocalManager.__init__ on a single {k.name} argument: {bad[0]} - but only beyond the test `{run.undecided[0]}` of the argument, which the class table does not decide: cannot decide whether a {k.name} gets there")
            continue
        if unknown and not bad:
            ctx.error(f"R18.2: LocalManager.__init__ on a single {k.name} argument stores a value the run cannot classify: cannot decide whether that local is kept")
            continue
        if not stored and not bad:
            fact = f"rejected loudly on every run ({', '.join(raised)}); {how}"
        elif not bad:
            fact = f"{len(stored)} run(s) end with a container holding the {k.name} itself" + (f", {len(raised)} kind(s) of run raise {', '.join(raised)}" if raised else "") + f"; {how}"
        else:
            fact = "; ".join(dict.fromkeys(bad)) + f" ({how})"
        ctx.ob("R18.2", f"LocalManager.__init__ given one {k.name} (not a collection) manages that {k.name}", not bad, fact, init, init.node, f"single {k.name} is wrapped, not iterated")


def _r2(ctx: Ctx, flow: Flow, storage, kinds: dict[str, str]) -> None:
    repo = ctx.repo
    mod = flow.module
    n = 0
    for cname, (c, _) in sorted(storage.items()):
        rel = c.methods.get("__release_local__")
        if rel is None:
            raise AnalysisError(f"{cname}.__release_local__ missing")
        u = flow.unit_of(rel)
        sets = flow.bindings(u)
        nodes = [x for x in (flow.run_node(s, u) for s, _ in sets) if x is not None]
        covered = bool(nodes) and u.cfg.all_paths_pass(u.cfg.entry, [u.cfg.exit], nodes)
        cond = next((f"`{norm(s)}`: {w}" for s, w in ((s, flow.why_not_run(s, u)) for s, _ in sets) if w is not None), None)
        n += 1
        ctx.ob("R18.2", f"{cname}.__release_local__ rebinds the ContextVar on every path", covered,
               f"{len(sets)} `.set` call(s)" + ("" if covered else f"; {cond}" if cond else "; a normal path through the method binds nothing: the payload stays (or is emptied in place)"), rel, rel.node, f"{cname} release rebinds")
        for s, v in sets:
            k = flow.default_kind(v, u, c)
            if k is None and v is not None and not flow.default_wrong(v, u, c):
                ctx.error(f"R18.2: {cname}.__release_local__: `{norm(s)}`: the bound value is neither an empty container literal (directly, through names or a helper parameter) nor certainly something else: cannot decide")
                continue
            ctx.ob("R18.2", f"{cname}.__release_local__ binds an empty {kinds[cname]}", k == kinds[cname], f"`{norm(s)}`: {'empty ' + k if k else 'not an empty container literal'}; reads default to an empty {kinds[cname]}", rel, s, f"{cname} release value {norm(s)}")
    ctx.floor("R18.2", "storage classes with a __release_local__", n, 2)

    # release_local(x) -> x.__release_local__()
    rl = mod.functions.get("release_local")
    if rl is None:
        raise AnalysisError("release_local missing")
    ru = flow.unit_of(rl)
    a = rl.node.args
    p = (a.posonlyargs + a.args)[0].arg if (a.posonlyargs + a.args) else None
    calls = _Rel(flow, None).calls(ru, _param_subject(ru, p)) if p is not None else []
    nodes = [x for x in (flow.run_node(c_, ru) for c_ in calls) if x is not None]
    cond = next((f"; `{norm(c_)}`: {w}" for c_, w in ((c_, flow.why_not_run(c_, ru)) for c_ in calls) if w is not None), "")
    odd = _Rel(flow, None).unclear_use(_param_subject(ru, p), rl.node, ru) if (p is not None and not calls) else None
    if odd is not None:
        ctx.error(f"R18.2: release_local hands its argument to `{odd}`: not understood whether that calls its __release_local__")
    else:
        ctx.ob("R18.2", "release_local calls its argument's __release_local__ on every path", bool(nodes) and ru.cfg.all_paths_pass(ru.cfg.entry, [ru.cfg.exit], nodes), f"{len(calls)} call(s) of `{p}.__release_local__()`{cond}", rl, rl.node, "release_local delegates")

    # LocalManager
    lm = repo.cls(f"{LOCAL}.LocalManager")
    init = lm.methods.get("__init__")
    cleanup = lm.methods.get("cleanup")
    if init is None or cleanup is None:
        raise AnalysisError("LocalManager.__init__ / cleanup missing")
    iu = flow.unit_of(init)
    ia = init.node.args
    ipos = [x.arg for x in ia.posonlyargs + ia.args]
    if len(ipos) < 2:
        raise AnalysisError("LocalManager.__init__ takes no locals parameter")
    lp = ipos[1]
    stores = [(nm, v, node) for nm, v, node in _slot_stores(iu)]
    attrs = {nm for nm, _, _ in stores}
    if len(attrs) != 1:
        raise AnalysisError(f"LocalManager.__init__ stores {sorted(attrs)}: expected one attribute holding the managed locals")
    attr = next(iter(attrs))
    snodes = [x for x in (flow.run_node(node, iu) for _, _, node in stores) if x is not None]
    ctx.ob("R18.2", "LocalManager.__init__ records the managed locals on every path", iu.cfg.all_paths_pass(iu.cfg.entry, [iu.cfg.exit], snodes), f"{len(stores)} store(s) of self.{attr}", init, init.node, "manager records locals")
    keeper = _Keeps(flow, iu, lp, attr)
    for _, v, node in stores:
        cn = iu.cfg.node_of(node)
        why = keeper.keeps(v, cn) if cn is not None else None
        if why is None and cn is not None and keeper.built_up(cn, lambda e: isinstance(e, ast.Attribute) and e.attr == attr and flow.self_ref(e.value, iu)):
            why = f"filled from `{lp}` afterwards on every path where locals were given"
        ctx.ob("R18.2", f"LocalManager.__init__: `{norm(node)}` keeps every local it was given", why is not None,
               why or f"does not use `{lp}` although locals were given", init, node, norm(node))
        # cleanup() iterates the stored object once per call: it must be a container built here, not the caller's
        # iterable (a generator / iterator argument would be exhausted by the first cleanup, later ones release nothing)
        tags = flow.tags(v, iu)
        own = set(tags) == {FRESH}
        fact = f"stored value is {flow.describe(tags)}"
        if not own and cn is not None and keeper.reiterable_guard(cn):
            own, fact = True, f"`{lp}` itself, but only when it is a builtin list/tuple/set (re-iterable)"
        if not own:
            odd = _foreign_result(flow, iu, v, cn)
            if odd is not None:
                ctx.error(f"R18.2: LocalManager.__init__ stores the result of `{odd}`, a call into code the analysis does not see: cannot decide whether that is a container of the manager's own or a one-shot iterator")
                continue
        ctx.ob("R18.2", f"LocalManager.__init__: `{norm(node)}` stores a container materialised in the constructor", own,
               fact + ("" if own else f": `{lp}` may be a one-shot iterator, exhausted by the first cleanup() so that later cleanups release nothing"), init, node, f"materialises {norm(node)}")

    _single_local_wrapped(ctx, flow, iu, init, lp, attr, storage)
    _cleanup(ctx, flow, flow.unit_of(cleanup), attr, rl)


# ---------------------------------------------------------------------------
# R18.3


ALLOWED_ON_TARGET = {"isinstance", "callable", "type", "id", "object.__setattr__"}


class Variant:
    def __init__(self, unit: Unit, kind: str, defnode: ast.AST):
        self.unit = unit
        self.kind = kind  # Local | LocalStack | ContextVar | callable | ?
        self.defnode = defnode


def _r3(ctx: Ctx, flow: Flow, storage) -> list[Variant]:
    repo = ctx.repo
    mod = flow.module
    lp = repo.cls(f"{LOCAL}.LocalProxy")
    init = lp.methods.get("__init__")
    if init is None:
        raise AnalysisError("LocalProxy.__init__ missing")
    iu = flow.unit_of(init)
    a = init.node.args
    pos = [x.arg for x in a.posonlyargs + a.args]
    if len(pos) < 2:
        raise AnalysisError("LocalProxy.__init__ takes no proxied object")
    P = pos[1]

    # (a) every use of the proxied object at construction time is a type test or the store
    outer_exprs: list[ast.AST] = []
    for n in iu.walk():
        outer_exprs.append(n)
        if isinstance(n, (ast.FunctionDef, ast.AsyncFunctionDef)):
            extra = list(n.decorator_list) + list(n.args.defaults) + [d for d in n.args.kw_defaults if d is not None]
            for e in extra:
                outer_exprs.extend(ast.walk(e))
    n_use = 0
    for n in outer_exprs:
        if not (isinstance(n, ast.Name) and n.id == P):
            continue
        if isinstance(n.ctx, ast.Store):
            ctx.ob("R18.3", "LocalProxy.__init__ does not rebind the proxied object", False, f"`{P}` is reassigned in the constructor", init, n, f"rebinds {P}")
            continue
        par = astq.parent(n)
        ok = isinstance(par, ast.Call) and any(x is n for x in par.args) and dotted(par.func) in ALLOWED_ON_TARGET
        n_use += 1
        ctx.ob("R18.3", f"LocalProxy.__init__ only type-tests or stores `{P}`", ok,
               f"`{norm(par) if par is not None else P}`" + ("" if ok else ": evaluated when the proxy is created, not when it is used"), init, n, f"constructor use {norm(par) if par is not None else P}")
    ctx.floor("R18.3", "uses of the proxied object in LocalProxy.__init__ outside the nested functions", n_use, 4)

    # (b) the installed _get_current_object variants
    installs = [c_ for c_ in iu.walk() if isinstance(c_, ast.Call) and dotted(c_.func) in ("object.__setattr__", "setattr") and len(c_.args) == 3 and astq.const_str(c_.args[1]) == "_get_current_object"]
    if not installs:
        raise AnalysisError("LocalProxy.__init__: no installation of _get_current_object found")
    # one installation after the if-chain, or one per branch: every normal path passes one that is executed unconditionally
    inodes = [n_ for n_ in (flow.run_node(c_, iu) for c_ in installs) if n_ is not None]
    cond = next((f": `{norm(c_)}` {w_}" for c_, w_ in ((c_, flow.why_not_run(c_, iu)) for c_ in installs) if w_ is not None), "")
    ctx.ob("R18.3", "LocalProxy.__init__ installs _get_current_object on every normal path", bool(inodes) and iu.cfg.all_paths_pass(iu.cfg.entry, [iu.cfg.exit], inodes),
           f"{len(installs)} installation(s): {'; '.join(norm(c_) for c_ in installs)}{cond}", init, installs[0], "installs resolver")
    variants: list[Variant] = []
    kind_names = {f"werkzeug.{LOCAL}.Local": "Local", f"werkzeug.{LOCAL}.LocalStack": "LocalStack", CONTEXTVAR: "ContextVar"}

    def plain(e: ast.AST, at: Node, depth: int = 0) -> ast.AST:
        """a name that is a plain copy of another expression (one reaching definition) stands for that expression."""
        if isinstance(e, ast.NamedExpr):
            return plain(e.value, at, depth)
        if isinstance(e, ast.Name) and depth < 4:
            defs = iu.rd.reaching(at, e.id)
            if len(defs) == 1:
                d0 = next(iter(defs))
                if d0.kind in ("assign", "walrus") and d0.index is None and d0.value is not None and d0.node is not None:
                    return plain(d0.value, d0.node, depth + 1)
        return e

    def type_test(t_: Node, label: str) -> str | None:
        """kind of the proxied object that taking edge (t_, label) establishes."""
        e = plain(t_.ast, t_) if t_.ast is not None else None
        if label != "T" or not isinstance(e, ast.Call) or not e.args or not astq.is_name(e.args[0], P):
            return None
        fn = dotted(e.func)
        if fn == "isinstance" and len(e.args) == 2:
            fq = repo.resolve(mod, dotted(e.args[1]) or "?") or ""
            return kind_names.get(fq, fq or "?")
        if fn == "callable":
            return "callable"
        return None

    def resolver_defs(name: str, at: Node, depth: int = 0) -> list | None:
        """function definitions a name may stand for (through plain renamings `getter = _from_stack`)."""
        out = []
        for d in iu.rd.reaching(at, name):
            if d.kind == "def" and isinstance(d.stmt, (ast.FunctionDef, ast.AsyncFunctionDef)):
                out.append(d)
            elif d.kind in ("assign", "walrus") and d.index is None and isinstance(d.value, ast.Name) and d.node is not None and depth < 4:
                sub = resolver_defs(d.value.id, d.node, depth + 1)
                if sub is None:
                    return None
                out.extend(sub)
            else:
                return None
        return out or None

    rdefs: list | None = []
    for inst in installs:
        val = inst.args[2]
        inode = iu.cfg.node_of(inst)
        sub = resolver_defs(val.id, inode) if isinstance(val, ast.Name) and inode is not None else None
        if sub is None:
            # a factory call, a lambda, functools.partial ...: nothing says it is wrong, but its body cannot be inspected here
            raise AnalysisError(f"LocalProxy.__init__ installs `{norm(val)}` as _get_current_object: not (only) functions defined in the constructor, cannot inspect the resolvers")
        rdefs.extend(sub)
    seen_defs: set[int] = set()
    for d in sorted(rdefs, key=lambda d: getattr(d.stmt, "lineno", 0)):
        if id(d.stmt) in seen_defs:
            continue
        seen_defs.add(id(d.stmt))
        vu = flow.unit_of(d.stmt)
        kind = "?"
        dn = iu.cfg.node_of(d.stmt)
        if dn is not None:
            for t_, l in iu.cfg.guards(dn):
                k_ = type_test(t_, l)
                if k_ is not None:
                    kind = k_
        variants.append(Variant(vu, kind, d.stmt))
    ctx.floor("R18.3", "_get_current_object variants", len(variants), 4)
    kinds_found = sorted(v.kind for v in variants)
    for need in ("ContextVar", "Local", "LocalStack"):
        if need not in kinds_found:
            raise AnalysisError(f"no _get_current_object variant guarded by isinstance({P}, {need}) (found {kinds_found})")

    muts = repo.mutators("list") | repo.mutators("dict") | repo.mutators("set")
    for v in variants:
        fn = v.unit.fi.node
        reads = [n for n in ast.walk(fn) if isinstance(n, ast.Name) and n.id == P and isinstance(n.ctx, ast.Load)]
        shadow = P in v.unit.fi.params
        ctx.ob("R18.3", f"the {v.kind} resolver reads the proxied object when it is called", bool(reads) and not shadow, f"{len(reads)} read(s) of `{P}` in its body", init, fn, f"{v.kind} resolver reads target")
        state = []
        bound_here = set(v.unit.fi.params) | {d.name for ds in v.unit.rd.gen.values() for d in ds}
        for n in ast.walk(fn):
            if isinstance(n, (ast.Nonlocal, ast.Global)):
                state.append(norm(n))
            elif isinstance(n, (ast.Attribute, ast.Subscript)) and isinstance(n.ctx, (ast.Store, ast.Del)):
                state.append(norm(n))
            elif isinstance(n, ast.Call) and dotted(n.func) in ("setattr", "object.__setattr__"):
                state.append(norm(n))
            elif isinstance(n, ast.Call) and isinstance(n.func, ast.Attribute) and n.func.attr in muts and isinstance(n.func.value, ast.Name) and n.func.value.id not in bound_here:
                state.append(norm(n) + " (mutates an object of the enclosing scope)")
        if fn.decorator_list:
            state.append("decorated: " + ", ".join(norm(d) for d in fn.decorator_list))
        if fn.args.defaults or any(d is not None for d in fn.args.kw_defaults):
            state.append("default arguments (evaluated at proxy creation)")
        ctx.ob("R18.3", f"the {v.kind} resolver keeps no state between calls", not state, "no nonlocal/global, attribute or item store, decorator or default argument" if not state else f"{state}", init, fn, f"{v.kind} resolver stateless")

    # (c) _ProxyLookup.__get__
    pl = repo.cls(f"{LOCAL}._ProxyLookup")
    get = pl.methods.get("__get__")
    if get is None:
        raise AnalysisError("_ProxyLookup.__get__ missing")
    gu = flow.unit_of(get)
    ga = get.node.args
    gpos = [x.arg for x in ga.posonlyargs + ga.args]
    if len(gpos) < 2:
        raise AnalysisError("_ProxyLookup.__get__ has no instance parameter")
    inst_p = gpos[1]
    calls = [c_ for c_ in gu.walk() if isinstance(c_, ast.Call) and isinstance(c_.func, ast.Attribute) and c_.func.attr == "_get_current_object" and astq.is_name(c_.func.value, inst_p)]
    cnodes = [x for x in (flow.run_node(c_, gu) for c_ in calls) if x is not None]  # not as a short-circuited operand / conditional-expression branch
    class_edges = []
    for t_ in gu.cfg.tests():
        nl = _none_test(t_, lambda e: astq.is_name(e, inst_p))
        if nl is not None:
            class_edges.append((t_, nl))
    r = gu.cfg.reach(gu.cfg.entry, avoid_nodes=cnodes, avoid_edges=class_edges)
    ok = bool(cnodes) and gu.cfg.exit.id not in r
    p_ = gu.cfg.path(gu.cfg.entry, gu.cfg.exit, avoid_nodes=cnodes, avoid_edges=class_edges) if cnodes and not ok else None
    handed = None if calls else next((c_ for c_ in gu.walk() if isinstance(c_, ast.Call) and dotted(c_.func) not in INERT_CALLS and any(astq.is_name(a_, inst_p) for a_ in list(c_.args) + [k.value for k in c_.keywords]) and flow.callees(c_, gu)), None)
    if handed is not None:
        ctx.error(f"R18.3: _ProxyLookup.__get__ does not call `{inst_p}._get_current_object()` itself but hands `{inst_p}` to `{norm(handed)}`: not followed, cannot decide whether the current object is resolved on every access")
    else:
        ctx.ob("R18.3", "_ProxyLookup.__get__ resolves the current object on every instance access", ok,
           f"{len(calls)} call(s) of `{inst_p}._get_current_object()`; class access (`{inst_p} is None`) excepted" + (f"; path without it: {gu.cfg.fmt_path(p_)}" if p_ else ""), get, calls[0] if calls else get.node, "__get__ resolves per access")
    kept = []
    for n in gu.walk():
        if isinstance(n, (ast.Attribute, ast.Subscript)) and isinstance(n.ctx, (ast.Store, ast.Del)):
            kept.append(norm(astq.stmt_of(get, n) or n))
        elif isinstance(n, (ast.Nonlocal, ast.Global)):
            kept.append(norm(n))
        elif isinstance(n, ast.Call) and dotted(n.func) in ("setattr", "object.__setattr__"):
            kept.append(norm(n))
    ctx.ob("R18.3", "_ProxyLookup.__get__ stores the resolved object nowhere", not kept, "no attribute/item store, setattr, nonlocal or global" if not kept else f"{kept}", get, get.node, "__get__ keeps nothing")

    # (d) Local()/LocalStack() hand the local itself to the proxy
    n_mk = 0
    for cname, (c, _) in sorted(storage.items()):
        for u in _class_units(flow, c):
            for c_ in u.walk():
                if isinstance(c_, ast.Call) and repo.resolve(mod, dotted(c_.func) or "?") == lp.fq:
                    n_mk += 1
                    first = c_.args[0] if c_.args else None
                    ctx.ob("R18.3", f"{u.fi.qualname} proxies the local itself, not a value read now", first is not None and flow.self_ref(first, u), f"`{norm(c_)}`", u.fi, c_, f"{cname} proxy of {norm(first) if first is not None else '?'}")
    ctx.floor("R18.3", "proxy constructions in Local / LocalStack", n_mk, 2)
    return variants


# ---------------------------------------------------------------------------
# R18.4


def _expect(ctx: Ctx, flow: Flow, fi: FuncInfo, kind: str, what: str, want_kind: str, want_detail: str, label: str) -> None:
    """abstract run of fi with the payload known to be empty: every exit it can reach is the wanted one.  An unwanted
    exit that is reached only beyond a payload-dependent condition the run could not evaluate (or a returned value it could
    not work out) is not a violation but a method the analysis does not follow: cannot decide."""
    u = flow.unit_of(fi)
    run_ = EmptyRun(flow, u, kind)

    def wanted(o) -> bool:
        return o.kind == want_kind and o.detail == want_detail

    bad = [o for o in run_.outcomes if not wanted(o) and not o.uncertain]
    unsure = [o for o in run_.outcomes if o.uncertain and not wanted(o)]
    fact = f"with an empty {kind} payload the method can only: {run_.summary()} ({run_.decided} payload-dependent branch(es) decided)"
    if not bad and (unsure or not run_.outcomes or run_.decided == 0):
        why = "an exit is reached only through a payload-dependent condition / value that the abstract run cannot evaluate" if unsure else "no exit reached" if not run_.outcomes else "no branch, subscript or value of the method was decided by the payload being empty"
        ctx.error(f"R18.4: {fi.qualname}: {what}: cannot decide - {why}; {fact}")
        return
    first = bad[0] if bad else None
    ctx.ob("R18.4", f"{fi.qualname}: {what}", not bad, fact, fi, first.node.ast if first is not None and first.node.ast is not None else fi.node, label)


def _ancestors(n: ast.AST) -> t.Iterator[ast.AST]:
    cur = astq.parent(n)
    while cur is not None:
        yield cur
        cur = astq.parent(cur)


class _HOut(t.NamedTuple):
    kind: str  # return | raise
    detail: str | None  # raise: exception name (None = bare re-raise); return: "fallback" | "other"
    node: Node
    unit: Unit
    text: str


class _HandlerWalk:
    """What the code that handles the RuntimeError of an unbound proxy ends in, under a valuation of "a fallback is declared":
    the handler's paths are walked on the CFG, a test of the fallback slot (through local names, `is None` / `is not None` /
    truthiness) takes only the edge the valuation allows, and a helper of the module called on the way is walked the same way
    (its parameters carry the fallback where the call site passes it; a bare `raise` in a helper called from the handler
    re-raises the exception being handled)."""

    def __init__(self, flow: Flow, fb_attr: str, truthy: bool):
        self.flow, self.fb_attr, self.truthy = flow, fb_attr, truthy
        self.unknown: list[str] = []
        self.exc_name: str | None = None
        self.handler: ast.AST | None = None

    def is_fb(self, e: ast.AST | None, u: Unit, binds: dict[str, bool], depth: int = 0) -> bool:
        if e is None or depth > 6:
            return False
        if isinstance(e, ast.NamedExpr):
            return self.is_fb(e.value, u, binds, depth)
        if isinstance(e, ast.Call) and dotted(e.func) == "getattr" and len(e.args) == 2:
            return self.flow.self_ref(e.args[0], u) and astq.const_str(e.args[1]) == self.fb_attr
        if isinstance(e, ast.Name):
            node = u.cfg.node_of(e)
            defs = u.rd.reaching(node, e.id) if node is not None else frozenset()
            return bool(defs) and all(
                (d.kind == "param" and binds.get(d.name, False)) or (d.kind in ("assign", "walrus") and d.index is None and d.value is not None and self.is_fb(d.value, u, binds, depth + 1))
                for d in defs)
        return isinstance(e, ast.Attribute) and self.flow.self_ref(e.value, u) and e.attr == self.fb_attr

    def mentions_fb(self, e: ast.AST, u: Unit, binds: dict[str, bool], depth: int = 0) -> bool:
        """the expression reads the fallback slot - directly, or through local names whose values were computed from it
        (a flag such as `missing = self.fallback is None`)."""
        for x in ast.walk(e):
            if isinstance(x, (ast.Name, ast.Attribute, ast.Call)) and self.is_fb(x, u, binds):
                return True
            if isinstance(x, ast.Name) and isinstance(x.ctx, ast.Load) and depth < 4:
                node = u.cfg.node_of(x)
                for d in (u.rd.reaching(node, x.id) if node is not None else ()):
                    if d.kind in ("assign", "walrus", "unpack") and d.value is not None and d.value is not e and self.mentions_fb(d.value, u, binds, depth + 1):
                        return True
        return False

    def fb_truth(self, e: ast.AST | None, u: Unit, binds: dict[str, bool], has_fb: bool, depth: int = 0) -> bool | None:
        """truth value of a condition that only depends on whether a fallback is declared, under the valuation: the slot
        tested against None (either way round), its truthiness (declared fallbacks are functions), `not` / `and` / `or` /
        bool() / conditional expressions of such conditions, constants, and a local name every reaching definition of which
        is such a condition with the same value (a flag computed before the branch); None when it is anything else."""
        if e is None or depth > 8:
            return None
        if isinstance(e, ast.NamedExpr):
            return self.fb_truth(e.value, u, binds, has_fb, depth + 1)
        if isinstance(e, ast.Constant):
            return bool(e.value)
        if isinstance(e, ast.UnaryOp) and isinstance(e.op, ast.Not):
            r = self.fb_truth(e.operand, u, binds, has_fb, depth + 1)
            return None if r is None else not r
        if isinstance(e, ast.BoolOp):
            rs = [self.fb_truth(x, u, binds, has_fb, depth + 1) for x in e.values]
            decides = not isinstance(e.op, ast.And)
            if any(r is decides for r in rs):
                return decides
            return None if any(r is None for r in rs) else (not decides)
        if isinstance(e, ast.IfExp):
            c = self.fb_truth(e.test, u, binds, has_fb, depth + 1)
            return None if c is None else self.fb_truth(e.body if c else e.orelse, u, binds, has_fb, depth + 1)
        if isinstance(e, ast.Call) and dotted(e.func) == "bool" and len(e.args) == 1 and not e.keywords:
            return self.fb_truth(e.args[0], u, binds, has_fb, depth + 1)
        if isinstance(e, ast.Compare) and len(e.ops) == 1:
            l, op, r = e.left, e.ops[0], e.comparators[0]
            if astq.is_none(l) and not astq.is_none(r):
                l, r = r, l
            if astq.is_none(r) and self.is_fb(l, u, binds):
                if isinstance(op, (ast.Is, ast.Eq)):
                    return not has_fb
                if isinstance(op, (ast.IsNot, ast.NotEq)):
                    return has_fb
            return None
        if self.is_fb(e, u, binds):
            return has_fb if self.truthy else None
        if isinstance(e, ast.Name):
            node = u.cfg.node_of(e)
            defs = u.rd.reaching(node, e.id) if node is not None else frozenset()
            vals = set()
            for d in defs:
                if d.kind not in ("assign", "walrus") or d.index is not None or d.value is None:
                    return None
                vals.add(self.fb_truth(d.value, u, binds, has_fb, depth + 1))
            return next(iter(vals)) if len(vals) == 1 and None not in vals else None
        return None

    def _binds_at(self, cu: Unit, call: ast.Call, off: int, u: Unit, binds: dict[str, bool]) -> dict[str, bool]:
        out: dict[str, bool] = {}
        a = cu.fi.node.args
        for nm in [x.arg for x in a.posonlyargs + a.args + a.kwonlyargs]:
            how, arg = self.flow.site_arg(cu, nm, call, off)
            out[nm] = how == "arg" and arg is not None and self.is_fb(arg, u, binds)
        return out

    def _helper(self, call: ast.AST | None, u: Unit) -> tuple[Unit, int] | None:
        if not isinstance(call, ast.Call):
            return None
        callees = self.flow.callees(call, u)
        if len(callees) != 1:
            return None
        cu, off = callees[0]
        if isinstance(cu.fi.node, ast.AsyncFunctionDef) or any(isinstance(n, (ast.Yield, ast.YieldFrom)) for n in cu.walk()):
            return None
        return cu, off

    def from_fb(self, e: ast.AST | None, u: Unit, binds: dict[str, bool], depth: int = 0) -> bool:
        """the value is the declared fallback, or produced from it (bound with __get__, called, an attribute of it)."""
        if e is None or depth > 10:
            return False
        if self.is_fb(e, u, binds):
            return True
        if isinstance(e, ast.NamedExpr):
            return self.from_fb(e.value, u, binds, depth + 1)
        if isinstance(e, ast.IfExp):
            return self.from_fb(e.body, u, binds, depth + 1) and self.from_fb(e.orelse, u, binds, depth + 1)
        if isinstance(e, ast.Call):
            hp = self._helper(e, u)
            if hp is not None:
                cu, off = hp
                b2 = self._binds_at(cu, e, off, u, binds)
                rets = [n for n in cu.walk() if isinstance(n, ast.Return)]
                return bool(rets) and all(self.from_fb(r.value, cu, b2, depth + 1) for r in rets)
            if (dotted(e.func) or "").endswith("cast") and len(e.args) == 2:
                return self.from_fb(e.args[1], u, binds, depth + 1)
            return self.from_fb(e.func, u, binds, depth + 1) or any(self.from_fb(a_, u, binds, depth + 1) for a_ in e.args)
        if isinstance(e, ast.Attribute):
            return self.from_fb(e.value, u, binds, depth + 1)
        if isinstance(e, ast.Name):
            node = u.cfg.node_of(e)
            defs = u.rd.reaching(node, e.id) if node is not None else frozenset()
            return bool(defs) and all(d.kind in ("assign", "walrus") and d.index is None and self.from_fb(d.value, u, binds, depth + 1) for d in defs)
        return False

    def _fb_edge(self, t_: Node, u: Unit, binds: dict[str, bool], has_fb: bool) -> str | None:
        """label of the edge a test of the fallback takes under the valuation (None: not such a test)."""
        nl = _none_test(t_, lambda e: self.is_fb(e, u, binds))
        if nl is not None:
            return _other(nl) if has_fb else nl
        if t_.kind == "test" and t_.ast is not None and self.is_fb(t_.ast, u, binds):
            if self.truthy:
                return "T" if has_fb else "F"
        if t_.kind == "test" and t_.ast is not None:
            tr = self.fb_truth(t_.ast, u, binds, has_fb)  # type: ignore[arg-type]
            if tr is not None and not isinstance(t_.ast, ast.Constant):
                return "T" if tr else "F"
        return None

    def outcomes(self, u: Unit, starts: list[Node], has_fb: bool, binds: dict[str, bool], depth: int = 0, in_handler: bool = True) -> list[_HOut]:
        cfg = u.cfg
        out: list[_HOut] = []
        seen: set[int] = set()
        work = list(starts)
        where = "" if depth == 0 else f" in {u.fi.qualname}"
        while work:
            n = work.pop()
            if n.id in seen:
                continue
            seen.add(n.id)
            a = n.ast
            if n is cfg.exit:
                out.append(_HOut("return", "other", n, u, f"leaves{where} without a return (None)"))
                continue
            if n is cfg.raise_exit:
                continue
            if n.kind == "test":
                lab = self._fb_edge(n, u, binds, has_fb)
                if lab is None and depth == 0 and isinstance(a, ast.Name) and self.handler is not None:
                    # a flag set while handling the exception (`bound = False`) and tested after the try statement
                    mine = [d for d in u.rd.reaching(n, a.id) if d.stmt is not None and any(p_ is self.handler for p_ in _ancestors(d.stmt))]
                    if mine and all(d.kind == "assign" and d.index is None and isinstance(d.value, ast.Constant) for d in mine) and len({bool(d.value.value) for d in mine}) == 1:  # type: ignore[union-attr]
                        lab = "T" if bool(mine[0].value.value) else "F"  # type: ignore[union-attr]
                if lab is None and a is not None and self.mentions_fb(a, u, binds):
                    self.unknown.append(f"test `{n.text()}` of the fallback{where}")
                work.extend(s for s, l in n.succs if l != "exc" and (lab is None or l == lab))
                continue
            if isinstance(a, ast.Raise):
                if a.exc is None:
                    inner = astq.parent(a)
                    while inner is not None and inner is not u.fi.node and not isinstance(inner, ast.ExceptHandler):
                        inner = astq.parent(inner)
                    if depth > 0 and isinstance(inner, ast.ExceptHandler):
                        self.unknown.append(f"bare `raise` inside a handler of {u.fi.qualname}")
                    out.append(_HOut("raise", None, n, u, f"re-raise{where}"))
                else:
                    nm = raised_class(u, a, self.flow)
                    if depth == 0 and isinstance(a.exc, ast.Name) and a.exc.id == self.exc_name:
                        nm = None  # `except RuntimeError as e: ... raise e`
                    elif (nm or "").startswith("?"):
                        self.unknown.append(f"`{norm(a)}`{where}: the class of what is raised cannot be told")
                    out.append(_HOut("raise", nm, n, u, f"raise {nm or 'the handled exception'}{where}"))
                continue
            if n.kind == "stmt" and a is not None and not isinstance(a, (ast.FunctionDef, ast.AsyncFunctionDef, ast.ClassDef)):
                goes_on = True
                returned = EmptyRun._through(a.value) if isinstance(a, ast.Return) else None
                for c_ in [x for x in [a, *walk_no_nested(a)] if isinstance(x, ast.Call)]:
                    hp = self._helper(c_, u)
                    if hp is None or depth >= 2:
                        continue
                    cu, off = hp
                    if why_conditional(c_, a) is not None:
                        self.unknown.append(f"helper call `{norm(c_)}` evaluated conditionally inside one statement{where}")
                        continue
                    sub = self.outcomes(cu, [cu.cfg.entry], has_fb, self._binds_at(cu, c_, off, u, binds), depth + 1)
                    out.extend(o for o in sub if o.kind == "raise")
                    rets = [o for o in sub if o.kind == "return"]
                    if not rets:
                        goes_on = False
                    elif c_ is returned:
                        out.extend(rets)
                        goes_on = False
                if not goes_on:
                    continue
                if isinstance(a, ast.Return):
                    good = self.from_fb(a.value, u, binds)
                    out.append(_HOut("return", "fallback" if good else "other", n, u, f"`{norm(a)}`{where}" + ("" if good else " (not produced from the fallback)")))
                    continue
            work.extend(s for s, l in n.succs if l != "exc")
        return out


def _r4(ctx: Ctx, flow: Flow, storage, kinds: dict[str, str], variants: list[Variant]) -> None:
    repo = ctx.repo
    mod = flow.module
    by_kind = {v.kind: v for v in variants}
    lp = repo.cls(f"{LOCAL}.LocalProxy")
    init = lp.methods["__init__"]
    P = [x.arg for x in init.node.args.posonlyargs + init.node.args.args][1]

    # --- what "nothing bound" looks like at the local's own interface -----------------
    lc = repo.cls(f"{LOCAL}.Local")
    ls = repo.cls(f"{LOCAL}.LocalStack")
    if lc.name not in storage or ls.name not in storage:
        raise AnalysisError("Local / LocalStack no longer store a ContextVar")
    for nm in ("__getattr__", "__delattr__"):
        fi = lc.methods.get(nm)
        if fi is None:
            raise AnalysisError(f"Local.{nm} missing")
        _expect(ctx, flow, fi, kinds[lc.name], "an empty namespace reports every name missing with AttributeError", "raise", "AttributeError", f"Local.{nm} on empty")

    # the LocalStack resolver tells us which attribute is the 'top' read
    sv = by_kind["LocalStack"]
    top_reads = [n for n in ast.walk(sv.defnode) if isinstance(n, ast.Attribute) and astq.is_name(n.value, P) and isinstance(n.ctx, ast.Load)]
    if not top_reads:  # read moved out of the resolver (R18.3 reports that): still find which property is meant
        top_reads = [n for n in ast.walk(init.node) if isinstance(n, ast.Attribute) and astq.is_name(n.value, P) and isinstance(n.ctx, ast.Load) and n.attr in ls.methods]
    top_names = sorted({n.attr for n in top_reads})
    if len(top_names) != 1 or top_names[0] not in ls.methods:
        raise AnalysisError(f"LocalStack resolver reads {top_names} of the stack: expected one property of LocalStack")
    top = ls.methods[top_names[0]]
    _expect(ctx, flow, top, kinds[ls.name], "an empty stack has no top (None)", "return", "None", "LocalStack.top on empty")
    pop = ls.methods.get("pop")
    if pop is None:
        raise AnalysisError("LocalStack.pop missing")
    _expect(ctx, flow, pop, kinds[ls.name], "popping an empty stack returns None", "return", "None", "LocalStack.pop on empty")

    # --- each resolver turns that into RuntimeError -------------------------------------------------------
    def lookup_nodes(v: Variant) -> list[Node]:
        out = []
        for n in v.unit.cfg.nodes:
            if n.ast is not None and n.kind in ("stmt", "test") and not isinstance(n.ast, (ast.FunctionDef, ast.AsyncFunctionDef)):
                if any(isinstance(x, ast.Name) and x.id == P for x in ast.walk(n.ast)):
                    out.append(n)
        return out

    def raises_runtime(v: Variant, starts: list[Node], instance: str, fact_prefix: str, node: ast.AST, key: str) -> bool:
        ok, fact = _only_raises(flow, v.unit, starts, {"RuntimeError"})
        if ok is None:
            ctx.error(f"R18.4: {instance}: cannot decide - {fact_prefix}{fact}")
            return False
        ctx.ob("R18.4", instance, ok, fact_prefix + fact, init, node, key)
        return bool(ok)

    def handled(v: Variant, exc: str, what: str, skip: t.Callable[[Node], bool] = lambda n: False) -> None:
        cfg = v.unit.cfg
        lks = [n for n in lookup_nodes(v) if not skip(n)]
        if not lks:
            ctx.ob("R18.4", f"the {v.kind} resolver converts {exc} into RuntimeError", False, "no lookup in the resolver", init, v.defnode, f"{v.kind} resolver converts {exc}")
            return
        for lk in lks:
            hs = [s for s, l in lk.succs if l == "exc" and isinstance(s.ast, ast.ExceptHandler)]
            catching = [h for h in hs if handler_catches(h.ast, exc)]  # type: ignore[arg-type]
            instance = f"the {v.kind} resolver converts {exc} ({what}) into RuntimeError"
            if not catching:
                ctx.ob("R18.4", instance, False, f"`{lk.text()}` {what} raises {exc}; handlers around it: {[h.text() for h in hs] or 'none'}", init, lk.ast, f"{v.kind} resolver converts {exc}")
            else:
                raises_runtime(v, [s for s, _ in catching[0].succs], instance, f"`{lk.text()}` under `{catching[0].text()}`: ", lk.ast, f"{v.kind} resolver converts {exc}")

    def sentinel_style(v: Variant, is_source, is_sentinel, sent_text: str, what: str, k_test: str, k_branch: str, k_guard: str) -> None:
        """the resolver reads a value that is a sentinel (None / a unique object) when nothing is bound: the branch on which
        the value IS the sentinel can only raise RuntimeError (in the resolver or a helper that never returns), and every
        return lies behind that test.  The test may also sit in a helper that is handed the value (`obj = _require(obj)`):
        then the helper's sentinel branch only raises, and every return of the resolver lies behind the helper call."""
        instance = f"the {v.kind} resolver converts {what} into RuntimeError"

        def values_in(u: Unit, is_src):
            def is_val(e: ast.AST, depth: int = 0) -> bool:
                if is_src(e):
                    return True
                if isinstance(e, ast.NamedExpr):
                    return is_val(e.value, depth)
                if isinstance(e, ast.Name) and depth < 4:
                    node = u.cfg.node_of(e)
                    defs = u.rd.reaching(node, e.id) if node is not None else frozenset()
                    return bool(defs) and all(d.kind in ("assign", "walrus") and d.index is None and d.value is not None and is_val(d.value, depth + 1) for d in defs)
                return False

            return is_val

        def tested_in(vv: Variant, is_val, where: str) -> bool | None:
            """obligations for the tests of the value in vv.unit; None when there is no such test."""
            cfg = vv.unit.cfg
            tests = [(t_, _none_test(t_, is_val, is_sentinel, vv.unit)) for t_ in cfg.tests()]
            tests = [(t_, l) for t_, l in tests if l is not None]
            if not tests:
                return None
            oks = [raises_runtime(vv, cfg.succ(t_, l), instance, f"`{t_.text()}`{where} when true for {sent_text}: ", t_.ast, k_branch) for t_, l in tests]
            rets = [n for n in cfg.nodes if isinstance(n.ast, ast.Return)]
            t0, l0 = tests[0]
            # behind the test: dominated by its other edge - or by the test itself when its sentinel branch never comes back
            unguarded = [n for n in rets if not (cfg.edge_dominates(t0, _other(l0), n) or (oks[0] and cfg.node_dominates(t0, n)))]
            ctx.ob("R18.4", f"the {v.kind} resolver returns only after the {sent_text} test", bool(rets) and not unguarded, f"{len(rets)} return(s){where}, {len(unguarded)} not behind the not-{sent_text} edge of `{t0.text()}`", init, (unguarded[0].ast if unguarded else vv.defnode), k_guard)
            return all(oks) and bool(rets) and not unguarded

        is_val = values_in(v.unit, is_source)
        if tested_in(v, is_val, "") is not None:
            return
        handed = [c_ for c_ in v.unit.walk() if isinstance(c_, ast.Call) and dotted(c_.func) not in INERT_CALLS and any(is_val(a_) for a_ in c_.args) and flow.callees(c_, v.unit)]
        for c_ in handed:
            callees = flow.callees(c_, v.unit)
            cn = v.unit.cfg.node_of(c_)
            if len(callees) != 1 or cn is None or why_conditional(c_, cn.ast) is not None:
                continue
            tu, off = callees[0]
            pn = _param_receiving(flow, tu, c_, off, is_val)
            if pn is None or tu is v.unit:
                continue
            r = tested_in(Variant(tu, v.kind, tu.fi.node), values_in(tu, _param_subject(tu, pn)), f" in {tu.fi.name}")
            if r is None:
                continue
            rets = [n for n in v.unit.cfg.nodes if isinstance(n.ast, ast.Return)]
            late = [n for n in rets if not v.unit.cfg.node_dominates(cn, n)]
            ctx.ob("R18.4", f"the {v.kind} resolver returns only after the {sent_text} test", bool(rets) and not late, f"{len(rets)} return(s) in the resolver, {len(late)} not behind `{norm(c_)}` (which holds the test)", init, (late[0].ast if late else v.defnode), k_guard + " (call)")
            return
        if handed:
            ctx.error(f"R18.4: {instance}: the value read is not tested in the resolver but handed to `{norm(handed[0])}`: not followed, cannot decide")
        else:
            ctx.ob("R18.4", instance, False, f"no `is {sent_text}` test of the value read in the resolver", init, v.defnode, k_test)

    cv = by_kind["ContextVar"]
    cv_gets = [c_ for c_ in ast.walk(cv.defnode) if isinstance(c_, ast.Call) and isinstance(c_.func, ast.Attribute) and c_.func.attr == "get" and astq.is_name(c_.func.value, P)]

    def unique_sentinel(e: ast.AST | None, v: Variant) -> str | None:
        """name of a module-level `object()` (an object nobody else can have put into the variable)."""
        at = v.unit.cfg.node_of(e) if e is not None else None
        if isinstance(e, ast.Name) and at is not None and not v.unit.rd.reaching(at, e.id) and not Flow._binds(flow.unit_of(init), e.id):
            vals = mod.assigns.get(e.id) or []
            if vals and all(isinstance(v_, ast.Call) and dotted(v_.func) == "object" and not v_.args and not v_.keywords for v_ in vals):
                return e.id
        return None

    lv = by_kind["Local"]
    l_uses = [n for n in ast.walk(lv.defnode) if isinstance(n, ast.Name) and n.id == P and isinstance(n.ctx, ast.Load)]
    l_gets = [astq.parent(n) for n in l_uses]
    l_sents = {unique_sentinel(c_.args[2], lv) if isinstance(c_, ast.Call) and dotted(c_.func) == "getattr" and len(c_.args) == 3 and c_.args[0] in l_uses and not c_.keywords else None for c_ in l_gets}
    if l_gets and None not in l_sents and len(l_sents) == 1:
        # `getattr(local, name, <unique sentinel>)` + identity test instead of attribute access + `except AttributeError`
        sname = next(iter(l_sents))
        sentinel_style(lv, lambda e: any(e is c_ for c_ in l_gets), lambda e: astq.is_name(e, sname), sname, f"AttributeError (of a name missing in the namespace, read as `{sname}`)",
                       "Local resolver converts AttributeError", "Local resolver converts AttributeError", "Local resolver return guarded")
    else:
        handled(lv, "AttributeError", "of a name missing in the namespace")

    sents = {unique_sentinel(c_.args[0], cv) if len(c_.args) == 1 and not c_.keywords else None for c_ in cv_gets}
    if cv_gets and None not in sents and len(sents) == 1:
        # `.get(<unique sentinel>)` + identity test instead of `.get()` + `except LookupError`
        sname = next(iter(sents))
        for c_ in cv_gets:
            ctx.ob("R18.4", "the ContextVar resolver reads without a default", True, f"`{norm(c_)}`: the default is the module-level sentinel `{sname} = object()`, which no context can have bound", init, c_, "ContextVar resolver get")
        sentinel_style(cv, lambda e: any(e is c_ for c_ in cv_gets), lambda e: astq.is_name(e, sname), sname, f"an unset ContextVar (read as `{sname}`)",
                       "ContextVar resolver converts LookupError", "ContextVar resolver converts LookupError", "ContextVar resolver return guarded")
    else:
        handled(cv, "LookupError", "of an unset ContextVar")
        for c_ in cv_gets:
            ctx.ob("R18.4", "the ContextVar resolver reads without a default", not c_.args and not c_.keywords, f"`{norm(c_)}`" + ("" if not c_.args else ": with a default an unset variable resolves to the default instead of reporting unbound"), init, c_, "ContextVar resolver get")

    # LocalStack: None top -> RuntimeError
    sentinel_style(sv, lambda e: isinstance(e, ast.Attribute) and astq.is_name(e.value, P) and e.attr == top_names[0], astq.is_none, "None", "a None top",
                   "LocalStack resolver tests top", "LocalStack resolver none branch", "LocalStack resolver return guarded")

    # --- _ProxyLookup.__get__ --------------------------------------------------------------
    pl = repo.cls(f"{LOCAL}._ProxyLookup")
    get = pl.methods["__get__"]
    gu = flow.unit_of(get)
    gcfg = gu.cfg
    inst_p = [x.arg for x in get.node.args.posonlyargs + get.node.args.args][1]
    calls = [c_ for c_ in gu.walk() if isinstance(c_, ast.Call) and isinstance(c_.func, ast.Attribute) and c_.func.attr == "_get_current_object" and astq.is_name(c_.func.value, inst_p)]
    pinit = pl.methods.get("__init__")
    if pinit is None:
        raise AnalysisError("_ProxyLookup.__init__ missing")
    fb_attrs = sorted({nm for nm, v, _ in _slot_stores(flow.unit_of(pinit)) if astq.is_name(v, "fallback")})
    ctx.ob("R18.4", "_ProxyLookup.__init__ keeps the declared fallback", len(fb_attrs) == 1 and "fallback" in flow.unit_of(pinit).fi.params, f"stored as {fb_attrs}", pinit, pinit.node, "fallback stored")
    fb_attr = fb_attrs[0] if fb_attrs else "fallback"

    # declared fallbacks are functions (lambda / module function): truthy, so `if self.fallback:` is the not-None test
    declared = [astq.arg_or_kw(v, 1, "fallback") for v in lp.attrs.values()
                if isinstance(v, ast.Call) and (repo.resolve(mod, dotted(v.func) or "?") or "").startswith(f"werkzeug.{LOCAL}._Proxy")]
    declared = [d for d in declared if d is not None and not astq.is_none(d)]
    truthy_fb = bool(declared) and all(isinstance(d, ast.Lambda) or (isinstance(d, ast.Name) and d.id in mod.functions) for d in declared)
    walk_ = _HandlerWalk(flow, fb_attr, truthy_fb)

    for c_ in calls:
        cn = gcfg.node_of(c_)
        if cn is None:
            continue
        hs = [s for s, l in cn.succs if l == "exc" and isinstance(s.ast, ast.ExceptHandler)]
        catching = [h for h in hs if handler_catches(h.ast, "RuntimeError")]  # type: ignore[arg-type]
        ctx.ob("R18.4", "_ProxyLookup.__get__ catches the RuntimeError of an unbound proxy", bool(catching), f"handlers around `{norm(c_)}`: {[h.text() for h in hs] or 'none'}", get, c_, "__get__ catches unbound")
        if not catching:
            continue
        h = catching[0]
        walk_.exc_name = h.ast.name  # type: ignore[union-attr]
        walk_.handler = h.ast
        without = walk_.outcomes(gu, [h], False, {})
        with_ = walk_.outcomes(gu, [h], True, {})
        if walk_.unknown:
            ctx.error("R18.4: _ProxyLookup.__get__: the code handling the RuntimeError of an unbound proxy is not understood (" + "; ".join(sorted(set(walk_.unknown))) + "): cannot decide what happens with / without a declared fallback")
            continue

        def show(outs) -> str:
            return "; ".join(sorted({o.text for o in outs})) or "no exit reached"

        ok = bool(without) and all(o.kind == "raise" and o.detail in (None, "RuntimeError") for o in without)
        badn = next((o for o in without if not (o.kind == "raise" and o.detail in (None, "RuntimeError"))), None)
        ctx.ob("R18.4", "_ProxyLookup.__get__ re-raises when no fallback is declared", ok, f"handling RuntimeError with `self.{fb_attr}` None ends in: {show(without)}", get, badn.node.ast if badn is not None and badn.node.ast is not None and badn.unit is gu else h.ast, "__get__ re-raises without fallback")
        ok2 = bool(with_) and all(o.kind == "return" and o.detail == "fallback" for o in with_)
        badn = next((o for o in with_ if not (o.kind == "return" and o.detail == "fallback")), None)
        ctx.ob("R18.4", "_ProxyLookup.__get__ answers from the fallback when one is declared", ok2, f"handling RuntimeError with `self.{fb_attr}` declared ends in: {show(with_)}", get, badn.node.ast if badn is not None and badn.node.ast is not None and badn.unit is gu else h.ast, "__get__ uses fallback")

    # --- declared fallbacks -----------------------------------------------------------------------
    fallbacks: dict[str, ast.AST | None] = {}
    for name, v in lp.attrs.items():
        if isinstance(v, ast.Call) and (repo.resolve(mod, dotted(v.func) or "?") or "").startswith(f"werkzeug.{LOCAL}._Proxy"):
            fallbacks[name] = astq.arg_or_kw(v, 1, "fallback")
    with_fb = {k for k, v in fallbacks.items() if v is not None and not astq.is_none(v)}

    def fb_function(e: ast.AST | None) -> tuple[list[str], list[ast.AST]] | None:
        """(parameter names, returned expressions) of a fallback given as lambda or module function."""
        if isinstance(e, ast.Lambda):
            return [x.arg for x in e.args.posonlyargs + e.args.args], [e.body]
        if isinstance(e, ast.Name) and e.id in mod.functions:
            fi = mod.functions[e.id]
            return [x.arg for x in fi.node.args.posonlyargs + fi.node.args.args], [r.value for r in astq.returns_of(fi.node)]
        return None

    for special in ("__bool__", "__repr__"):
        if special not in fallbacks:
            raise AnalysisError(f"LocalProxy.{special} is not a _ProxyLookup")
    fb = fallbacks["__bool__"]
    ff = fb_function(fb)
    ok = ff is not None and bool(ff[1]) and all(isinstance(r, ast.Constant) and r.value is False for r in ff[1])
    ctx.ob("R18.4", "an unbound proxy is falsy", ok, f"__bool__ fallback: `{norm(fb) if fb is not None else None}`", lp.fq, lp.attrs["__bool__"], "__bool__ fallback")
    fb = fallbacks["__repr__"]
    ff = fb_function(fb)
    if ff is None:
        ctx.ob("R18.4", "an unbound proxy has a repr of its own", False, f"__repr__ fallback: `{norm(fb) if fb is not None else None}`", lp.fq, lp.attrs["__repr__"], "__repr__ fallback")
    else:
        params, rets = ff
        me = params[0] if params else None
        touches = []
        for r in rets:
            for n in ast.walk(r) if r is not None else []:
                if isinstance(n, ast.Name) and n.id == me:
                    par = astq.parent(n)
                    if isinstance(par, ast.Call) and any(x is n for x in par.args) and dotted(par.func) in ("type", "id", "object.__repr__"):
                        continue
                    if isinstance(par, ast.Attribute) and (par.attr in with_fb or par.attr.startswith("_LocalProxy__")):
                        continue
                    touches.append(norm(par) if par is not None else n.id)
        ctx.ob("R18.4", "an unbound proxy has a repr that does not go through the bound object", bool(rets) and not touches,
               f"__repr__ fallback `{norm(fb)}`" + (f" uses {touches}: resolved through the (unbound) proxy" if touches else " uses only type(self) / attributes that have a fallback"), lp.fq, lp.attrs["__repr__"], "__repr__ fallback")


# ---------------------------------------------------------------------------
# R18.5


MUTABLE_CTORS = {"dict", "list", "set", "defaultdict", "OrderedDict", "deque", "WeakKeyDictionary", "WeakValueDictionary", "WeakSet", "Counter", "ChainMap", "bytearray"}


def _mutable_container(e: ast.AST | None) -> bool:
    if isinstance(e, (ast.List, ast.Dict, ast.Set, ast.ListComp, ast.DictComp, ast.SetComp)):
        return True
    if isinstance(e, ast.Call):
        f = e.func.value if isinstance(e.func, ast.Subscript) else e.func
        return (dotted(f) or "").rsplit(".", 1)[-1] in MUTABLE_CTORS
    return False


def _r5(ctx: Ctx, flow: Flow, storage) -> None:
    repo = ctx.repo
    mod = flow.module
    for cname, (c, slots) in sorted(storage.items()):
        sl = c.attrs.get("__slots__")
        declared: set[str] | None = None
        if isinstance(sl, (ast.Tuple, ast.List)) and all(astq.const_str(e) is not None for e in sl.elts):
            declared = {mangle(c.name, astq.const_str(e) or "") for e in sl.elts}
        elif sl is not None and astq.const_str(sl) is not None:
            declared = {mangle(c.name, astq.const_str(sl) or "")}
        ctx.ob("R18.5", f"{cname} instances hold nothing but the ContextVar", declared is not None and declared == slots,
               f"__slots__ = {sorted(declared) if declared is not None else 'absent (instances get a __dict__)'}; ContextVar slot(s) {sorted(slots)}", c.fq, sl if sl is not None else c.node, f"{cname} slots")
        bases = repo.bases(c)
        okb = all(getattr(b, "fq", "") in ("typing.Generic",) for b in bases)
        ctx.ob("R18.5", f"{cname} inherits no instance dictionary", okb, f"bases: {[getattr(b, 'fq', '?') for b in bases] or 'none (typing.Generic excepted)'}", c.fq, c.node, f"{cname} bases")
        for an, av in sorted(c.attrs.items()):
            if an == "__slots__":
                continue
            ctx.ob("R18.5", f"{cname}.{an} is not a class-level container shared by all contexts", not _mutable_container(av), f"`{an} = {norm(av)}`", c.fq, av, f"{cname} class attribute {an}")
        # the ContextVar is bound in __init__ only
        n_bind = 0
        for u in flow.units:
            for nm, _, node in _slot_stores(u):
                if nm in slots and u.cls is c:
                    n_bind += 1
                    ctx.ob("R18.5", f"{cname}: the ContextVar slot is bound only by the constructor", u.fi.name == "__init__" and u.outer is None,
                           f"`{norm(node)}` in {u.fi.qualname}" + ("" if u.fi.name == "__init__" else ": a new ContextVar detaches every context's data"), u.fi, node, f"{cname} binds slot in {u.fi.qualname}")
        if not n_bind:
            raise AnalysisError(f"{cname}: store of the ContextVar slot not found")
    # module level
    bad = []
    for name, vals in mod.assigns.items():
        for v in vals:
            if _mutable_container(v):
                bad.append(f"{name} = {norm(v)}")
    ctx.ob("R18.5", "werkzeug.local keeps no mutable module-level container", not bad, f"module-level bindings: {sorted(mod.assigns)}" if not bad else f"{bad}", mod.name, None, "module-level containers")
    globs = [norm(n) for n in ast.walk(mod.tree) if isinstance(n, ast.Global)]
    ctx.ob("R18.5", "no function of werkzeug.local rebinds a module-level name", not globs, "no `global` statement" if not globs else f"{globs}", mod.name, None, "global statements")


# ---------------------------------------------------------------------------
# R18.6 - a write is never dropped


def _pos_params(u: Unit) -> list[str]:
    a = u.fi.node.args
    return [x.arg for x in a.posonlyargs + a.args]


def _is_param(u: Unit, e: ast.AST | None, pname: str, depth: int = 0) -> bool:
    """e is the parameter pname itself: its name, or a local name every reaching definition of which is a plain copy of it."""
    if isinstance(e, ast.NamedExpr):
        return _is_param(u, e.value, pname, depth)
    if not isinstance(e, ast.Name) or depth > 3:
        return False
    node = u.cfg.node_of(e)
    defs = u.rd.reaching(node, e.id) if node is not None else frozenset()
    if not defs:
        return False
    for d in defs:
        if d.kind == "param":
            if d.name != pname:
                return False
        elif d.kind in ("assign", "walrus") and d.index is None and d.value is not None:
            if not _is_param(u, d.value, pname, depth + 1):
                return False
        else:
            return False
    return True


def _module_sentinel(flow: Flow, u: Unit, e: ast.AST | None) -> bool:
    """a module-level name bound once to `object()`: nothing a caller assigns can be it."""
    if not isinstance(e, ast.Name) or flow._locally_bound(e.id, e, u):
        return False
    o = u.outer
    while o is not None:
        if Flow._binds(o, e.id):
            return False
        o = o.outer
    vals = flow.module.assigns.get(e.id) or []
    return len(vals) == 1 and isinstance(vals[0], ast.Call) and dotted(vals[0].func) == "object" and not vals[0].args


class _SameObject:
    """Which conditions of a `__setattr__(name, value)` establish "the payload already holds this very object under this
    name" - the only state in which not binding is unobservable.  `<payload>[name] is value`; `<payload>.get(name, <module
    sentinel>) is value`; `<payload>.get(name) is value` only where `name in <payload>` is known (a missing name reads as
    None there, and None is a value one can assign); through `not`, `and` / `or` and flags computed before the branch."""

    def __init__(self, flow: Flow, u: Unit, pname: str, pvalue: str):
        self.flow, self.u, self.pname, self.pvalue = flow, u, pname, pvalue
        self.unrecognised: list[ast.AST] = []  # identity comparisons the analysis does not follow
        self.understood: set[int] = set()  # ... and those it does (sufficient or not)

    def payload(self, e: ast.AST | None) -> bool:
        return e is not None and bool(shared(self.flow.tags(e, self.u)))

    def membership(self, e: ast.AST | None) -> str | None:
        """the truth value of e under which the name is a key of the payload."""
        if isinstance(e, ast.Compare) and len(e.ops) == 1 and isinstance(e.ops[0], (ast.In, ast.NotIn)) and _is_param(self.u, e.left, self.pname):
            c = e.comparators[0]
            if isinstance(c, ast.Call) and isinstance(c.func, ast.Attribute) and c.func.attr == "keys" and not c.args:
                c = c.func.value
            if self.payload(c):
                return "T" if isinstance(e.ops[0], ast.In) else "F"
        return None

    def _lookup(self, e: ast.AST | None, depth: int = 0) -> str | None:
        """'item' when e reads the payload's entry for the name such that a missing name cannot be mistaken for a value,
        'get' when a missing name reads as None; None otherwise."""
        if isinstance(e, ast.NamedExpr):
            return self._lookup(e.value, depth)
        if isinstance(e, ast.Subscript) and isinstance(e.ctx, ast.Load) and self.payload(e.value) and _is_param(self.u, e.slice, self.pname):
            return "item"
        if isinstance(e, ast.Call) and isinstance(e.func, ast.Attribute) and e.func.attr == "get" and not e.keywords and self.flow.storage_method(e, self.u) is None \
                and self.payload(e.func.value) and e.args and _is_param(self.u, e.args[0], self.pname):
            if len(e.args) == 2 and _module_sentinel(self.flow, self.u, e.args[1]):
                return "item"
            if len(e.args) == 1 or (len(e.args) == 2 and astq.is_none(e.args[1])):
                return "get"
            return None
        if isinstance(e, ast.Name) and depth < 3:
            node = self.u.cfg.node_of(e)
            defs = self.u.rd.reaching(node, e.id) if node is not None else frozenset()
            kinds = {self._lookup(d.value, depth + 1) if d.kind in ("assign", "walrus") and d.index is None and d.value is not None else None for d in defs}
            return kinds.pop() if len(kinds) == 1 else None
        return None

    def when(self, e: ast.AST | None, member: bool, depth: int = 0) -> set[str]:
        """truth values of e under which the very object is known to be bound already ({'T'}, {'F'} or nothing).
        ``member``: the name is known to be a key where e is evaluated."""
        if e is None or depth > 6:
            return set()
        if isinstance(e, ast.NamedExpr):
            return self.when(e.value, member, depth + 1)
        if isinstance(e, ast.UnaryOp) and isinstance(e.op, ast.Not):
            return {_other(x) for x in self.when(e.operand, member, depth + 1)}
        if isinstance(e, ast.Call) and dotted(e.func) == "bool" and len(e.args) == 1 and not e.keywords:
            return self.when(e.args[0], member, depth + 1)
        if isinstance(e, ast.BoolOp):
            conj = isinstance(e.op, ast.And)
            res: list[set[str]] = []
            m = member
            for v in e.values:
                res.append(self.when(v, m, depth + 1))
                if conj and self.membership(v) == "T":
                    m = True
                if not conj and self.membership(v) == "F":
                    m = True
            out: set[str] = set()
            strong, weak = ("T", "F") if conj else ("F", "T")
            if any(strong in r for r in res):  # `a and b` true: both hold; `a or b` false: neither holds
                out.add(strong)
            if all(weak in r for r in res):
                out.add(weak)
            return out
        if isinstance(e, ast.Compare) and len(e.ops) == 1 and isinstance(e.ops[0], (ast.Is, ast.IsNot)):
            l, r = e.left, e.comparators[0]
            if _is_param(self.u, l, self.pvalue):
                l, r = r, l
            if not _is_param(self.u, r, self.pvalue):
                return set()
            how = self._lookup(l)
            if how == "item" or (how == "get" and member):
                self.understood.add(id(e))
                return {"T" if isinstance(e.ops[0], ast.Is) else "F"}
            if how is None:
                self.unrecognised.append(e)
            else:
                self.understood.add(id(e))  # a `.get(name) is value` without the membership: understood, and not sufficient
            return set()
        if isinstance(e, ast.Name):
            node = self.u.cfg.node_of(e)
            defs = self.u.rd.reaching(node, e.id) if node is not None else frozenset()
            if len(defs) == 1:
                d = next(iter(defs))
                if d.kind in ("assign", "walrus") and d.index is None and d.value is not None and d.node is not None:
                    return self.when(d.value, member or self.member_at(d.node), depth + 1)
        return set()

    def member_at(self, node: Node) -> bool:
        cfg = self.u.cfg
        for t_ in cfg.tests():
            if t_ is node or t_.kind != "test":
                continue
            lab = self.membership(t_.ast)
            if lab is not None and cfg.edge_dominates(t_, lab, node):
                return True
        return False

    def edges(self) -> list[tuple[Node, str]]:
        out = []
        for t_ in self.u.cfg.tests():
            if t_.kind != "test" or t_.ast is None:
                continue
            for lab in self.when(t_.ast, self.member_at(t_)):
                out.append((t_, lab))
        return out


_IDENTITY_CALLS = {"id", "operator.is_", "operator.is_not", "is_", "is_not"}


def _always_binds(flow: Flow, u: Unit, depth: int = 0, skip_edges: t.Iterable[tuple[Node, str]] = ()) -> tuple[bool, list[Node], list[Node]]:
    """(every way of returning normally from u has rebound a storage ContextVar, the binding nodes, a witness path that
    has not).  A binding node: an unconditionally evaluated `<storage>.set(...)` (also through a helper that sets its
    parameter), or a call of a helper of the module that itself always binds."""
    cfg = u.cfg
    nodes: list[Node] = []
    for c_, _ in flow.bindings(u):
        n = flow.run_node(c_, u)
        if n is not None:
            nodes.append(n)
    if depth < 3:
        for c_ in u.walk():
            if not isinstance(c_, ast.Call):
                continue
            n = flow.run_node(c_, u)
            if n is None or any(n is x for x in nodes):
                continue
            callees = flow.callees(c_, u)
            if len(callees) != 1 or callees[0][0] is u:
                continue
            cu = callees[0][0]
            if isinstance(cu.fi.node, ast.AsyncFunctionDef) or any(isinstance(y, (ast.Yield, ast.YieldFrom)) for y in cu.walk()):
                continue
            if _always_binds(flow, cu, depth + 1)[0]:
                nodes.append(n)
    skip = list(skip_edges)
    r = cfg.reach(cfg.entry, avoid_nodes=nodes, avoid_edges=skip)
    if cfg.exit.id not in r:
        return True, nodes, []
    ae = {(n.id, l) for n, l in skip}
    av = {n.id for n in nodes}
    # witness: BFS that honours both
    prev: dict[int, Node | None] = {cfg.entry.id: None}
    q = [cfg.entry]
    wit: list[Node] = []
    while q:
        n = q.pop(0)
        if n is cfg.exit:
            cur: Node | None = n
            while cur is not None:
                wit.append(cur)
                cur = prev[cur.id]
            wit.reverse()
            break
        for s, l in n.succs:
            if s.id in prev or s.id in av or (n.id, l) in ae:
                continue
            prev[s.id] = n
            q.append(s)
    return False, nodes, wit


def _mentions_identity(flow: Flow, u: Unit, depth: int = 0) -> list[ast.AST]:
    """identity comparisons (other than against None) and id() / operator.is_ calls in u and the helpers it calls."""
    out: list[ast.AST] = []
    for n in u.walk():
        if isinstance(n, ast.Compare) and any(isinstance(o, (ast.Is, ast.IsNot)) for o in n.ops) and not any(astq.is_none(x) for x in [n.left, *n.comparators]):
            out.append(n)
        if isinstance(n, ast.Call):
            if (dotted(n.func) or "") in _IDENTITY_CALLS:
                out.append(n)
            if depth < 2:
                for cu, _ in flow.callees(n, u):
                    if cu is not u:
                        out.extend(_mentions_identity(flow, cu, depth + 1))
    return out


def _r6(ctx: Ctx, flow: Flow, storage) -> None:
    """Local.__setattr__ / LocalStack.push: whatever the arguments, a call that returns has bound the ContextVar."""
    repo = ctx.repo
    lc = repo.cls(f"{LOCAL}.Local")
    ls = repo.cls(f"{LOCAL}.LocalStack")
    n_writers = 0
    for c, mname, identity_ok in ((lc, "__setattr__", True), (ls, "push", False)):
        fi = c.methods.get(mname)
        if fi is None or c.name not in storage:
            raise AnalysisError(f"{c.name}.{mname} missing (or {c.name} no longer stores a ContextVar): the write primitive of R18.6 is gone")
        u = flow.unit_of(fi)
        n_writers += 1
        pos = _pos_params(u)
        same: _SameObject | None = None
        skip: list[tuple[Node, str]] = []
        if identity_ok and len(pos) >= 3:
            same = _SameObject(flow, u, pos[1], pos[2])
            skip = same.edges()
        ok, nodes, wit = _always_binds(flow, u, 0, skip)
        what = f"{fi.qualname}: every call that returns has bound the ContextVar to a container of its own"
        excused = ("; not binding is excused only where the payload is known to hold this very object under this name already (" + (", ".join(f"`{t_.text()}` {'true' if l == 'T' else 'false'}" for t_, l in skip) or "no such test today") + ")") if identity_ok else ""
        if not nodes:
            ctx.ob("R18.6", what, False, "no unconditional `<storage>.set(...)` (direct, or in a helper of the module that always binds) in the method", fi, fi.node, f"{c.name}.{mname} binds")
            continue
        if ok:
            ctx.ob("R18.6", what, True, f"every path to a normal return passes {sorted({f'`{n.text()}`' for n in nodes})}{excused}", fi, nodes[0].ast, f"{c.name}.{mname} binds")
            continue
        path = " -> ".join(f"`{n.text()}`" for n in wit if n.ast is not None) or "(straight to the end)"
        if identity_ok and any(same is None or id(m) not in same.understood for m in _mentions_identity(flow, u)):  # for push no identity excuses a dropped write: the same object pushed twice is on the stack twice
            # an identity comparison is around that the analysis did not tie to "this very object is bound already"
            ctx.error(f"R18.6: {fi.qualname}: a path returns without binding the ContextVar ({path}) and the method compares identities in a way the analysis does not follow: cannot decide whether that path is only taken when the object is bound already")
            continue
        ctx.ob("R18.6", what, False, f"the path {path} returns without `<storage>.set(...)`: the assignment is dropped although the context may hold another object (an equal one inherited from the parent context, or none){excused}", fi, next((n.ast for n in reversed(wit) if n.ast is not None), fi.node), f"{c.name}.{mname} binds")
    ctx.floor("R18.6", "write primitives (Local.__setattr__, LocalStack.push)", n_writers, 2)


# ---------------------------------------------------------------------------
# R18.7 - nothing is reported missing before the payload was asked


def _slot_name_test(flow: Flow, u: Unit, e: ast.AST | None, pname: str) -> str | None:
    """the truth value of e under which the name IS the instance's own storage slot (`name == "_Local__storage"`,
    `name in ("_Local__storage",)`): a name that the slot descriptor answers, never the payload."""
    if not isinstance(e, ast.Compare) or len(e.ops) != 1:
        return None
    l, op, r = e.left, e.ops[0], e.comparators[0]
    if isinstance(op, (ast.Eq, ast.NotEq)):
        if _is_param(u, r, pname):
            l, r = r, l
        if _is_param(u, l, pname) and astq.const_str(r) in flow.slots:
            return "T" if isinstance(op, ast.Eq) else "F"
    if isinstance(op, (ast.In, ast.NotIn)) and _is_param(u, l, pname) and isinstance(r, (ast.Tuple, ast.List, ast.Set)) and r.elts and all(astq.const_str(x) in flow.slots for x in r.elts):
        return "T" if isinstance(op, ast.In) else "F"
    return None


def _unasked_verdicts(flow: Flow, u: Unit, kind: str, pname: str | None, want: str) -> list[tuple[Node, str]]:
    """exits of u of the kind that means "nothing is bound" (``want``: 'AttributeError' raised / 'None' returned) that are
    reached from the entry without any decision that depends on the ContextVar payload: walk the CFG along normal edges,
    do not go beyond a test / loop whose condition depends on the payload (a read of the storage, a local name fed by one,
    a helper of the module that reads it), nor beyond a return of something computed from it, nor into exception handlers
    (they are entered from a failing lookup)."""
    probe = EmptyRun.__new__(EmptyRun)  # only its dependency query is used: no run
    probe.flow, probe.unit, probe.kind, probe.owner = flow, u, kind, u.cls
    probe._dep_active = set()
    cfg = u.cfg
    out: list[tuple[Node, str]] = []
    seen: set[int] = set()
    work = [cfg.entry]
    while work:
        n = work.pop()
        if n.id in seen:
            continue
        seen.add(n.id)
        a = n.ast
        if n is cfg.exit:
            if want == "None" and any(not isinstance(p.ast, ast.Return) and p.id in seen for p, l in n.preds if l != "exc"):
                out.append((n, "falls off the end (returns None)"))
            continue
        if n is cfg.raise_exit:
            continue
        if n.kind in ("test", "loop"):
            cond = a.iter if isinstance(a, (ast.For, ast.AsyncFor)) else a
            if probe.depends(cond):
                continue
            lab = _slot_name_test(flow, u, a, pname) if pname is not None and n.kind == "test" else None
            work.extend(s for s, l in n.succs if l != "exc" and l != lab)
            continue
        if isinstance(a, ast.Raise):
            if want == "AttributeError" and raised_class(u, a, flow) == "AttributeError":
                out.append((n, f"`{n.text()}`"))
            continue
        if isinstance(a, ast.Return):
            if want == "None" and (a.value is None or astq.is_none(a.value)):
                out.append((n, f"`{n.text()}`"))
            continue
        if n.kind == "stmt" and a is not None and not isinstance(a, (ast.FunctionDef, ast.AsyncFunctionDef, ast.ClassDef)) and want == "AttributeError":
            # a helper of the module that never returns: what it raises is raised here
            ended = False
            for c_ in [x for x in [a, *walk_no_nested(a)] if isinstance(x, ast.Call)]:
                callees = flow.callees(c_, u)
                if len(callees) != 1 or callees[0][0] is u or why_conditional(c_, a) is not None or probe.depends(c_):
                    continue
                tu = callees[0][0]
                if isinstance(tu.fi.node, ast.AsyncFunctionDef) or any(isinstance(y, (ast.Yield, ast.YieldFrom)) for y in tu.walk()):
                    continue
                sub = _raise_names(flow, tu, [tu.cfg.entry], 1)
                if isinstance(sub, list) and sub:
                    if "AttributeError" in sub:
                        out.append((n, f"`{n.text()}` (which only raises {sorted(set(str(x) for x in sub))})"))
                    ended = True
                    break
            if ended:
                continue
        work.extend(s for s, l in n.succs if l != "exc")
    return out


def _r7(ctx: Ctx, flow: Flow, storage, kinds: dict[str, str]) -> None:
    """what the readers report when nothing is bound (AttributeError / None) is reported only after the payload of the
    current context was consulted: a name / a stack is never refused by a test of the name or of anything else alone."""
    repo = ctx.repo
    lc = repo.cls(f"{LOCAL}.Local")
    ls = repo.cls(f"{LOCAL}.LocalStack")
    n = 0
    for c, mname, want in ((lc, "__getattr__", "AttributeError"), (lc, "__delattr__", "AttributeError"), (ls, "top", "None"), (ls, "pop", "None")):
        fi = c.methods.get(mname)
        if fi is None or c.name not in storage:
            continue  # R18.4 reports the missing method
        u = flow.unit_of(fi)
        pos = _pos_params(u)
        pname = pos[1] if want == "AttributeError" and len(pos) >= 2 else None
        bad = _unasked_verdicts(flow, u, kinds[c.name], pname, want)
        n += 1
        verdict = "raises AttributeError" if want == "AttributeError" else "returns None"
        ctx.ob("R18.7", f"{fi.qualname} {verdict} only after a decision that depends on the payload of the current context", not bad,
               "every such exit lies behind a test / lookup of the payload" + (" (a test for the instance's own slot name aside)" if pname else "") if not bad
               else f"{bad[0][1]} is reached without consulting the payload: " + ("names that __setattr__ stores are refused before they are looked up, so a bound value reads as missing" if want == "AttributeError" else "a non-empty stack reads as empty"),
               fi, bad[0][0].ast if bad and bad[0][0].ast is not None else fi.node, f"{c.name}.{mname} unasked {want}")
    ctx.floor("R18.7", "readers that report 'nothing bound' (Local.__getattr__/__delattr__, LocalStack.top/pop)", n, 4)
